#!/bin/bash
# Run once after a fresh restore, offline.  Builds caches the checks would otherwise build lazily
# and runs the harness self-tests.  Every step is idempotent; nothing is fetched.
cd /verif || exit 1
mkdir -p evidence replays .cache
if [ -x ./tools/selftest.sh ]; then ./tools/selftest.sh || exit 1; fi
exit 0
