#!/bin/bash
# Run once after a fresh restore, offline.  Builds the parse caches the checks would otherwise
# build lazily and runs the harness self-tests.  Idempotent; nothing is fetched.
cd /verif || exit 1
mkdir -p evidence replays .cache
export PYTHONPATH=/repo:/verif PYTHONDONTWRITEBYTECODE=1 PYTHONHASHSEED=0
(cd /repo && /venv/bin/python /verif/tools/warm.py) 2>&1 | grep -v -i conda
if [ -x ./tools/selftest.sh ]; then ./tools/selftest.sh || exit 1; fi
exit 0
