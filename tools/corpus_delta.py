import json, sys
a = json.load(open(sys.argv[1])); b = json.load(open(sys.argv[2]))
ch = [k for k in sorted(set(a) | set(b)) if a.get(k, {}).get('h') != b.get(k, {}).get('h') or a.get(k, {}).get('rejected') != b.get(k, {}).get('rejected')]
print('changed parts:', len(ch))
better = worse = same_ok = same_bad = 0
for k in ch:
    x, y = a.get(k, {}), b.get(k, {})
    xb, yb = bool(x.get('bad') or x.get('static') or 'rejected' in x), bool(y.get('bad') or y.get('static') or 'rejected' in y)
    if xb and not yb: better += 1
    elif not xb and yb: worse += 1; print('WORSE', k, x, y)
    elif xb: same_bad += 1; print('STILL-BAD', k, x.get('first'), '->', y.get('first'), y.get('rejected'))
    else: same_ok += 1
print('better', better, 'worse', worse, 'unchanged-ok', same_ok, 'unchanged-bad', same_bad)
