"""Per-part status of the corpus on the tree at $VERIF_REPO: emitted text hash + agreement with the
strict reference on N states.  Used to judge candidate repairs (before/after)."""
import sys, collections, json, hashlib, os
sys.path.insert(0, '/verif')
from vf import core, drive, prog, corpus, ilvm, ceval
N = int(sys.argv[2]) if len(sys.argv) > 2 else 128
res = corpus.compile_corpus()
beh, _ = corpus.parsed_corpus()
env = prog.Env(drive.get_compiler())
class BehSpec(prog.ProgSpec):
    def __init__(self, name, pi, text):
        self.name, self.pi, self._text = name, pi, text
        self.decls = []; self.observe = []; self.tag = (name, pi); self.stmts = text
    @property
    def text(self): return self._text
EXTRA = [('npc', 32, 'input'), ('usr', 32, 'input'), ('cs', 32, 'input')]
def work(item):
    name, pi, part, text = item
    spec = BehSpec(name, pi, part)
    cp = prog.Compiled(spec, text, env)
    slots, states = prog.states_for(spec, cp.ops, N, EXTRA)
    out = collections.Counter(); first = None
    for vec in states:
        try: cobs = cp.run_c(slots, vec)
        except ceval.CUndefined: out['ub'] += 1; continue
        except ceval.CUnsupported as e: out['unsup'] += 1; continue
        try: m = cp.run_il(slots, vec)
        except ilvm.HelperUB: out['ub'] += 1; continue
        except ilvm.ILError as e: out['bad'] += 1; first = first or str(e)[:100]; continue
        d = prog.diff_obs(cobs, m.observation(), dict(m.cur))
        if d: out['bad'] += 1; first = first or d[0][:100]
        else: out['agree'] += 1
    st = cp.static_errors()
    return ('%s#%d' % (name, pi), {'h': hashlib.sha256(text.encode()).hexdigest()[:12], 'bad': out['bad'], 'agree': out['agree'], 'first': first, 'static': sum(len(v) for v in st.values())})
items = []
status = {}
for name, v in sorted(res.items()):
    if v[0] != 'ok':
        status[name] = {'rejected': v[0] + ':' + str(v[1])}
        continue
    for pi, (part, text) in enumerate(zip(beh[name], v[1]['rzil'])):
        items.append((name, pi, part, text))
status.update(dict(core.pmap(work, items)))
json.dump(status, open(sys.argv[1], 'w'), indent=0, sort_keys=True)
print('parts', len(items), 'bad', sum(1 for v in status.values() if v.get('bad')), 'rejected', sum(1 for v in status.values() if 'rejected' in v))
