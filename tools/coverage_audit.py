#!/venv/bin/python
"""Which lines / branches of the compiler do the program spaces of the checks reach?

Not a check: a tool to find blind spots of the generated spaces (a change in code that no
generated program reaches can only be noticed through the corpus).  Compiles the union of the
quick-tier spaces (and, with --corpus, the corpus) under coverage.py with branch measurement and
prints the unreached lines of rzilcompiler/Transformer, HexagonExtensions and Compiler per function.

  cd /repo && PYTHONPATH=/repo:/verif /venv/bin/python /verif/tools/coverage_audit.py [--corpus] [--tier quick]
"""
import ast
import os
import sys

import coverage

sys.path.insert(0, os.environ.get("VERIF_HOME", "/verif"))
from vf import core, corpus, drive, hist  # noqa

REPO = os.environ.get("VERIF_REPO", "/repo")
_JOB = {}


def texts(tier):
    from vf import staticprops
    from vf.props import c02, c03, c05, c06, c07, c08, c09, c13, c14, c15

    out = {}
    for name, sp in [("static", staticprops.static_space(tier)), ("c02", c02.space(tier)), ("c03", c03.space(tier)), ("c05", c05.space(tier)), ("c06", c06.space(tier)), ("c09", c09.space(tier))]:
        for s in sp:
            out.setdefault(s.text, name)
    for _tag, t in c13.part_space(tier):
        out.setdefault(t, "c13")
    for t in c14.BEHAVIOURS.values():
        out.setdefault(t, "c14")
    for _tag, t in c15.space():
        out.setdefault(t, "c15")
    for t in c15.SEQUENCED:
        out.setdefault(t, "c15")
    return out


def work(chunk):
    cov = coverage.Coverage(data_file=None, branch=True, include=[REPO + "/rzilcompiler/*"])
    comps = _JOB["comps"]
    cov.start()
    try:
        for fmt, t in chunk:
            try:
                comps[fmt].compile_c_stmt(t)
            except Exception:
                pass
    finally:
        cov.stop()
    d = cov.get_data()
    res = {}
    for f in d.measured_files():
        res[f] = (sorted(d.lines(f) or []), sorted(d.arcs(f) or []))
    return res


def corpus_work(chunk):
    cov = coverage.Coverage(data_file=None, branch=True, include=[REPO + "/rzilcompiler/*"])
    comp = _JOB["comps"]["stmt"]
    from rzilcompiler.Parser import ParsedInsn

    pc = _JOB["pc"]
    cov.start()
    try:
        for name, parts in chunk:
            trees = []
            for p in parts:
                r = pc.get(p)
                if r[0] != "ok":
                    break
                trees.append(r[1])
            else:
                try:
                    comp.transform_insn(name, ParsedInsn(name, trees, list(parts)))
                except Exception:
                    pass
    finally:
        cov.stop()
    d = cov.get_data()
    return {f: (sorted(d.lines(f) or []), sorted(d.arcs(f) or [])) for f in d.measured_files()}


def merge(acc, res):
    for r in res:
        for f, (ls, arcs) in r.items():
            a = acc.setdefault(f, (set(), set()))
            a[0].update(ls)
            a[1].update(arcs)


def executable_lines(path):
    """statement lines per function, from the AST (docstrings excluded)"""
    src = open(path).read()
    tree = ast.parse(src)
    out = {}

    def visit(node, qual):
        for ch in ast.iter_child_nodes(node):
            if isinstance(ch, (ast.FunctionDef, ast.AsyncFunctionDef, ast.ClassDef)):
                q = (qual + "." if qual else "") + ch.name
                if not isinstance(ch, ast.ClassDef):
                    lines = set()
                    body = ch.body
                    if body and isinstance(body[0], ast.Expr) and isinstance(getattr(body[0], "value", None), ast.Constant) and isinstance(body[0].value.value, str):
                        body = body[1:]
                    for st in body:
                        for n in ast.walk(st):
                            if isinstance(n, ast.stmt) and not isinstance(n, (ast.FunctionDef, ast.ClassDef)):
                                lines.add(n.lineno)
                    out[q] = (ch.lineno, lines)
                visit(ch, q)

    visit(tree, "")
    return out, src.split("\n")


def main():
    tier = "quick"
    if "--tier" in sys.argv:
        tier = sys.argv[sys.argv.index("--tier") + 1]
    with_corpus = "--corpus" in sys.argv
    only_generated = not with_corpus
    comps = {f: drive.get_compiler(f) for f in ("stmt", "exec")}
    T = texts(tier)
    pc = drive.ParseCache("audit-" + tier)
    for b in ("static-" + tier, "c02-" + tier, "c03-" + tier, "c05-" + tier, "c06-" + tier, "c09-" + tier, "c13-parts", "c14", "c15"):
        pc.z.update(drive.ParseCache(b).z)
    pc.ensure(list(T), seed=0)
    pc.save()
    for c in comps.values():
        drive.install_cache(c, pc)
    _JOB.update(comps=comps, pc=pc)
    items = [(f, t) for t in T for f in ("stmt", "exec")]
    chunks = [items[i : i + 200] for i in range(0, len(items), 200)]
    acc = {}
    merge(acc, core.pmap(work, chunks, seed=0, chunk=1))
    print("generated programs: %d texts x 2 layouts" % len(T))
    if with_corpus:
        beh, cpc = corpus.parsed_corpus(0)
        _JOB["pc"] = cpc
        drive.install_cache(comps["stmt"], cpc)
        names = sorted(beh)
        cchunks = [[(n, beh[n]) for n in names[i : i + 50]] for i in range(0, len(names), 50)]
        acc2 = {}
        merge(acc2, core.pmap(corpus_work, cchunks, seed=0, chunk=1))
        print("corpus: %d instructions" % len(names))
    else:
        acc2 = {}
    files = sorted(f for f in set(acc) | set(acc2) if "/Tests/" not in f)
    tot = hit = 0
    for f in files:
        rel = f[len(REPO) + 1 :]
        if not (rel.startswith("rzilcompiler/Transformer") or rel.endswith("HexagonExtensions.py") or rel.endswith("Compiler.py")):
            continue
        fn, src = executable_lines(f)
        g = acc.get(f, (set(), set()))[0]
        c = acc2.get(f, (set(), set()))[0]
        for q, (ln, lines) in sorted(fn.items(), key=lambda x: x[1][0]):
            if not lines:
                continue
            tot += len(lines)
            miss_g = sorted(l for l in lines if l not in g)
            hit += len(lines) - len(miss_g)
            if not miss_g:
                continue
            only_corpus = [l for l in miss_g if l in c]
            never = [l for l in miss_g if l not in c]
            if len(miss_g) == len(lines) and not only_corpus:
                print("%s:%d %s  -- never executed (%d lines)" % (rel, ln, q, len(lines)))
                continue
            print("%s:%d %s  -- generated spaces miss %d of %d lines%s" % (rel, ln, q, len(miss_g), len(lines), (" (%d of them reached by the corpus)" % len(only_corpus)) if with_corpus else ""))
            for l in miss_g:
                print("      %s%5d: %s" % ("c" if l in c else " ", l, src[l - 1].strip()[:130]))
    print("statement lines in functions: %d, reached by generated programs: %d (%.1f%%)" % (tot, hit, 100.0 * hit / max(tot, 1)))


if __name__ == "__main__":
    main()
