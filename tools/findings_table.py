#!/usr/bin/env python3
"""Rewrites the findings tables of DESIGN.md (between the FINDINGS markers) from known_findings.json."""
import json, re
k = json.load(open('/verif/known_findings.json'))
fs = k['findings'] if isinstance(k, dict) else k
def esc(t):
    return (t or '').replace('|', '\\|').replace('\n', ' ')
out = []
out.append('Open findings (%d); each check prints one KNOWN-FINDING line per finding it reproduces, and only on the inputs of the committed footprint (`baselines/footprint_<check>_<tier>.json`):\n' % sum(1 for f in fs if f.get('status') != 'fixed'))
out.append('| id | properties | rule | witness | why not repaired |')
out.append('|---|---|---|---|---|')
for f in fs:
    if f.get('status') == 'fixed':
        continue
    out.append('| %s | %s | %s | %s | %s |' % (f['id'], ' '.join(f['properties']), esc(f.get('rule'))[:420], esc(f.get('witness'))[:260], esc(f.get('why_not_fixed'))[:260]))
out.append('')
out.append('Repaired findings (%d `fixed:` entries; they suppress nothing - their deviation rules are not registered, so the defect is a plain violation if it returns):\n' % sum(1 for f in fs if f.get('status') == 'fixed'))
out.append('| id | entry |')
out.append('|---|---|')
for f in fs:
    if f.get('status') == 'fixed':
        out.append('| %s | %s |' % (f['id'], esc(f.get('fixed'))[:400]))
t = '\n'.join(out) + '\n'
s = open('/verif/DESIGN.md').read()
if '<!-- FINDINGS-BEGIN -->' not in s:
    raise SystemExit('markers missing')
s2 = re.sub(r'<!-- FINDINGS-BEGIN -->.*?<!-- FINDINGS-END -->', lambda m: '<!-- FINDINGS-BEGIN -->\n' + t + '<!-- FINDINGS-END -->', s, flags=re.S)
open('/verif/DESIGN.md', 'w').write(s2)
print('open', sum(1 for f in fs if f.get('status') != 'fixed'), 'fixed', sum(1 for f in fs if f.get('status') == 'fixed'))
