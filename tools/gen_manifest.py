#!/usr/bin/env python3
"""Writes /verif/MANIFEST.json from the table below (single source of truth for the interface)."""
import json

CHECKS = {
 'C03': dict(cat='exploration', tech='bounded exhaustive enumeration of conversion programs (type pairs x contexts x chains) and source values; IL machine vs C11 reference (gcc/clang-validated)',
             text='All 8x8 source/target pairs plus boolean sources in every conversion context (cast, initialisation, assignment, R/RR/P/alias register write, jump target, store data, argument/return of bundled sub-routines and helpers, loads, register/immediate sources) and conversion chains are compiled from a fresh state and executed on the complete E5 domain of the source (8-bit exhaustively); the converted value observed in a 64-bit local, the pending register bank or memory must equal the C reference.',
             note='Trusted: ILVM CAST/SIGNED/UNSIGNED semantics; vf/ceval.py conversions (cross-validated against gcc and clang in the same run). Generated sub-routine parameter/return conversions are covered by C08.', ref='4 C03'),
 'C04': dict(cat='exploration', tech='exhaustive enumeration of all ordered type pairs through the real c11_cast/promoted_type against an independent C11 table',
             text='Every ordered pair of (signedness, width) over the stated width range is put through the real functions; table, symmetry, determinism, purity and aliasing clauses are checked on each pair. The domain is finite and enumerated completely, so within the width range this is a decision, not a sample.',
             note='Trusted: the 12-line reference table in vf/props/c04.py (C11 6.3.1.8 with rank = width). Widths above 2048 are outside the claim.', ref='4 C04'),
 'C01': dict(cat='exploration', tech='bounded exhaustive enumeration of initial machine states for every accepted corpus part; emitted IL executed on an IL machine model and compared with a C11 reference evaluator of the behaviour text',
             text='All 1583 accepted instructions (1655 parts) are compiled from a fresh forked state and executed by ILVM and by the C reference on the complete cross product of boundary domains of every operand bank, immediate, pc, npc, USR and CS (quick 32, thorough 1024 states per part); the 13 bundled sub-routines are additionally checked as stand-alone callees (8-bit lanes exhaustively). Acceptance is compared with a committed baseline so that a supported behaviour turning into a rejection is reported.',
             note='Trusted: ILVM (model of the Rizin plugin + RzIL VM: register rules W/P/X, lazy ITE, call-by-name callees) and vf/ceval.py (cross-validated against gcc/clang on the sub-routine programs). Float operations are uninterpreted; HVX is not accepted by the compiler at all; 2^32..2^128 states are reduced to boundary domains.', ref='4 C01'),
 'C02': dict(cat='exploration', tech='bounded exhaustive enumeration of operator x type programs and operand values; emitted IL executed on an IL machine model and compared with a C11 reference evaluator (itself checked against gcc and clang)',
             text='Every operator x operand-type combination at depth 1 and the depth-2 compositions of the tier are compiled by the real compiler (each from a fresh forked state) and the emitted effect is executed by ILVM on the complete cross product of the operand domains (8-bit operands exhaustively, wider ones on boundary sets, shift counts 0..65); the observed int64_t result must equal the strict C reference. Disagreements are attributed to a known finding only if the IL equals the reference under exactly that deviation rule on every state.',
             note='Trusted: ILVM semantics of the RzIL core operators (DESIGN.md 3/E2; Rizin itself is not in the sandbox) and the reference evaluator vf/ceval.py, which the same run cross-validates against gcc -O0 -fwrapv and clang on every non-UB state. Wide operands are covered on boundary values only.', ref='4 C02'),
 'C09': dict(cat='exploration', tech='exhaustive enumeration of literal spellings x foldable operators (folded form and typed-variable partner), sizeof and constant-condition programs; IL machine vs C11 reference with 6.4.4.1 literal typing (gcc/clang-validated)',
             text='Every valid literal spelling (decimal/hex x 7 suffixes x 23 boundary values) alone, under + - ~, next to variables, as ?: / if condition; all ordered pairs of a boundary literal set under + - * / and the six comparisons, both folded and as typed-variable (unfolded) partners; sizeof of every type and operand kind; constant ?: with dead arms that mention live operands; programs that must be rejected (literal division by zero, literals above 2^64-1). The observed 64-bit result must equal the C reference; the emitted text of folded programs is also subject to the static checks.',
             note='Trusted: literal typing in vf/cparse.py (C11 6.4.4.1, LP64) cross-validated against gcc/clang in the same run; ILVM.', ref='4 C09'),
 'C10': dict(cat='exploration', tech='exhaustive enumeration of generated programs and the whole corpus; every emitted text sort-checked on all paths by an independent checker mirroring rz_il_validate',
             text='Every text the compiler emits for all accepted corpus parts and the bundled sub-routines in both layouts, and for a generated program space (operator/type space of C02, all assignment operators x type pairs, comparison/logical results mixed with arithmetic, re-use, folding, control flow) in both layouts, is parsed by an independent reader and sort-checked statically on every BRANCH/ITE arm and loop body (not only the path a state would take), including the single-width rule for locals against the widths declared in the C source.',
             note='Trusted: the sort rules in vf/il.py (written from the RzIL core theory; rz_il_validate itself is not in the sandbox) and the independent table of plugin macro signatures.', ref='4 C10'),
 'C11': dict(cat='exploration', tech='exhaustive enumeration of emitted texts checked by an independent C-level reader (declaration grammar, declared-before-use, identifiers), plus companion-record checks over all 2253 corpus part names',
             text='Same text space as C10. Each text must consist of declarations with initialiser plus the final return, every identifier declared exactly once before use (or parameter / plugin constant), balanced parentheses, valid C names; needs_hi/needs_pkt are compared with an independent token scan of the text, getter names/declarations with the naming rule, and getter-name uniqueness is decided over all corpus names.',
             note='Trusted: the small recursive-descent reader in vf/il.py; the assumption that the plugin template provides bundle/hi/pkt to instruction bodies exactly when the flags say so.', ref='4 C11'),
 'C12': dict(cat='exploration', tech='exhaustive enumeration of emitted texts with an independent use-counting linearity checker',
             text='Same text space as C10 with the re-use generator (same operand 1..5 times over 1..3 statements, folded-away operands, conditionally emitted statements). Per declared pure: exactly one raw (consuming) occurrence, all others under DUP; per effect: exactly one occurrence; borrowed parameters at most one raw use; nothing initialised is left unused.',
             note='Trusted: the occurrence counter in vf/il.py; the ownership convention (raw use consumes, DUP copies) as stated in the property.', ref='4 C12'),
 'C05': dict(cat='exploration', tech='exhaustive enumeration of statement skeletons up to a nesting depth x bounded exhaustive initial states; IL machine vs C11 reference (gcc/clang-validated)',
             text='Every statement skeleton of the alphabet (11 assignment operators on local/register/pair targets, declarations, empty statements, blocks, if / if-else / else-if, for loops with constant, zero and data-dependent trip counts, nested and sequential loops, stores, jumps) as single statements, ordered pairs and nests up to depth 3 (thorough 4) runs on the complete E5 domain of its inputs so that every branch and trip count 0..8 is taken; all named variables, registers, memory and the jump must equal the C reference.',
             note='Trusted: ILVM effect semantics (SEQN/BRANCH/REPEAT/SETL) with a 50000-step horizon; vf/ceval.py statement semantics (cross-validated against gcc/clang in the same run).', ref='4 C05'),
 'C06': dict(cat='exploration', tech='exhaustive enumeration of placements of 1..3 value-producing side-effect operations into 26 syntactic positions x bounded exhaustive states; IL machine vs C11 reference',
             text='Each operation of {v++, v--, value-returning call, void call with visible effect, statement-expression} is placed in every position (initialiser, operands, conditions, loop step, arguments, ?: condition/arms, unused statement, branch arms, loop bodies, store/register/jump operands) and all ordered pairs in 10 two-operation shapes, between statements that observe the touched variables; final state must equal the C reference, which counts evaluations exactly; programs with C-level unsequenced modification are detected statically and skipped.',
             note='Trusted: ILVM lazy ITE and call-by-name callee instantiation in the flat local namespace; the static unsequenced-modification detector of the reference is conservative (skips, never alarms).', ref='4 C06'),
 'C13': dict(cat='model_checking', engine='vf/hist.py', tech='explicit-state breadth-first search over histories of real transform_insn calls (forked-child replay, canonical state digest) plus exhaustive pass over the corpus; attribute oracle computed from the part text by an independent AST walk',
             text='Events are transform_insn calls of 16 attribute-relevant behaviours (if, .new via letter/explicit/alias, load, store, jump, predicate writes by letter and by number, a two-part instruction, a failing input, a no-op-listed name) on compiler instance A or B; all histories are explored breadth-first until no new state appears (quick: depth 3), each replayed from the initial process state in a forked child; on every transition the reported attribute list must be exactly the set implied by the last event\'s own text. All accepted corpus parts are checked from a fresh state against the same oracle.',
             note='Trusted: vf/attrs.py (the property\'s definition of each attribute); state digest abstraction (drops result caches and diagnostic counters that no compile path reads).', ref='4 C13'),
 'C14': dict(cat='model_checking', engine='vf/hist.py', tech='explicit-state breadth-first search over histories of real compile calls through all public entry points on two compiler instances (forked-child replay, canonical state digest), differential oracle against the fresh-process result',
             text='Events = (entry point in transform_insn / compile_insn / compile_c_stmt / add_sub_routine+call) x (instance A or B) x 14 behaviours chosen so that every item of persistent state is written by some event (temporaries, predicate writes, calls, unsigned/const declarations, immediates, statement-expressions, a parse error, a late unsupported construct, a type error, an unknown call). All histories are explored until the state space closes (13 states; quick bound depth 4, thorough 8 plus all ordered pairs of a 200-instruction corpus slice); on every transition the last event\'s output (modulo comments and consistent renaming of temporaries) and attributes must equal what the same behaviour gives as the only event of a fresh process.',
             note='Trusted: fork as snapshot/restore; the digest drops compiled_insns/parsed_insns (never read by a compile path), the temporary counter (outputs are compared modulo renaming) and the missing_fcns diagnostic counter.', ref='4 C14'),
 'C18': dict(cat='model_checking', engine='vf/vpool.py', tech='stateless exhaustive exploration of all schedules of a controlled process pool (assignment of tasks to workers x completion order) driving the real Parser.parse, with conformance runs through the real multiprocessing.Pool',
             text='multiprocessing.Pool is replaced from outside by a controlled pool whose every decision (which idle worker takes the next task, which completed result is delivered next) is a choice point; all schedules for task lists of up to 4 behaviours over a 6-letter alphabet (one-part, two-part, slow, syntactically broken, lexically broken, empty) on 1..3 real forked workers are enumerated and the result of the real Parser.parse must equal sequential parse_single under every schedule; every task list is also run through the real pool with sizes 1..16.',
             note='Trusted: vf/vpool.py implements imap/imap_unordered/map/apply_async to stdlib semantics (self-test compares each API with the real pool on every run); symmetry reduction: idle workers with equal task histories are interchangeable.', ref='4 C18'),
 'C19': dict(cat='exploration', tech='exhaustive enumeration of all bracket-balanced token strings up to a length (and malformed variants) through the real split/load functions against an independent scanner',
             text='All 2181 bundled lines and 72 compounds, every bracket-balanced body of up to 6 (thorough 7-8) tokens over a 10-token alphabet x 7 names x 33 line variants (well-formed, blemished, malformed), and every arrangement of up to 3 statements before/inside/after the part markers go through split_resolved_shortcode, split_compounds and load_insn_behavior (on scratch files); well-formed lines must be recovered exactly, malformed ones must raise, compounds must keep every statement in order.',
             note='Trusted: the explicit scanner and reference splitter in vf/c19ref.py.', ref='4 C19'),
}
NA = {}
ALL = ['C%02d' % i for i in range(1, 21)]

def main():
    checks = []
    for pid in ALL:
        if pid not in CHECKS: continue
        c = CHECKS[pid]
        checks.append({
            'property_id': pid,
            'quick_cmd': './check %s --tier quick' % pid,
            'thorough_cmd': './check %s --tier thorough' % pid,
            'evidence_file': '/verif/evidence/%s.json' % pid,
            'replay_cmd_template': './check %s --replay {path}' % pid,
            'engine': c.get('engine', 'vf'),
            'level_claimed': {'category': c['cat'], 'text': c['text'], 'design_ref': 'DESIGN.md section ' + c['ref']},
            'level_note': c['note'],
            'technique': c['tech'],
        })
    na = [{'property_id': p, 'reason': NA.get(p, 'check not built yet in this session (planned, see DESIGN.md section 4); nothing is claimed for it')} for p in ALL if p not in CHECKS]
    m = {
        'version': 1,
        'setup_cmd': './setup.sh',
        'hooks': {'guard': 'RZIL_COMPILER_VERIF', 'enable': 'no source hooks: the harness imports the working tree of /repo (installed editable in /venv) and rebinds module globals from outside; ./check exports RZIL_COMPILER_VERIF=1 for uniformity',
                  'baseline_off_cmd': 'cd /repo && /venv/bin/python -m pytest -ra -q -p no:cacheprovider --timeout=900 --continue-on-collection-errors',
                  'source_commits': [], 'add_only': True},
        'engines': [{'name': 'vf', 'path': '/verif/vf', 'serves_properties': [c['property_id'] for c in checks],
                     'kind_free_text': 'hand-written bounded exhaustive explorer for Python (choice-point enumeration, forked-state history search, controlled pool scheduler) driving the real rzilcompiler objects; IL machine model + independent C reference as oracles'}],
        'checks': checks,
        'not_applicable': na,
        'notes': 'All checks are bounded exhaustive explorations of the real implementation (model-checking family). VERIF_SEED permutes traversal order only. Exit 2 = harness error.',
    }
    json.dump(m, open('/verif/MANIFEST.json', 'w'), indent=1)
    print('wrote MANIFEST.json with %d checks' % len(checks))

if __name__ == '__main__':
    main()
