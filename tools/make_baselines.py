"""Regenerates the committed baselines from the tree at $VERIF_REPO (run deliberately, never by a check)."""
import json, sys
sys.path.insert(0, '/verif')
from vf import corpus
from vf.props import c01
res = corpus.compile_corpus('stmt')
json.dump(c01.acceptance(res), open('/verif/baselines/corpus_accept.json', 'w'), indent=0, sort_keys=True)
print('accepted', sum(1 for v in res.values() if v[0] == 'ok'), 'of', len(res))
