#!/usr/bin/env python3
"""Evaluate a seeded property-breaking change kept in a scratch worktree:
  tools/seed_eval.py <seed id> <worktree> <property id> [check ids to run ...]
Confirms: the repository's tests still pass with the change, the demonstration fails with it and
passes without it; then runs the named checks (default: the property's own check) against the
worktree (VERIF_REPO) and stores everything under /verif/seeded/<seed id>/."""
import json, os, re, subprocess, sys, time, shutil

sid, wt, pid = sys.argv[1], sys.argv[2], sys.argv[3]
checks = [pid] + [c for c in sys.argv[4:] if c != pid]
out = '/verif/seeded/%s' % sid
os.makedirs(out, exist_ok=True)
env = dict(os.environ, PYTHONPATH=wt, PYTHONDONTWRITEBYTECODE='1')

def sh(cmd, cwd=wt, timeout=1800, extra_env=None):
    e = dict(env); e.update(extra_env or {})
    p = subprocess.run(cmd, shell=True, cwd=cwd, env=e, capture_output=True, text=True, timeout=timeout)
    return p.returncode, (p.stdout + p.stderr)

meta = {'seed': sid, 'property': pid, 'worktree_base': sh('git rev-parse --short HEAD')[1].strip()}
rc, diff = sh('git diff')
open(os.path.join(out, 'patch.diff'), 'w').write(diff)
meta['files_changed'] = re.findall(r'^diff --git a/(\S+)', diff, flags=re.M)
for f in ('demo.py', 'MUTATION.md'):
    if os.path.exists(os.path.join(wt, f)):
        shutil.copy(os.path.join(wt, f), os.path.join(out, f))
# tests with the change
rc, o = sh('/venv/bin/python -m pytest -q -p no:cacheprovider 2>&1 | tail -3')
meta['tests_with_change'] = o.strip().split('\n')[-1]
# demo with / without
rc1, o1 = sh('/venv/bin/python demo.py 2>&1 | tail -5')
meta['demo_with_change'] = {'exit': rc1, 'tail': o1.strip()[-300:]}
# (git stash is shared by all worktrees of a repository: revert/re-apply the patch file instead)
pf = os.path.join(out, 'patch.diff')
assert sh('git apply -R %s' % pf)[0] == 0, 'cannot revert the patch'
try:
    rc0, o0 = sh('/venv/bin/python demo.py 2>&1 | tail -5')
finally:
    assert sh('git apply %s' % pf)[0] == 0, 'cannot re-apply the patch' 
meta['demo_without_change'] = {'exit': rc0, 'tail': o0.strip()[-300:]}
# demo exit codes come through a pipe (tail): re-run for the real status
meta['demo_with_change']['exit'] = subprocess.run('/venv/bin/python demo.py >/dev/null 2>&1', shell=True, cwd=wt, env=env).returncode
assert sh('git apply -R %s' % pf)[0] == 0
try:
    meta['demo_without_change']['exit'] = subprocess.run('/venv/bin/python demo.py >/dev/null 2>&1', shell=True, cwd=wt, env=env).returncode
finally:
    assert sh('git apply %s' % pf)[0] == 0
meta['checks'] = {}
for c in checks:
    t = time.time()
    p = subprocess.run('./check %s --tier quick' % c, shell=True, cwd='/verif', env=dict(os.environ, VERIF_REPO=wt, VERIF_MAX_VIOLATIONS='5'), capture_output=True, text=True, timeout=3600)
    lines = [l for l in (p.stdout + p.stderr).split('\n') if 'conda' not in l]
    viol = [l for l in lines if l.startswith('VIOLATION')]
    first = ''
    for i, l in enumerate(lines):
        if l.startswith('VIOLATION') and i + 1 < len(lines):
            first = lines[i + 1].strip()[:300]; break
    meta['checks'][c] = {'exit': p.returncode, 'violation_lines': len(viol), 'first': first, 'wall_s': round(time.time() - t, 1), 'tail': lines[-2][:200] if len(lines) > 1 else ''}
    print(c, 'exit', p.returncode, len(viol), 'violations;', first[:160])
meta['detected_by'] = [c for c, r in meta['checks'].items() if r['exit'] == 1]
json.dump(meta, open(os.path.join(out, 'meta.json'), 'w'), indent=1)
print(json.dumps({k: meta[k] for k in ('tests_with_change', 'demo_with_change', 'demo_without_change', 'detected_by')}, indent=1)[:1200])
