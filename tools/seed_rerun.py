#!/usr/bin/env python3
"""Re-run checks against a stored seeded change: tools/seed_rerun.py <seed id> [check ids ...]
Creates a scratch worktree of /repo HEAD, applies seeded/<id>/patch.diff, runs the checks with
VERIF_REPO pointing at it, updates meta.json, removes the worktree."""
import json, os, subprocess, sys, time
sid = sys.argv[1]
d = '/verif/seeded/%s' % sid
meta = json.load(open(d + '/meta.json'))
checks = sys.argv[2:] or [meta['property']]
wt = '/tmp/reseed_%s' % sid
subprocess.run('git -C /repo worktree remove --force %s 2>/dev/null; git -C /repo worktree add -q %s HEAD' % (wt, wt), shell=True)
try:
    # patch_head.diff: the same change re-based by hand where a later fix: commit touched the same lines
    pf = d + '/patch_head.diff' if os.path.exists(d + '/patch_head.diff') else d + '/patch.diff'
    p = subprocess.run('git apply %s' % pf, shell=True, cwd=wt, capture_output=True, text=True)
    if p.returncode:
        print('patch does not apply to HEAD:', p.stderr[:300]); sys.exit(2)
    for c in checks:
        t = time.time()
        p = subprocess.run('./check %s --tier quick' % c, shell=True, cwd='/verif', env=dict(os.environ, VERIF_REPO=wt, VERIF_MAX_VIOLATIONS='5'), capture_output=True, text=True, timeout=3600)
        lines = [l for l in (p.stdout + p.stderr).split('\n') if 'conda' not in l]
        viol = [l for l in lines if l.startswith('VIOLATION')]
        first = ''
        for i, l in enumerate(lines):
            if l.startswith('VIOLATION') and i + 1 < len(lines):
                first = lines[i + 1].strip()[:300]; break
        meta['checks'][c] = {'exit': p.returncode, 'violation_lines': len(viol), 'first': first, 'wall_s': round(time.time() - t, 1), 'tail': lines[-2][:200] if len(lines) > 1 else '', 'rerun_on': subprocess.run('git -C /repo rev-parse --short HEAD', shell=True, capture_output=True, text=True).stdout.strip()}
        print(c, 'exit', p.returncode, len(viol), 'violations;', first[:160])
    meta['detected_by'] = [c for c, r in meta['checks'].items() if r['exit'] == 1]
    json.dump(meta, open(d + '/meta.json', 'w'), indent=1)
finally:
    subprocess.run('git -C /repo worktree remove --force %s' % wt, shell=True)
