#!/usr/bin/env python3
"""Prints the markdown table of seeded changes (DESIGN.md 10.5) from seeded/*/meta.json."""
import glob, json, os, re
print('| seed | property | change (file) | detected by (quick tier) | first report | history |')
print('|---|---|---|---|---|---|')
n = miss = first_miss = 0
for f in sorted(glob.glob('/verif/seeded/*/meta.json')):
    m = json.load(open(f))
    n += 1
    det = ', '.join(m.get('detected_by') or []) or '**missed**'
    if not m.get('detected_by'):
        miss += 1
    first = ''
    for c in m.get('detected_by') or []:
        first = m['checks'][c]['first'][:100].replace('|', '\\|'); break
    hist = (m.get('history') or '').replace('|', '\\|')
    if m['first_run_missed'] if 'first_run_missed' in m else re.search(r'First run[^.]*?(missed|did not detect)|^Evaluated after strengthening|it was missed|first pass: missed', hist):
        first_miss += 1
    assert m['tests_with_change'].startswith('131 passed'), f
    assert m['demo_with_change']['exit'] == 1 and m['demo_without_change']['exit'] == 0, f
    print('| %s | %s | %s | %s | %s | %s |' % (m['seed'], m['property'], ', '.join(os.path.basename(x) for x in m['files_changed']), det, first, hist))
print()
print('%d seeded changes (each: repository tests 131 passed with the change, demonstration exit 1 with / exit 0 without it); %d not detected by any quick check now; %d were missed by the first evaluation and led to a strengthened check.' % (n, miss, first_miss))
