#!/usr/bin/env python3
"""Prints the markdown table of seeded changes (DESIGN.md 10.5) from seeded/*/meta.json."""
import glob, json, os
print('| seed | property | files changed | repo tests with the change | demonstration (with / without) | detected by (quick tier) | first report |')
print('|---|---|---|---|---|---|---|')
for f in sorted(glob.glob('/verif/seeded/*/meta.json')):
    m = json.load(open(f))
    det = ', '.join(m.get('detected_by') or []) or '**missed**'
    first = ''
    for c in m.get('detected_by') or []:
        first = m['checks'][c]['first'][:110].replace('|', '\\|'); break
    print('| %s | %s | %s | %s | exit %s / exit %s | %s | %s |' % (m['seed'], m['property'], ', '.join(os.path.basename(x) for x in m['files_changed']), m['tests_with_change'].split(',')[0], m['demo_with_change']['exit'], m['demo_without_change']['exit'], det, first))
