#!/bin/bash
cd /repo || exit 1
PYTHONPATH=/repo:/verif PYTHONDONTWRITEBYTECODE=1 /venv/bin/python -m vf.selftest 2>&1 | grep -v -i conda
exit ${PIPESTATUS[0]}
