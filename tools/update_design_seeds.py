#!/usr/bin/env python3
"""Rewrites the seeded-changes table of DESIGN.md (between the SEEDS markers) from seeded/*/meta.json."""
import re, subprocess
t = subprocess.run(['python3', '/verif/tools/seed_table.py'], capture_output=True, text=True, check=True).stdout
s = open('/verif/DESIGN.md').read()
s2 = re.sub(r'<!-- SEEDS-BEGIN -->.*?<!-- SEEDS-END -->', lambda m: '<!-- SEEDS-BEGIN -->\n' + t + '<!-- SEEDS-END -->', s, flags=re.S)
open('/verif/DESIGN.md', 'w').write(s2)
print('table rows:', t.count('| seed-'))
