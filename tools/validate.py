#!/usr/bin/env python3
"""Validate MANIFEST.json and every evidence/*.json against the task's schemas (run with python3-vt)."""
import glob, json, sys
import jsonschema
ok = True
m = json.load(open('/verif/MANIFEST.json'))
try:
    jsonschema.validate(m, json.load(open('/root/.vp/MANIFEST.schema.json')))
    print('MANIFEST ok: %d checks, %d not_applicable' % (len(m['checks']), len(m.get('not_applicable', []))))
except jsonschema.ValidationError as e:
    ok = False; print('MANIFEST INVALID:', e.message)
ids = [json.loads(l)['id'] for l in open('/verif/properties.jsonl')]
claimed = [c['property_id'] for c in m['checks']]; na = [c['property_id'] for c in m.get('not_applicable', [])]
for i in ids:
    if (i in claimed) == (i in na):
        ok = False; print('property %s must be either claimed or not_applicable' % i)
es = json.load(open('/root/.vp/EVIDENCE.schema.json'))
for f in sorted(glob.glob('/verif/evidence/*.json')):
    try:
        jsonschema.validate(json.load(open(f)), es); print('evidence ok:', f)
    except jsonschema.ValidationError as e:
        ok = False; print('EVIDENCE INVALID:', f, e.message)
sys.exit(0 if ok else 1)
