"""setup helper: builds the grammar-keyed parse caches (corpus + the quick program spaces) so that
the first run of each check does not pay the Earley parsing cost.  Caches are only an optimisation:
every check re-parses whatever is missing, and the cache key contains a hash of grammar.lark and
of the parser construction code, so a changed grammar is never answered from the cache."""
import sys, time
sys.path.insert(0, '/verif')
from vf import core, corpus, drive
t = time.time()
corpus.parsed_corpus()
print('corpus parse cache ready (%.0f s)' % (time.time() - t), flush=True)
def warm(bucket, specs):
    t = time.time()
    pc = drive.ParseCache(bucket)
    pc.ensure([s.text for s in specs]); pc.save()
    print('%s: %d programs (%d parsed now, %.0f s)' % (bucket, len(specs), pc.n_parsed_now, time.time() - t), flush=True)
from vf.props import c02, c03, c05, c06, c01
from vf import staticprops
warm('c02-quick', c02.space('quick'))
warm('c03-quick', c03.space('quick'))
warm('c05-quick', c05.space('quick'))
warm('c06-quick', c06.space('quick'))
warm('c01-subs', c01.sub_routine_specs('quick'))
warm('static-quick', staticprops.static_space('quick'))
class _T:
    def __init__(self, t):
        self.text = t
from vf.props import c13, c14, c15
warm('c13-parts', [_T(t) for _g, t in c13.part_space('quick')])
warm('c13', [_T(t) for ev in c13.alphabet() for t in ev.texts])
warm('c14', [_T(t) for ev in c14.alphabet('quick') for t in ev.texts] + [_T(c14.SUB[3]), _T(c14.PUMP)])
warm('c15', [_T(t) for _g, t in c15.space()] + [_T(t) for t in c15.SEQUENCED])
warm('c11-meta', [_T(t) for t in staticprops.meta_parts()])
for name in ('c09', 'c08', 'c07', 'c16'):
    try:
        m = __import__('vf.props.' + name, fromlist=['x'])
        if hasattr(m, 'warm_specs'):
            for bucket, specs in m.warm_specs('quick'):
                warm(bucket, specs)
    except ImportError:
        pass
