"""Independent computation of the instruction attributes of one behaviour part from its own
text (C13 oracle): reads the reference AST, never the compiler's callbacks."""
import re

from vf import cparse, drive
from vf.deviations import walk

PRED_LHS = re.compile(r"^P(?:[a-z]{1,2}V|[0-3](?::[0-3])?)$")
EXPLICIT_PRED = re.compile(r"^P([0-3])$")


def attributes(text):
    ast = cparse.parse_behaviour(text)
    a = set()
    ops = drive.scan_operands(text)
    if any(o.new for o in ops.values()):
        a.add("HEX_IL_INSN_ATTR_NEW")
    for n in walk(ast):
        if not (isinstance(n, tuple) and n and isinstance(n[0], str)):
            continue
        k = n[0]
        if k == "if":
            a.add("HEX_IL_INSN_ATTR_COND")
        elif k == "call":
            f = cparse.strip_paren(n[1])
            if f[0] == "id":
                if re.match(r"^mem_load_[su]\d+$", f[1]):
                    a.add("HEX_IL_INSN_ATTR_MEM_READ")
                elif re.match(r"^mem_store_[su]\d+$", f[1]):
                    a.add("HEX_IL_INSN_ATTR_MEM_WRITE")
                elif f[1] == "JUMP":
                    a.add("HEX_IL_INSN_ATTR_BRANCH")
        elif k == "assign":
            lhs = cparse.strip_paren(n[2])
            if lhs[0] == "id" and PRED_LHS.match(lhs[1]):
                a.add("HEX_IL_INSN_ATTR_WPRED")
                m = EXPLICIT_PRED.match(lhs[1])
                if m:
                    a.add("HEX_IL_INSN_ATTR_WRITE_P" + m.group(1))
    if not a:
        a.add("HEX_IL_INSN_ATTR_NONE")
    return a
