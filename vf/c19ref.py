"""Reference side of C19: explicit scanners for the resolved-shortcode line format and the
two-part (compound) body format, and the finite enumerators of the generated spaces.

Nothing in this file uses a regular expression or imports the code under test.

LINE FORMAT (what pcpp writes and the bundled file contains)

    strict      insn( NAME ", " BODY ")" EOL       from column 0
                NAME  one or more of [A-Za-z0-9_]
                BODY  one or more characters, none of them a newline; BODY is everything between
                      the ", " and the LAST ")" of the line (it may itself contain or end in ")")
                EOL   "\n" or end of text

    tolerant    the same after removing blanks (space, tab, CR) between the last ")" and EOL,
                with "," or ", " as separator, NAME over str.isalnum() or "_", BODY possibly empty.

    A strict line must be recovered exactly.  A line that is only tolerant (trailing blanks after
    the final ")", CR LF, no blank after the comma, non-ASCII letter in the name, empty body) may
    either be rejected or be recovered as the tolerant reading says - nothing else.  A line that
    is not even tolerant must be rejected (an exception), at the function level always, at the
    file level unless its first character is "#" (preprocessor line marker, skipped by design)
    or it is blank (nothing to recover; reject or skip).

COMPOUND FORMAT (72 bundled bodies, all `{__COMPOUND_PART1__{ ... }__COMPOUND_PART1__ ... }`)

    BODY = "{" PRE M BLK M POST "}"      M = __COMPOUND_PART1__, exactly two occurrences
    strict    PRE, POST bracket-balanced; BLK a single bracket-balanced block "{...}" with a
              non-empty inside, directly between the two markers
    tolerant  as strict but blanks around BLK between the markers, or BLK == "{}"
    other     anything else with two markers (nothing is demanded of the split)

    Statement sequence flat(T): T cut at every top-level ";" and after every top-level closing
    "}", pieces stripped of surrounding blanks, a piece that is itself one plain block replaced
    (recursively) by the sequence of its inside.  The property for a strict compound:
      both parts are single bracket-balanced blocks without marker text,
      flat(inside part1) ++ flat(inside part2) == flat(PRE) ++ flat(inside BLK) ++ flat(POST),
      flat(inside part2) == flat(POST)        (the cut is where the second marker was).
"""

import re
import functools

MARK = "__COMPOUND_PART1__"
ASCII_WORD = frozenset("abcdefghijklmnopqrstuvwxyzABCDEFGHIJKLMNOPQRSTUVWXYZ0123456789_")
BLANKS = " \t\r"

OPENERS = {"(": ")", "{": "}", "[": "]"}
CLOSERS = frozenset(")}]")

# deviation rules (known-finding ids)
KF_LEAD = "KF-C19-leading-text-accepted"
KF_PRE = "KF-C19-pre-marker-statements-dropped"


# --------------------------------------------------------------------------------------
# line scanners


def scan_strict(line):
    """(name, body) or None."""
    if line.endswith("\n"):
        line = line[:-1]
    if "\n" in line or not line.startswith("insn("):
        return None
    n = len(line)
    j = 5
    while j < n and line[j] in ASCII_WORD:
        j += 1
    if j == 5 or line[j : j + 2] != ", ":
        return None
    if n - 1 < j + 3 or line[n - 1] != ")":  # at least one body character before the final ")"
        return None
    return line[5:j], line[j + 2 : n - 1]


def scan_tolerant(line):
    if line.endswith("\n"):
        line = line[:-1]
    if "\n" in line:
        return None
    line = line.rstrip(BLANKS)
    if not line.startswith("insn("):
        return None
    n = len(line)
    j = 5
    while j < n and (line[j] == "_" or line[j].isalnum()):
        j += 1
    if j == 5 or line[j : j + 1] != ",":
        return None
    k = j + 1
    if line[k : k + 1] == " ":
        k += 1
    if n - 1 < k or line[n - 1] != ")":
        return None
    return line[5:j], line[k : n - 1]


def first_suffix(line):
    """Smallest k > 0 such that line[k:] is a strict line -> (k, (name, body)); else None.
    This is the outcome of the deviation 'the pattern may start anywhere in the line'."""
    k = line.find("insn(", 1)
    while k != -1:
        r = scan_strict(line[k:])
        if r is not None:
            return k, r
        k = line.find("insn(", k + 1)
    return None


def is_blank(line):
    return line.strip(BLANKS + "\n") == ""


# --------------------------------------------------------------------------------------
# brackets, blocks, statements


_LIT = re.compile(r'"(?:[^"\\\n]|\\.)*"|\'(?:[^\'\\\n]|\\.)*\'')


@functools.lru_cache(maxsize=65536)
def mask_literals(text):
    """String and character literals are single tokens of the dialect: brackets and semicolons inside them are not
    structure.  Their contents are replaced by filler of the same length (positions stay valid)."""
    if '"' not in text and "'" not in text:
        return text
    return _LIT.sub(lambda m: m.group(0)[0] + "_" * (len(m.group(0)) - 2) + m.group(0)[-1], text)


def balanced(text):
    text = mask_literals(text)
    st = []
    for c in text:
        if c in OPENERS:
            st.append(OPENERS[c])
        elif c in CLOSERS:
            if not st or st.pop() != c:
                return False
    return not st


def is_block(text):
    """text is exactly one bracket-balanced block: '{' ... matching '}' at the very end."""
    if len(text) < 2 or text[0] != "{" or text[-1] != "}":
        return False
    text = mask_literals(text)
    st = []
    last = len(text) - 1
    for i, c in enumerate(text):
        if c in OPENERS:
            st.append(OPENERS[c])
        elif c in CLOSERS:
            if not st or st.pop() != c:
                return False
            if not st and i != last:
                return False
    return not st


def top_statements(text):
    """Cut at top-level ';' and after top-level closing '}' (text must be balanced)."""
    out = []
    depth = 0
    start = 0
    for i, c in enumerate(mask_literals(text)):
        if c in OPENERS:
            depth += 1
        elif c in CLOSERS:
            depth -= 1
            if depth == 0 and c == "}":
                out.append(text[start : i + 1])
                start = i + 1
        elif c == ";" and depth == 0:
            out.append(text[start : i + 1])
            start = i + 1
    out.append(text[start:])
    return [s.strip(BLANKS) for s in out if s.strip(BLANKS)]


@functools.lru_cache(maxsize=8192)
def _flat(text):
    res = []
    for s in top_statements(text):
        if is_block(s):
            res.extend(_flat(s[1:-1]))
        else:
            res.append(s)
    return tuple(res)


def flat(text):
    return list(_flat(text))


# --------------------------------------------------------------------------------------
# compounds


@functools.lru_cache(maxsize=256)
def classify_compound(body):
    """-> (cls, pre, blk, post); cls in 'strict', 'tolerant', 'other'.  body has two markers."""
    i = body.find(MARK)
    j = body.find(MARK, i + len(MARK))
    if i < 0 or j < 0 or body.find(MARK, j + len(MARK)) >= 0:
        return "other", None, None, None
    if len(body) < 2 or body[0] != "{" or body[-1] != "}" or i < 1 or j + len(MARK) > len(body) - 1:
        return "other", None, None, None
    pre = body[1:i]
    mid = body[i + len(MARK) : j]
    post = body[j + len(MARK) : -1]
    if not (balanced(pre) and balanced(post)):
        return "other", None, None, None
    blk = mid.strip(BLANKS)
    if not is_block(blk):
        return "other", None, None, None
    if blk != mid or blk == "{}":
        return "tolerant", pre, blk, post
    return "strict", pre, blk, post


def ref_split(body):
    """A split that satisfies the property (part 1 carries the statements before the marker)."""
    cls, pre, blk, post = classify_compound(body)
    if cls == "other":
        return None
    return "{" + pre + blk[1:], "{" + post + "}"


def parts_conform(body, parts, dev):
    """None if `parts` satisfy the property for this strict/tolerant compound body, else text.
    dev: set of enabled deviation rules.  Under KF_PRE ('the statements before the first marker
    are discarded') the same clauses are evaluated with flat(PRE) left out of the expected
    sequence; the rule applies only when flat(PRE) is not empty."""
    cls, pre, blk, post = classify_compound(body)
    if cls == "other":
        raise ValueError("parts_conform on a non-compound")
    if not isinstance(parts, (tuple, list)) or len(parts) != 2 or not all(isinstance(p, str) for p in parts):
        return "result is not a pair of strings: %r" % (parts,)
    p1, p2 = parts
    if KF_PRE in dev and not flat(pre):
        return "rule does not apply (nothing before the first marker)"
    for k, p in ((1, p1), (2, p2)):
        if MARK in p:
            return "part %d still contains a marker: %r" % (k, p)
        if not is_block(p):
            return "part %d is not one brace-balanced block: %r" % (k, p)
    exp = ([] if KF_PRE in dev else flat(pre)) + flat(blk[1:-1]) + flat(post)
    g1 = flat(p1[1:-1])
    g2 = flat(p2[1:-1])
    if g1 + g2 != exp:
        return "statements not preserved: expected %r, parts give %r + %r" % (exp, g1, g2)
    if g2 != flat(post):
        return "cut is not at the second marker: part 2 holds %r, after the marker stand %r" % (g2, flat(post))
    return None


# --------------------------------------------------------------------------------------
# verdicts.  outcome = ("raise", class name) | ("ok", value).
# Every *_conforms(input, outcome, dev) returns None iff the outcome is admissible when exactly
# the deviation rules in `dev` are in force AND each of them was needed; otherwise a text.


def _pair(v):
    if isinstance(v, (tuple, list)) and len(v) == 2 and all(isinstance(x, str) for x in v):
        return tuple(v)
    return None


def line_conforms(line, outcome, dev=frozenset()):
    """Function level: split_resolved_shortcode(line)."""
    s = scan_strict(line)
    if dev:
        if dev != {KF_LEAD} or s is not None:
            return "rule does not apply"
        fs = first_suffix(line)
        if fs is not None and outcome[0] == "ok" and _pair(outcome[1]) == fs[1]:
            return None
        return "differs from the leading-text-accepted outcome"
    if s is not None:
        if outcome[0] != "ok":
            return "well-formed line rejected (%s); expected %r" % (outcome[1], s)
        if _pair(outcome[1]) != s:
            return "expected %r got %r" % (s, outcome[1])
        return None
    if outcome[0] == "raise":
        return None
    t = scan_tolerant(line)
    if t is not None and _pair(outcome[1]) == t:
        return None
    if t is not None:
        return "blemished line: must be rejected or read as %r, got %r" % (t, outcome[1])
    return "malformed line accepted as %r" % (outcome[1],)


def compound_conforms(body, outcome, dev=frozenset()):
    """Function level: split_compounds(body) for a strict or tolerant compound body."""
    cls = classify_compound(body)[0]
    if dev and dev != {KF_PRE}:
        return "rule does not apply"
    if outcome[0] == "raise":
        if dev:
            return "rule does not apply (rejected)"
        if cls == "strict":
            return "well-formed compound rejected (%s)" % outcome[1]
        return None
    return parts_conform(body, outcome[1], dev)


def entry_conforms(body, present, entry, dev=frozenset()):
    """File level: the entry of one line (strict or tolerant reading `body`) after a load that
    did not raise.  dev is empty or {KF_PRE}."""
    n = body.count(MARK)
    cls = classify_compound(body)[0] if n == 2 else None
    if dev:
        if n != 2 or cls == "other" or not present:
            return "rule does not apply"
        return parts_conform(body, entry, dev)
    if not present:
        return "line skipped: no entry"
    if n == 0:
        return None if entry == [body] else "expected [body], got %r" % (entry,)
    if n == 1:
        return None if entry == [body] else "one marker: reject or keep the body whole; got %r" % (entry,)
    if n > 2 or cls == "other":
        return None  # outside the two-part format: only 'not skipped' is demanded
    return parts_conform(body, entry, dev)


def may_reject(body):
    """A strict line whose loading may legitimately raise (its body carries marker text but is
    not a strict compound)."""
    n = body.count(MARK)
    if n == 0:
        return False
    if n != 2:
        return True
    return classify_compound(body)[0] != "strict"


def split_lines(text):
    lines = text.split("\n")
    out = [l + "\n" for l in lines[:-1]]
    if lines[-1] != "":
        out.append(lines[-1])
    return out


def load_conforms(text, outcome, dev=frozenset()):
    """File level: load_insn_behavior on a file with this text; outcome ('ok', dict) | ('raise', cls).
    Names on the lines of the file must be pairwise different (ValueError otherwise)."""
    must_raise = False
    can_raise = False
    expect = []  # (name, body)
    used = set()
    for l in split_lines(text):
        if l[0] == "#":
            continue
        s = scan_strict(l)
        if s is None and KF_LEAD in dev:
            fs = first_suffix(l)
            if fs is not None:
                s = fs[1]
                used.add(KF_LEAD)
        if s is not None:
            expect.append(s)
            can_raise = can_raise or may_reject(s[1])
            continue
        t = scan_tolerant(l)
        if t is not None:
            can_raise = True
            expect.append(t)  # not rejected -> must have been read as the tolerant scanner reads it
        elif is_blank(l):
            can_raise = True
        else:
            must_raise = True
    names = [e[0] for e in expect]
    if len(set(names)) != len(names):
        raise ValueError("duplicate names in a generated file: %r" % (names,))
    if outcome[0] == "raise":
        if dev:
            return "rule does not apply (rejected)"
        if must_raise or can_raise:
            return None
        return "file of well-formed lines rejected (%s)" % outcome[1]
    if must_raise:
        return "malformed line not rejected (file loaded, entries %r)" % (sorted(outcome[1])[:6],)
    got = outcome[1]
    if not isinstance(got, dict):
        return "behaviors is not a dict"
    extra = sorted(set(got) - set(names))
    if extra:
        return "entries for names that are on no line: %r" % (extra[:6],)
    for name, body in expect:
        why = entry_conforms(body, name in got, got.get(name))
        if why is not None and KF_PRE in dev and entry_conforms(body, name in got, got.get(name), frozenset((KF_PRE,))) is None:
            used.add(KF_PRE)
            why = None
        if why is not None:
            return "%s: %s" % (name, why)
    if used != set(dev):
        return "rule does not apply"
    return None


def triage(conforms, *args):
    """-> None (property holds) | (why, finding_ids or None)."""
    why = conforms(*args)
    if why is None:
        return None
    for dev in ((KF_LEAD,), (KF_PRE,), (KF_LEAD, KF_PRE)):
        if conforms(*args, frozenset(dev)) is None:
            return why, list(dev)
    return why, None


# --------------------------------------------------------------------------------------
# enumerators

TOK_OPEN = {"{": "}", "(": ")", "f(": ")", "insn(b, ": ")"}
TOK_CLOSE = ("}", ")")
TOK_NEUTRAL = (",", ";", "x", " ", MARK)
TOKENS = tuple(TOK_OPEN) + TOK_CLOSE + TOK_NEUTRAL


def valid_prefixes(length, maxlen):
    """All token sequences of exactly `length` tokens that can be completed to a balanced
    sequence of at most maxlen tokens, with their closer stacks."""
    out = []

    def rec(pref, stack):
        if len(pref) == length:
            out.append((tuple(pref), tuple(stack)))
            return
        left = maxlen - len(pref)
        for t in TOKENS:
            if t in TOK_OPEN:
                if len(stack) + 1 > left - 1:
                    continue
                rec(pref + [t], stack + [TOK_OPEN[t]])
            elif t in TOK_CLOSE:
                if stack and stack[-1] == t:
                    rec(pref + [t], stack[:-1])
            else:
                if len(stack) > left - 1:
                    continue
                rec(pref + [t], stack)

    rec([], [])
    return out


def bodies_from(prefix, stack, maxlen):
    """Every balanced token sequence of at most maxlen tokens that extends prefix (prefix itself
    included when balanced), as strings, each exactly once."""
    pref = list(prefix)
    st = list(stack)

    def rec():
        if pref and not st:
            yield "".join(pref)
        left = maxlen - len(pref)
        if left == 0:
            return
        for t in TOKENS:
            if t in TOK_OPEN:
                if len(st) + 1 > left - 1:
                    continue
                st.append(TOK_OPEN[t])
                pref.append(t)
                yield from rec()
                pref.pop()
                st.pop()
            elif t in TOK_CLOSE:
                if st and st[-1] == t:
                    st.pop()
                    pref.append(t)
                    yield from rec()
                    pref.pop()
                    st.append(t)
            else:
                if len(st) > left - 1:
                    continue
                pref.append(t)
                yield from rec()
                pref.pop()

    return rec()


def short_bodies(maxlen):
    """Balanced sequences shorter than the prefix length used for partitioning."""
    return list(bodies_from((), (), maxlen))


# the quick tier uses the first four, the thorough tier the first five
STATEMENTS = ("a;", "if (c) {b;}", 'w("{%d");', "{d;}", "f(x, y);", ";")


def zone_sequences(k, maxn):
    seqs = [()]
    level = [()]
    for _ in range(maxn):
        level = [s + (i,) for s in level for i in range(k)]
        seqs.extend(level)
    return seqs


LAYOUTS = ("data", "tight", "blank-before-block")


def compound_body(pre, inside, post, layout, stmts=STATEMENTS):
    """layout 'data' is the spacing of the bundled file: {M{ S S }M S S}"""
    if layout == "data":
        p = "".join(stmts[i] + " " for i in pre)
        i_ = "{ " + "".join(stmts[i] + " " for i in inside) + "}"
        q = "".join(" " + stmts[i] for i in post)
        return "{" + p + MARK + i_ + MARK + q + "}"
    if layout == "tight":
        return "{" + "".join(stmts[i] for i in pre) + MARK + "{" + "".join(stmts[i] for i in inside) + "}" + MARK + "".join(stmts[i] for i in post) + "}"
    if layout == "blank-before-block":
        return "{ " + " ".join(stmts[i] for i in pre) + " " + MARK + " {" + " ".join(stmts[i] for i in inside) + "} " + MARK + " " + " ".join(stmts[i] for i in post) + " }"
    raise ValueError(layout)


NAMES = ("a", "A1", "_", "x_9z", "9", "J2_jump_t", "ét")  # the last one is only tolerant


def line_variants(name):
    """(variant id, text before BODY, text after BODY).  What a variant *is* (well-formed,
    blemished, malformed) is decided by the scanners on the finished line, not by this table."""
    h = "insn(%s, " % name
    return [
        ("wf-nl", h, ")\n"),
        ("wf-eof", h, ")"),
        ("blank-sp", h, ") \n"),
        ("blank-tab", h, ")\t\n"),
        ("blank-cr", h, ")\r\n"),
        ("blank-sp2", h, ")  \n"),
        ("blank-sp-eof", h, ") "),
        ("nosp-after-comma", "insn(%s," % name, ")\n"),
        ("no-close", h, "\n"),
        ("no-close-eof", h, ""),
        ("trail-x", h, ")x\n"),
        ("trail-semi", h, ");\n"),
        ("trail-sp-x", h, ") x\n"),
        ("trail-brace", h, ")}\n"),
        ("trail-comment", h, ") //c\n"),
        ("lead-sp", " " + h, ")\n"),
        ("lead-tab", "\t" + h, ")\n"),
        ("lead-x", "x" + h, ")\n"),
        ("lead-x-sp", "x " + h, ")\n"),
        ("lead-hash", "#" + h, ")\n"),
        ("lead-insn", "insn(" + h, ")\n"),
        ("lead-brace", "{" + h, ")\n"),
        ("no-name", "insn(, ", ")\n"),
        ("no-comma", "insn(%s " % name, ")\n"),
        ("semicolon-sep", "insn(%s; " % name, ")\n"),
        ("pfx-ins", "ins(%s, " % name, ")\n"),
        ("pfx-space", "insn (%s, " % name, ")\n"),
        ("pfx-case", "Insn(%s, " % name, ")\n"),
        ("pfx-bracket", "insn[%s, " % name, ")\n"),
        ("pfx-none", "(%s, " % name, ")\n"),
        ("name-dash", "insn(%s-%s, " % (name, name), ")\n"),
        ("name-sp", "insn(%s %s, " % (name, name), ")\n"),
        ("name-dot", "insn(%s.x, " % name, ")\n"),
    ]


def bodyless_lines(name):
    return ["insn(%s, )\n" % name, "insn(%s,)\n" % name, "insn(%s)\n" % name, "insn(%s, \n" % name, "insn(%s\n" % name, "insn(\n", "insn\n", "\n", " \n", "", " ", ")\n", "%s, x)\n" % name]


def nontrivial_body(body):
    """A body whose recovery depends on more than copying a word: it contains a bracket, a comma,
    a marker or a blank."""
    return any(c in body for c in "(){},; ") or MARK in body
