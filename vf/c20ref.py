"""Independent reference pieces for C20 (nothing here is derived from PreprocessorHexagon.py).

* ctokens: C preprocessing-token scanner (maximal munch), used to compare texts token-wise.
* strip_wrappers: token-level, brace-matching `do { X } while (0)` -> X.
* ref_macro_text: which lines of a QEMU macro header are active (conditional stack), includes dropped;
  comments, continuation lines and #define parsing are left to the C preprocessor.
  (The reference input of the C preprocessor = active original lines + patch file + shortcode is
  assembled in vf.props.c20.ref_input: a later #define replaces every earlier definition of that
  name, so every patch replaces all original definitions of its macro, and patches without an
  original are simply added.)
* cpp: clang -E -P -x assembler-with-cpp (gcc as a second opinion).
"""
import re
import subprocess

from vf import core

CLANG = "clang"
GCC = "gcc"

_TOK = re.compile(
    r"""
  (?P<ws>\s+)
 |(?P<id>[A-Za-z_][A-Za-z0-9_]*)
 |(?P<num>\.?[0-9](?:[eEpP][+-]|[A-Za-z0-9_.])*)
 |(?P<str>"(?:\\.|[^"\\\n])*")
 |(?P<chr>'(?:\\.|[^'\\\n])*')
 |(?P<punct>%:%:|\.\.\.|<<=|>>=|->|\+\+|--|<<|>>|<=|>=|==|!=|&&|\|\||\+=|-=|\*=|/=|%=|&=|\^=|\|=|\#\#|[-+*/%<>=!~^&|?:;,.()\[\]{}\#])
 |(?P<other>.)
""",
    re.X | re.S,
)


def ctokens(text):
    """List of preprocessing-token spellings (white space dropped)."""
    out = []
    for m in _TOK.finditer(text):
        if m.lastgroup != "ws":
            out.append(m.group(0))
    return out


def ctokens_kinds(text):
    return [(m.lastgroup, m.group(0)) for m in _TOK.finditer(text) if m.lastgroup != "ws"]


def match_brace(toks, i):
    """toks[i] == '{' -> index of the matching '}' or None."""
    depth = 0
    for j in range(i, len(toks)):
        t = toks[j]
        if t == "{":
            depth += 1
        elif t == "}":
            depth -= 1
            if depth == 0:
                return j
    return None


def strip_wrappers(toks):
    """Every statement `do { X } while ( 0 )` (keyword do, a braced body, keyword while, the
    literal 0) is replaced by the tokens of X (recursively); the `;` that follows stays."""
    out = []
    i = 0
    n = len(toks)
    while i < n:
        if toks[i] == "do" and i + 1 < n and toks[i + 1] == "{":
            j = match_brace(toks, i + 1)
            if j is not None and toks[j + 1 : j + 5] == ["while", "(", "0", ")"]:
                out.extend(strip_wrappers(toks[i + 2 : j]))
                i = j + 5
                continue
        out.append(toks[i])
        i += 1
    return out


def count_wrappers(toks):
    n = 0
    for i, t in enumerate(toks):
        if t == "do" and i + 1 < len(toks) and toks[i + 1] == "{":
            j = match_brace(toks, i + 1)
            if j is not None and toks[j + 1 : j + 5] == ["while", "(", "0", ")"]:
                n += 1
    return n


# --------------------------------------------------------------------------------------
# macro headers: active lines

_DIRECTIVE = re.compile(r"^[ \t]*#[ \t]*([A-Za-z_]+)(.*)$", re.S)


def logical_lines(text):
    """Physical lines grouped into logical lines (backslash-newline splices); each group is
    returned as the list of its physical lines (without the newline)."""
    groups = []
    cur = []
    for ln in text.split("\n"):
        cur.append(ln)
        if ln.endswith("\\"):
            continue
        groups.append(cur)
        cur = []
    if cur:
        groups.append(cur)
    if groups and groups[-1] == [""]:
        groups.pop()
    return groups


def ref_macro_text(text, is_vec, defined=None, physical=False):
    """Active part of one macro header under the documented configuration: QEMU_GENERATE and
    CONFIG_USER_ONLY undefined; in the vector header blocks guarded by QEMU_GENERATE (either
    polarity) are transparent; any other guard symbol is defined iff an active #define defined it.
    #include lines are dropped.  Comments are blanked here only to find directives; the returned
    text keeps them (the C preprocessor removes them).
    physical=True evaluates directives one physical line at a time (before splicing); it is only used
    to model a known finding."""
    defined = set() if defined is None else defined
    stack = []  # (parent_active, this_branch_active, any_branch_taken, transparent)
    out = []
    active = True
    in_comment = False
    for grp in ([[x] for x in text.split("\n")[: -1 if text.endswith("\n") else None]] if physical else logical_lines(text)):
        joined = "".join(x[:-1] if x.endswith("\\") else x for x in grp)
        # strip comments for directive recognition
        probe, in_comment = _strip_comments(joined, in_comment)
        m = _DIRECTIVE.match(probe)
        d = m.group(1) if m else None
        if d in ("ifdef", "ifndef"):
            sym = m.group(2).strip()
            if not re.fullmatch(r"[A-Za-z_]\w*", sym):
                raise core.HarnessError("reference: unsupported conditional %r" % joined)
            if is_vec and sym == "QEMU_GENERATE":
                stack.append((active, True, True, True))
                continue
            val = sym in defined and sym not in ("QEMU_GENERATE", "CONFIG_USER_ONLY")
            if d == "ifndef":
                val = not val
            stack.append((active, val, val, False))
            active = active and val
            continue
        if d in ("if", "elif"):
            raise core.HarnessError("reference: #if/#elif not supported: %r" % joined)
        if d == "else":
            if not stack:
                raise core.HarnessError("reference: #else without #if")
            par, cur, taken, transp = stack.pop()
            if transp:
                raise core.HarnessError("reference: #else of a QEMU_GENERATE block in the vector header has no documented meaning")
            stack.append((par, not taken, True, False))
            active = par and not taken
            continue
        if d == "endif":
            if not stack:
                raise core.HarnessError("reference: #endif without #if")
            par, cur, taken, transp = stack.pop()
            active = par
            continue
        if not active:
            continue
        if d == "include":
            continue
        if d == "define":
            mm = re.match(r"\s*([A-Za-z_]\w*)", m.group(2))
            if mm:
                defined.add(mm.group(1))
        elif d == "undef":
            mm = re.match(r"\s*([A-Za-z_]\w*)", m.group(2))
            if mm:
                defined.discard(mm.group(1))
        out.extend(grp)
    if stack:
        raise core.HarnessError("reference: unterminated conditional")
    return "\n".join(out) + "\n"


def _strip_comments(line, in_comment):
    """Blank out comments of one logical line (string literals respected)."""
    out = []
    i = 0
    n = len(line)
    while i < n:
        if in_comment:
            k = line.find("*/", i)
            if k < 0:
                return "".join(out), True
            i = k + 2
            in_comment = False
            out.append(" ")
            continue
        c = line[i]
        if c == '"' or c == "'":
            j = i + 1
            while j < n and line[j] != c:
                j += 2 if line[j] == "\\" else 1
            out.append(line[i : j + 1])
            i = j + 1
            continue
        if line.startswith("//", i):
            break
        if line.startswith("/*", i):
            in_comment = True
            i += 2
            continue
        out.append(c)
        i += 1
    return "".join(out), in_comment


# --------------------------------------------------------------------------------------
# the C preprocessor


def cpp_try(text, tool="clang", dump_macros=False, timeout=300):
    """Standard C preprocessing of `text` -> (return code, stdout, stderr).
    assembler-with-cpp: a few QEMU macros paste tokens into something that is not a single token,
    which strict C mode rejects and every preprocessor expands the same way."""
    exe = CLANG if tool == "clang" else GCC
    argv = [exe, "-E", "-P", "-x", "assembler-with-cpp", "-undef", "-w", "-nostdinc"]
    if dump_macros:
        argv.append("-dM")
    argv.append("-")
    try:
        p = subprocess.run(argv, input=text.encode(), stdout=subprocess.PIPE, stderr=subprocess.PIPE, timeout=timeout)
    except FileNotFoundError as e:
        raise core.HarnessError("reference preprocessor missing: %s" % e)
    except subprocess.TimeoutExpired:
        raise core.HarnessError("reference preprocessor timed out")
    return p.returncode, p.stdout.decode(errors="replace"), p.stderr.decode(errors="replace")


def cpp(text, tool="clang", dump_macros=False):
    rc, out, err = cpp_try(text, tool, dump_macros)
    if rc != 0:
        raise core.HarnessError("%s failed (%d): %s" % (tool, rc, err[:600]))
    return out


_DEFINE = re.compile(r"^#define\s+([A-Za-z_]\w*)(\()?")

_BASE_MACROS = {}


def builtin_macros(tool="clang"):
    if tool not in _BASE_MACROS:
        _BASE_MACROS[tool] = parse_dm(cpp("\n", tool, dump_macros=True))
    return _BASE_MACROS[tool]


def parse_dm(text):
    """-dM output -> name -> (is_function_like, token list of the whole definition after the name)."""
    out = {}
    for ln in text.split("\n"):
        m = _DEFINE.match(ln)
        if not m:
            continue
        out[m.group(1)] = (m.group(2) is not None, tuple(ctokens(ln[m.end(1) :])))
    return out


def macro_set(text, tool="clang"):
    """The macros a C preprocessor holds after reading `text` (compiler built-ins removed)."""
    base = builtin_macros(tool)
    got = parse_dm(cpp(text, tool, dump_macros=True))
    return {k: v for k, v in got.items() if base.get(k) != v}


# --------------------------------------------------------------------------------------
# resolved lines

_INSN = re.compile(r"^insn\s*\(\s*(\w+)\s*,(.*)\)\s*$", re.S)


def split_insn_line(line):
    """`insn(NAME, BODY)` -> (NAME, BODY) or None (scanner written for the reference side)."""
    m = _INSN.match(line.strip())
    if not m:
        return None
    return m.group(1), m.group(2).strip()


def surviving_invocations(toks, macros):
    """Identifiers in toks that invoke a macro of `macros` (name -> (function_like, def)): an
    object-like name anywhere, a function-like name when the next token is `(`."""
    bad = []
    for i, t in enumerate(toks):
        d = macros.get(t)
        if d is None:
            continue
        if not d[0] or (i + 1 < len(toks) and toks[i + 1] == "("):
            bad.append(t)
    return bad
