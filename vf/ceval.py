"""E3 (evaluator): C11 integer semantics with QEMU's conventions for the shortcode dialect,
with named *deviation switches* (the known findings, DESIGN.md section 5).

strict = the empty deviation set = what the property statements call "the C value".
The strict evaluator is cross-validated against gcc and clang (vf.native); it detects C
undefined behaviour and raises CUndefined - such (program, state) pairs are never compared.
"""
from vf import cparse
from vf import uninterp
from vf.ilvm import QEMU_HELPERS, HelperUB


class CUndefined(Exception):
    """C undefined / unspecified behaviour: not comparable, never an alarm."""


class CUnsupported(Exception):
    """Construct the reference does not evaluate (HVX, IEEE, pointers ...)."""


INT = (True, 32)
UINT = (False, 32)
S64 = (True, 64)
U64 = (False, 64)


def mask(w):
    return (1 << w) - 1


def wrap(v, T):
    s, w = T
    v &= (1 << w) - 1
    if s and v >> (w - 1):
        v -= 1 << w
    return v


def promote(T):
    return INT if T[1] < 32 else T


def common(A, B):
    A, B = promote(A), promote(B)
    if A == B:
        return A
    if A[0] == B[0]:
        return A if A[1] >= B[1] else B
    u, s = (B, A) if A[0] else (A, B)
    if u[1] >= s[1]:
        return u
    return s


def is_int(T):
    return len(T) == 2 and isinstance(T[0], bool)


class CHorizon(CUnsupported):
    """The step horizon was exceeded (a loop that does not terminate within the bound)."""


class Cell:
    __slots__ = ("T", "v", "init", "assigned", "const")

    def __init__(self, T, v=0, init=False, const=False):
        self.T, self.v, self.init, self.assigned, self.const = T, v, init, False, const


class ReturnEx(Exception):
    def __init__(self, val):
        self.val = val


class BreakEx(Exception):
    pass


class ContinueEx(Exception):
    pass


class Routine:
    """A C function of the reference: return type, parameters, parsed body."""

    def __init__(self, name, ret, params, body_text):
        self.name = name
        self.ret = parse_ctype(ret)
        self.params = []
        for p in params:
            p = p.strip()
            t, n = p.rsplit(" ", 1)
            if n.startswith("*"):
                t, n = t + " *", n.lstrip("*")
            self.params.append((parse_ctype(t), n))
        self.body = cparse.parse_behaviour(body_text)


def parse_ctype(t):
    t = t.strip()
    if t.endswith("*") or "Hex" in t or "Rz" in t:
        if "HexOp" in t:
            return ("regref",)
        if "HexRegField" in t or "RzFloat" in t:
            return ("enum",)
        return ("opaque",)
    p = cparse.Parser(t)
    ty, _ = p.type_name()
    return ty


# names with a fixed meaning in the dialect
IMPLICIT_LOCALS = {"EA": UINT}


class World:
    """Architectural state on the C side."""

    def __init__(self):
        self.cells = {}  # operand spelling / alias -> Cell
        self.mem = {}
        self.mempat = lambda a: (a * 37 + 11) & 0xFF
        self.jump = (False, None)
        self.slot_cancel = False
        self.npc = 0
        self.regfield = {}
        self.cs = 0
        self.insn_slot = 0

    def memrd(self, a):
        return self.mem[a] if a in self.mem else self.mempat(a)


class Interp:
    def __init__(self, routines=None, D=frozenset(), max_steps=5000):
        self.routines = routines or {}
        self.D = D
        self.max_steps = max_steps

    # ------------------------------------------------------------------ running
    def run(self, body, world, locals_init=None):
        """Executes a behaviour.  locals_init: name -> (T, value) preset locals (harness inputs).
        Returns the dict of top-level locals at the end (name -> (T, value) or None if unset)."""
        self.w = world
        self.steps = 0
        self.hc = {}
        self.scopes = [{}]
        self.preset = set(locals_init or ())
        for n, (T, v) in (locals_init or {}).items():
            self.scopes[0][n] = Cell(T, wrap(v, T), True)
        items = body[1] if body[0] == "block" else [body]
        self.orphans = set()
        try:
            if "hybrid-eager" in self.D:
                self.run_orphans(body)
            for it in items:
                self.stmt(it)
        except ReturnEx:
            pass  # 'return' at instruction level just ends the behaviour
        out = {}
        for n, c in self.scopes[0].items():
            out[n] = (c.T, c.v) if c.init else None
        return out

    def call_routine(self, r, args, world):
        """Stand-alone call (for checking sub-routines directly): args are python ints / names."""
        self.w = world
        self.steps = 0
        self.hc = {}
        self.scopes = [{}]
        return self.invoke(r, args)

    # ------------------------------------------------------------------ variables
    def lookup(self, name):
        for sc in reversed(self.scopes):
            if name in sc:
                return sc[name]
        c = self.w.cells.get(name)
        if c is not None:
            return c
        if name in IMPLICIT_LOCALS:
            c = Cell(IMPLICIT_LOCALS[name])
            self.scopes[0][name] = c
            return c
        return None

    def declare(self, name, T, const=False):
        sc = self.scopes[-1]
        if name in sc and name not in getattr(self, "preset", ()):
            raise CUnsupported("redeclaration of %s in one scope (not valid C)" % name)
        c = Cell(T, 0, False, const)
        sc[name] = c
        return c

    # ------------------------------------------------------------------ deviation "hybrid-eager"
    # The compiler turns every value-producing operation with a side effect (postfix ++/--, call of
    # a sub-routine, statement-expression) into a temporary that is computed in an effect sequenced
    # *before the statement that consumes it*, in creation order (children first, left to right).
    # This equals C wherever C evaluates the operation exactly once per execution of the statement;
    # it differs for arms of ?: (only a statement-expression that is directly an arm is guarded, and
    # only by the innermost condition), right operands of && and ||, and loop conditions (computed
    # once, before the loop initialiser).  Under the deviation the reference evaluates them that way.
    def is_hybrid(self, e):
        k = e[0]
        if k == "post" or k == "stmtexpr":
            return True
        if k == "call":
            f = cparse.strip_paren(e[1])
            return f[0] == "id" and (f[1] in self.routines or f[1] in ("get_npc",))
        return False

    def run_orphans(self, body):
        """A ?: with a compile-time constant condition is folded to its live arm, but the value-producing operations of
        the dead arm were already queued: nothing consumes them any more, and effects without a consumer are placed at
        the very start of the instruction.  They run once, there, whatever encloses the ?:."""
        def walk(n):
            if isinstance(n, tuple):
                if n and n[0] == "cond" and is_const_expr(n[1]):
                    try:
                        c = self.truth(self.ev(n[1]))
                    except (CUndefined, CUnsupported):
                        c = None
                    if c is not None:
                        dead = n[3] if c else n[2]
                        if cparse.strip_paren(dead)[0] != "stmtexpr":
                            self.orphans.add(id(dead))
                            keys = []
                            self.hoist(dead, keys)
                            for k in keys:
                                self.hc.pop(k, None)
                        walk(n[2] if c else n[3])
                        return
                for x in n:
                    walk(x)
            elif isinstance(n, list):
                for x in n:
                    walk(x)

        walk(body)

    def hoist(self, e, keys):
        """Pre-evaluates the hybrids inside expression e (bottom-up, left to right)."""
        if not isinstance(e, tuple) or not e or not isinstance(e[0], str):
            return
        k = e[0]
        if k == "cond":
            self.hoist(e[1], keys)
            for arm, want in ((e[2], True), (e[3], False)):
                if id(arm) in getattr(self, "orphans", ()):
                    continue  # ran at the start of the instruction
                a = cparse.strip_paren(arm)
                if a[0] == "stmtexpr":
                    # BRANCH(cond, statements, EMPTY): guarded by this condition only
                    c = self.truth(self.ev(e[1]))
                    if c == want:
                        self.hc[id(a)] = self.ev_uncached(a)
                    else:
                        self.hc[id(a)] = (("void",), None)
                    keys.append(id(a))
                else:
                    self.hoist(arm, keys)
            return
        if k == "stmtexpr":
            self.hc[id(e)] = self.ev_uncached(e)
            keys.append(id(e))
            return
        for x in e[1:]:
            if isinstance(x, tuple):
                self.hoist(x, keys)
            elif isinstance(x, list):
                for y in x:
                    self.hoist(y, keys)
        if self.is_hybrid(e):
            self.hc[id(e)] = self.ev_uncached(e)
            keys.append(id(e))

    def ev_uncached(self, e):
        return getattr(self, "e_" + e[0])(e)

    def with_hoist(self, exprs, fn):
        if "hybrid-eager" not in self.D:
            return fn()
        keys = []
        for e in exprs:
            if e is not None:
                self.hoist(e, keys)
        try:
            return fn()
        finally:
            for k in keys:
                self.hc.pop(k, None)

    # ------------------------------------------------------------------ statements
    def tick(self):
        self.steps += 1
        if self.steps > self.max_steps:
            raise CHorizon("step horizon")

    def stmt(self, s):
        k = s[0]
        if k == "expr":
            self.with_hoist([s[1]], lambda: self.ev(s[1]))
        elif k == "decl":
            if "hybrid-eager" in self.D and any(init is not None for (_n, init, _t) in s[3]):
                return self.with_hoist([init for (_n, init, _t) in s[3]], lambda: self.stmt_decl(s))
            self.stmt_decl(s)
        elif k == "empty":
            pass
        elif k == "block":
            self.scopes.append({})
            try:
                for it in s[1]:
                    self.stmt(it)
            finally:
                self.scopes.pop()
        elif k == "if":
            self.tick()
            if self.with_hoist([s[1]], lambda: self.truth(self.ev(s[1]))):
                self.stmt(s[2])
            elif s[3] is not None:
                self.stmt(s[3])
        elif k == "for":
            self.scopes.append({})
            frozen = []
            try:
                if "hybrid-eager" in self.D and s[2] is not None:
                    # hybrids of the loop condition: computed once, before the initialiser
                    self.hoist(s[2], frozen)
                if s[1] is not None:
                    self.stmt(s[1])
                while True:
                    self.tick()
                    if s[2] is not None and not self.truth(self.ev(s[2])):
                        break
                    try:
                        self.stmt(s[4])
                    except BreakEx:
                        break
                    except ContinueEx:
                        pass
                    if s[3] is not None:
                        self.with_hoist([s[3]], lambda: self.ev(s[3]))
            finally:
                for k_ in frozen:
                    self.hc.pop(k_, None)
                self.scopes.pop()
        elif k == "while":
            while True:
                self.tick()
                if not self.truth(self.ev(s[1])):
                    break
                try:
                    self.stmt(s[2])
                except BreakEx:
                    break
                except ContinueEx:
                    pass
        elif k == "do":
            while True:
                self.tick()
                try:
                    self.stmt(s[1])
                except BreakEx:
                    break
                except ContinueEx:
                    pass
                if not self.truth(self.ev(s[2])):
                    break
        elif k == "break":
            raise BreakEx()
        elif k == "continue":
            raise ContinueEx()
        elif k == "return":
            v = None if s[1] is None else self.with_hoist([s[1]], lambda: self.ev(s[1]))
            if "return-does-not-leave" in self.D and getattr(self, "in_routine", 0):
                self.pending_return[-1] = v  # the statements after the return still run; the last return wins
                return
            raise ReturnEx(v)
        elif k == "label":
            self.stmt(s[2])
        else:
            raise CUnsupported("statement %s" % k)

    def stmt_decl(self, s):
        for (name, init, tt) in s[3]:
            if init is None and len(self.scopes) == 1 and name in getattr(self, "preset", ()):
                if self.scopes[0][name].T != tt:
                    raise CUnsupported("preset input %s declared with another type" % name)
                continue  # harness input: the declaration keeps the preset value
            if not is_int(tt):
                if tt[0] == "float":
                    c = self.declare(name, tt)
                    if init is not None:
                        v = self.ev(init)
                        c.v, c.init = self.to_float(v, tt), True
                    continue
                raise CUnsupported("declaration of type %r" % (tt,))
            c = self.declare(name, tt, "const" in s[2])
            if init is not None:
                v = self.ev(init)
                c.v = self.convert(v, tt, "init")
                c.init = True

    # ------------------------------------------------------------------ conversions
    def convert(self, tv, T, ctx=""):
        """C conversion of a typed value to integer type T (6.3.1.3; wrap-around for signed)."""
        ST, v = tv
        if not is_int(ST):
            if ST[0] == "float":
                raise CUnsupported("float to integer conversion")
            if ST[0] == "void":
                raise CUnsupported("void value used")
            raise CUnsupported("conversion from %r" % (ST,))
        if "widen-signed-to-unsigned-zero" in self.D and ST[0] and not T[0] and T[1] > ST[1]:
            return v & mask(ST[1])
        return wrap(v, T)

    def truth(self, tv):
        T, v = tv
        if is_int(T):
            return v != 0
        raise CUnsupported("truth of %r" % (T,))

    def to_float(self, tv, T):
        if tv[0] == T:
            return tv[1]
        raise CUnsupported("implicit float conversion")

    # ------------------------------------------------------------------ expressions
    def ev(self, e):
        if self.hc:
            r = self.hc.get(id(e))
            if r is not None:
                return r
        return getattr(self, "e_" + e[0])(e)

    def e_paren(self, e):
        return self.ev(e[1])

    def e_num(self, e):
        if "literal-always-32" in self.D:
            sp = e[3].lower()
            uns = "u" in sp.lstrip("0x") if sp.startswith("0x") else "u" in sp
            T = (not uns, 64 if "ll" in sp else 32)
            return (T, wrap(e[1], T))
        return (e[2], e[1])

    def e_fnum(self, e):
        raise CUnsupported("float literal")

    def e_str(self, e):
        return (("str",), e[1])

    def e_id(self, e):
        n = e[1]
        c = self.lookup(n)
        if c is None:
            if n == "cancel_slot" or n == "__NOP":
                return (("void",), None)
            if n in self.w.regfield_names():
                return (("enum",), n)
            if n.isupper() or n.startswith("HEX_") or n.startswith("RZ_"):
                return (("enum",), n)
            raise CUnsupported("unknown identifier %s" % n)
        if not c.init:
            raise CUndefined("read of uninitialised %s" % n)
        return (c.T, c.v)

    def lvalue(self, e):
        e = cparse.strip_paren(e)
        if e[0] != "id":
            raise CUnsupported("lvalue %s" % e[0])
        c = self.lookup(e[1])
        if c is None:
            raise CUnsupported("assignment to unknown identifier %s" % e[1])
        return c

    def e_un(self, e):
        op = e[1]
        if op in ("++", "--"):
            c = self.lvalue(e[2])
            if not c.init:
                raise CUndefined("uninitialised ++/--")
            nv = self.arith("+" if op == "++" else "-", (c.T, c.v), (INT, 1))
            self.store(c, nv)
            return (c.T, c.v)
        if op in ("*", "&"):
            raise CUnsupported("pointer operator")
        a = self.ev(e[2])
        T, v = a
        if not is_int(T):
            raise CUnsupported("unary %s on %r" % (op, T))
        if op == "!":
            return (INT, 0 if v != 0 else 1)
        P = promote(T)
        v = wrap(v, P)
        if op == "+":
            return (P, v)
        if op == "-":
            if "neg-literal-signed" in self.D and is_const_expr(e[2]):
                P = (True, P[1])  # the folded negation of a constant is typed signed
            return (P, wrap(-v, P))
        if op == "~":
            return (P, wrap(~v, P))
        raise CUnsupported("unary " + op)

    def e_post(self, e):
        c = self.lvalue(e[2])
        if not c.init:
            raise CUndefined("uninitialised ++/--")
        old = (c.T, c.v)
        nv = self.arith("+" if e[1] == "++" else "-", old, (INT, 1))
        self.store(c, nv)
        return old

    def store(self, c, tv):
        if c.const:
            raise CUnsupported("assignment to const")
        c.v = self.convert(tv, c.T, "assign")
        c.init = True
        c.assigned = True

    def e_assign(self, e):
        op = e[1]
        c = self.lvalue(e[2])
        if not is_int(c.T):
            if op == "=" and c.T[0] == "float":
                r = self.ev(e[3])
                c.v, c.init, c.assigned = self.to_float(r, c.T), True, True
                return (c.T, c.v)
            raise CUnsupported("assignment to %r" % (c.T,))
        inner = cparse.strip_paren(e[3])
        if op == "=" and inner[0] == "assign" and "chained-assign-outer-first" in self.D:
            # the compiler gives the outer assignment the right operand of the inner one (for a compound inner
            # assignment: target op operand) and runs the outer assignment first; the inner one evaluates it again
            c2 = self.lvalue(inner[2])
            if is_int(c2.T):
                r2 = self.ev(inner[3])
                if inner[1] != "=":
                    if not c2.init:
                        raise CUndefined("compound assignment to uninitialised variable")
                    if "compound-src-precast" in self.D and inner[1] not in ("<<=", ">>=") and is_int(r2[0]):
                        r2 = (c2.T, self.convert(r2, c2.T))
                    r2 = self.arith(inner[1][:-1], (c2.T, c2.v), r2, compound=True)
                self.store(c, (c2.T, self.convert(r2, c2.T)))
                self.ev(e[3])
                return (c.T, c.v)
        if op == "=":
            r = self.ev(e[3])
            self.store(c, r)
            return (c.T, c.v)
        r = self.ev(e[3])
        if not c.init:
            raise CUndefined("compound assignment to uninitialised variable")
        if "compound-src-precast" in self.D and op not in ("<<=", ">>=") and is_int(r[0]):
            r = (c.T, self.convert(r, c.T))  # the right operand is converted to the target's type first
        nv = self.arith(op[:-1], (c.T, c.v), r, compound=True)
        self.store(c, nv)
        return (c.T, c.v)

    def e_comma(self, e):
        self.ev(e[1])
        return self.ev(e[2])

    def e_cond(self, e):
        self.tick()
        if "unary-fold-unreduced" in self.D and is_const_expr(e[1]):
            # the folded condition is tested with the value the fold left (a folded ~ / - is not reduced to its type)
            c = self.ev_raw(e[1])[1] != 0
        else:
            c = self.truth(self.ev(e[1]))
        # the result type is the common type of both arms: type the other arm statically
        taken = e[2] if c else e[3]
        other = e[3] if c else e[2]
        tv = self.ev(taken)
        if "const-cond-no-conversion" in self.D and is_const_expr(e[1]):
            return tv  # the folded ?: yields the live arm as it is
        T1 = tv[0]
        T2 = self.static_type(other)
        if is_int(T1) and T2 is not None and is_int(T2):
            if "uac-nopromo" in self.D:
                R = common_nopromo(T1, T2)
                return (R, self.convert(tv, R))
            R = common(T1, T2)
            if T1 == T2:
                return tv
            P1 = promote(T1)
            return (R, self.convert((P1, self.convert(tv, P1)), R))
        return tv

    def e_cast(self, e):
        T = e[1]
        v = self.ev(e[2])
        if is_int(T):
            return (T, self.convert(v, T, "cast"))
        if T[0] == "void":
            return (("void",), None)
        raise CUnsupported("cast to %r" % (T,))

    def e_sizeof_e(self, e):
        T = self.static_type(e[1])
        if T is None or not is_int(T):
            raise CUnsupported("sizeof of unknown type")
        return (INT if "sizeof-is-int" in self.D else U64, (T[1] + 7) // 8)

    def e_sizeof_t(self, e):
        T = e[1]
        if not is_int(T):
            raise CUnsupported("sizeof(type %r)" % (T,))
        return (INT if "sizeof-is-int" in self.D else U64, (T[1] + 7) // 8)

    def e_stmtexpr(self, e):
        items = e[1]
        self.scopes.append({})
        try:
            val = (("void",), None)
            for i, it in enumerate(items):
                if i == len(items) - 1 and it[0] == "expr":
                    val = self.ev(it[1])
                else:
                    self.stmt(it)
            return val
        finally:
            self.scopes.pop()

    def e_index(self, e):
        raise CUnsupported("array access")

    def e_member(self, e):
        raise CUnsupported("member access")

    def e_arrow(self, e):
        raise CUnsupported("member access")

    def e_complit(self, e):
        raise CUnsupported("compound literal")

    def e_bin(self, e):
        op = e[1]
        if op == "&&":
            self.tick()
            a = self.truth(self.ev(e[2]))
            if not a:
                return (INT, 0)
            return (INT, 1 if self.truth(self.ev(e[3])) else 0)
        if op == "||":
            self.tick()
            a = self.truth(self.ev(e[2]))
            if a:
                return (INT, 1)
            return (INT, 1 if self.truth(self.ev(e[3])) else 0)
        if "unary-fold-unreduced" in self.D and is_const_expr(e[2]) and is_const_expr(e[3]):
            # both operands are folded at compile time: a folded ~ / - keeps its mathematical value
            a = self.ev_raw(e[2])
            b = self.ev_raw(e[3])
            if op in ("+", "-", "*") and is_int(a[0]) and is_int(b[0]):
                # the fold computes on the mathematical values and reduces only the result
                R = common(a[0], b[0])
                v = a[1] + b[1] if op == "+" else (a[1] - b[1] if op == "-" else a[1] * b[1])
                return (R, wrap(v, R))
            if op in ("<", ">", "<=", ">=", "==", "!=") and is_int(a[0]) and is_int(b[0]):
                # the folded comparison reduces the mathematical values to the common type (a value that was never
                # reduced to its own, narrower type keeps its sign there)
                R = common(a[0], b[0])
                x, y = wrap(a[1], R), wrap(b[1], R)
                r = {"<": x < y, ">": x > y, "<=": x <= y, ">=": x >= y, "==": x == y, "!=": x != y}[op]
                return (INT, 1 if r else 0)
        else:
            a = self.ev(e[2])
            b = self.ev(e[3])
        return self.arith(op, a, b)

    def ev_raw(self, e):
        x = cparse.strip_paren(e)
        if x[0] == "un" and x[1] in ("~", "-") and is_const_expr(x[2]):
            T, v = self.ev_raw(x[2])
            if is_int(T):
                P = promote(T)
                if x[1] == "-" and "neg-literal-signed" in self.D:
                    P = (True, P[1])
                return (P, ~v if x[1] == "~" else -v)  # not reduced to the range of P
        return self.ev(e)

    def arith(self, op, a, b, compound=False):
        TA, va = a
        TB, vb = b
        if not (is_int(TA) and is_int(TB)):
            if TA[0] == "float" and TB[0] == "float" and op in ("+", "-", "*", "/"):
                nm = {"+": "fadd", "-": "fsub", "*": "fmul", "/": "fdiv"}[op]
                return (TA, uninterp.fbin(nm, ("f", TA[1], va), ("f", TB[1], vb))[2])
            if TA[0] == "float" and TB[0] == "float" and op in ("==", ">", ">=", "<", "<="):
                nm = {"==": "feq", ">": "fgt", ">=": "fge", "<": "flt", "<=": "fle"}[op]
                return (INT, 1 if uninterp.fcmp(nm, ("f", TA[1], va), ("f", TB[1], vb)) else 0)
            raise CUnsupported("binary %s on %r, %r" % (op, TA, TB))
        if op in ("<<", ">>"):
            if "shift-nopromo" in self.D:
                R = TA
            else:
                R = promote(TA)
            x = wrap(va, R)
            cnt = vb
            if cnt < 0 or cnt >= promote(TA)[1]:
                if self.D:
                    # under a deviation the reference models what the IL computes: code C would not have
                    # executed (an unselected ?: arm) or a count that a deviating conversion produced;
                    # an over-wide RzIL shift yields zero / the fill bits
                    if op == "<<":
                        return (R, 0)
                    return (R, -1 if (R[0] and x < 0) else 0)
                raise CUndefined("shift count %d for width %d" % (cnt, promote(TA)[1]))
            if op == "<<":
                return (R, wrap(x << cnt, R))
            if cnt >= R[1]:
                return (R, -1 if x < 0 else 0)
            return (R, wrap(x >> cnt, R))  # arithmetic on signed (python ints), logical on unsigned (x >= 0)
        if op in ("<", ">", "<=", ">=", "==", "!="):
            if "uac-nopromo" in self.D:
                R = common_nopromo(TA, TB)
                x, y = self.convert(a, R), self.convert(b, R)
            else:
                R = common(TA, TB)
                PA, PB = promote(TA), promote(TB)
                x = self.convert((PA, self.convert(a, PA)), R)
                y = self.convert((PB, self.convert(b, PB)), R)
            r = {"<": x < y, ">": x > y, "<=": x <= y, ">=": x >= y, "==": x == y, "!=": x != y}[op]
            return (INT, 1 if r else 0)
        R = common(TA, TB)
        # integer promotion first, then conversion to the common type (value-preserving in C, so
        # the two steps equal one; under a conversion deviation each step deviates on its own)
        PA, PB = promote(TA), promote(TB)
        x = self.convert((PA, self.convert(a, PA)), R)
        y = self.convert((PB, self.convert(b, PB)), R)
        if op == "+":
            return (R, wrap(x + y, R))
        if op == "-":
            return (R, wrap(x - y, R))
        if op == "*":
            return (R, wrap(x * y, R))
        if op == "&":
            return (R, wrap(x & y, R))
        if op == "|":
            return (R, wrap(x | y, R))
        if op == "^":
            return (R, wrap(x ^ y, R))
        if op in ("/", "%"):
            if "div-unsigned" in self.D:
                # the unsigned IL operators are total: no overflow case, x / 0 = all ones, x % 0 = x
                ux, uy = x & mask(R[1]), y & mask(R[1])
                if uy == 0:
                    return (R, wrap(mask(R[1]) if op == "/" else ux, R))
                return (R, wrap(ux // uy if op == "/" else ux % uy, R))
            if y == 0:
                raise CUndefined("division by zero")
            if R[0] and x == -(1 << (R[1] - 1)) and y == -1:
                raise CUndefined("signed division overflow")
            q = abs(x) // abs(y)
            if (x < 0) != (y < 0):
                q = -q
            if op == "/":
                return (R, wrap(q, R))
            return (R, wrap(x - q * y, R))
        raise CUnsupported("binary " + op)

    # ------------------------------------------------------------------ static typing (for ?: and sizeof)
    def static_type(self, e):
        k = e[0]
        if k == "paren":
            return self.static_type(e[1])
        if k == "num":
            return e[2]
        if k == "id":
            c = self.lookup(e[1])
            return None if c is None else c.T
        if k == "cast":
            return e[1]
        if k == "un":
            if e[1] == "!":
                return INT
            if e[1] in ("++", "--"):
                return self.static_type(e[2])
            T = self.static_type(e[2])
            return None if T is None or not is_int(T) else promote(T)
        if k == "post":
            return self.static_type(e[2])
        if k == "bin":
            op = e[1]
            if op in ("<", ">", "<=", ">=", "==", "!=", "&&", "||"):
                return INT
            A = self.static_type(e[2])
            if A is None or not is_int(A):
                return None
            if op in ("<<", ">>"):
                return A if "shift-nopromo" in self.D else promote(A)
            B = self.static_type(e[3])
            if B is None or not is_int(B):
                return None
            return common(A, B)
        if k == "cond":
            A, B = self.static_type(e[2]), self.static_type(e[3])
            if A is None or B is None or not (is_int(A) and is_int(B)):
                return A
            return common_nopromo(A, B) if "uac-nopromo" in self.D else common(A, B)
        if k == "assign":
            return self.static_type(e[2])
        if k == "comma":
            return self.static_type(e[2])
        if k in ("sizeof_e", "sizeof_t"):
            return INT if "sizeof-is-int" in self.D else U64
        if k == "call":
            return self.call_type(e)
        if k == "stmtexpr":
            items = e[1]
            if items and items[-1][0] == "expr":
                # declarations inside are not visible statically: evaluate types best-effort
                self.scopes.append({})
                try:
                    for it in items[:-1]:
                        if it[0] == "decl":
                            for (name, init, tt) in it[3]:
                                self.declare(name, tt)
                    return self.static_type(items[-1][1])
                finally:
                    self.scopes.pop()
            return ("void",)
        return None

    # ------------------------------------------------------------------ calls
    def call_type(self, e):
        f = cparse.strip_paren(e[1])
        if f[0] != "id":
            return None
        n = f[1]
        if n in self.routines:
            return self.routines[n].ret
        if n in BUILTIN_SIGS:
            return BUILTIN_SIGS[n][1]
        m = MEMLOAD.match(n)
        if m:
            return (m.group(1) == "s", int(m.group(2)))
        if n == "get_npc":
            return UINT
        if n in ("REGFIELD",):
            return UINT
        if n == "get_corresponding_CS":
            return INT
        return None

    def e_call(self, e):
        f = cparse.strip_paren(e[1])
        if f[0] != "id":
            raise CUnsupported("indirect call")
        n = f[1]
        args = e[2]
        self.tick()
        if n in self.routines:
            return self.invoke(self.routines[n], args)
        if n in BUILTIN_SIGS:
            ps, rt = BUILTIN_SIGS[n]
            if len(ps) != len(args):
                raise CUnsupported("%s arity" % n)
            vals = [self.convert(self.ev(a), p) for a, p in zip(args, ps)]
            try:
                r = QEMU_HELPERS[n.upper()](*[v & mask(p[1]) for v, p in zip(vals, ps)])
            except HelperUB as ex:
                raise CUndefined(str(ex))
            return (rt, wrap(r, rt))
        m = MEMLOAD.match(n)
        if m:
            T = (m.group(1) == "s", int(m.group(2)))
            if T[1] % 8:
                raise CUnsupported("sub-byte memory access")
            a = self.convert(self.ev(args[0]), UINT)
            v = 0
            for i in range(T[1] // 8):
                v |= self.w.memrd((a + i) & 0xFFFFFFFF) << (8 * i)
            return (T, wrap(v, T))
        m = MEMSTORE.match(n)
        if m:
            w = int(m.group(2))
            if w % 8:
                raise CUnsupported("sub-byte memory access")
            a = self.convert(self.ev(args[0]), UINT)
            v = self.convert(self.ev(args[1]), (m.group(1) == "s", w)) & mask(w)  # converted to the type the store names
            for i in range(w // 8):
                self.w.mem[(a + i) & 0xFFFFFFFF] = (v >> (8 * i)) & 0xFF
            return (("void",), None)
        if n == "JUMP":
            t = self.convert(self.ev(args[0]), UINT)
            self.w.jump = (True, t)
            return (("void",), None)
        if n == "get_npc":
            return (UINT, self.w.npc & 0xFFFFFFFF)
        if n == "STORE_SLOT_CANCELLED":
            self.w.slot_cancel = True
            return (("void",), None)
        if n == "REGFIELD":
            prop = self.ev(args[0])[1]
            field = self.ev(args[1])[1]
            if (prop, field) not in self.w.regfield:
                raise CUnsupported("REGFIELD(%s,%s)" % (prop, field))
            return (UINT, self.w.regfield[(prop, field)] & 0xFFFFFFFF)
        if n == "get_corresponding_CS":
            return (INT, wrap(self.w.cs, INT))
        if n in FLOAT_CALLS:
            return self.float_call(n, args)
        if n == "fatal":
            # QEMU's "can not happen" marker of a branch that is never taken; it has no architectural effect
            return (("void",), None)
        raise CUnsupported("call of %s" % n)

    def invoke(self, r, args):
        if len(args) != len(r.params):
            raise CUnsupported("arity of %s" % r.name)
        frame = {}
        for (pt, pn), a in zip(r.params, args):
            if pt == ("regref",):
                ae = cparse.strip_paren(a) if isinstance(a, tuple) else ("id", a)
                if ae[0] != "id":
                    raise CUnsupported("by-reference register argument")
                c = self.lookup(ae[1])
                if c is None:
                    raise CUnsupported("unknown register argument %s" % ae[1])
                frame[pn] = c  # alias: the callee's parameter *is* the caller's register variable
            elif pt == ("enum",):
                v = self.ev(a) if isinstance(a, tuple) else (("enum",), a)
                frame[pn] = Cell(("enum",), v[1], True)
            elif pt == ("opaque",):
                frame[pn] = Cell(("opaque",), None, True)
            elif is_int(pt):
                v = self.ev(a) if isinstance(a, tuple) else (S64 if a < 0 else U64, a)
                frame[pn] = Cell(pt, self.convert(v, pt, "arg"), True)
            else:
                raise CUnsupported("parameter type %r" % (pt,))
        saved = self.scopes
        saved_hc = self.hc
        self.hc = {}
        self.scopes = [frame]
        self.in_routine = getattr(self, "in_routine", 0) + 1
        if not hasattr(self, "pending_return"):
            self.pending_return = []
        self.pending_return.append(None)
        try:
            try:
                items = r.body[1] if r.body[0] == "block" else [r.body]
                for it in items:
                    self.stmt(it)
                ret = self.pending_return[-1]
            except ReturnEx as ex:
                ret = ex.val
        finally:
            self.scopes = saved
            self.hc = saved_hc
            self.in_routine -= 1
            self.pending_return.pop()
        if r.ret == ("void",):
            return (("void",), None)
        if ret is None:
            raise CUndefined("value of a function that did not return one")
        if is_int(r.ret):
            if "return-via-u64" in self.D and is_int(ret[0]):
                # the value travels through the unsigned 64-bit local ret_val: zero-extended, then
                # truncated to the declared return type
                raw = ret[1] & mask(ret[0][1])
                return (r.ret, wrap(raw, r.ret))
            return (r.ret, self.convert(ret, r.ret, "return"))
        raise CUnsupported("return type %r" % (r.ret,))

    def float_call(self, n, args):
        """Float macros as uninterpreted functions (vf.uninterp), the same ones ILVM uses."""
        if n == "HEX_GET_INSN_RMODE":
            return (("enum",), "RMODE")
        if n == "HEX_SETROUND":
            return (("void",), None)
        if n in ("FLOAT", "DOUBLE"):
            w = 32 if n == "FLOAT" else 64
            v = self.convert(self.ev(args[1]), (False, w))
            return (("float", w), uninterp.bv2f(w, v)[2])
        if n in ("fUNFLOAT", "fUNDOUBLE"):
            w = 32 if n == "fUNFLOAT" else 64
            f = self.ev(args[0])
            if f[0] != ("float", w):
                raise CUnsupported("%s of %r" % (n, f[0]))
            r = uninterp.f2bv(("f", w, f[1]))
            return ((False, w), r[1])
        if n in ("HEX_INT_TO_D", "HEX_SINT_TO_D", "HEX_INT_TO_F", "HEX_SINT_TO_F"):
            w = 64 if n.endswith("_D") else 32
            src = S64 if "SINT" in n else U64
            v = self.convert(self.ev(args[1]), src) & mask(64)
            return (("float", w), uninterp.int_to_f(n[4:].lower(), w, v)[2])
        if n in ("HEX_D_TO_INT", "HEX_D_TO_SINT", "HEX_F_TO_INT", "HEX_F_TO_SINT"):
            w = 64 if "_D_" in n else 32
            f = self.ev(args[1])
            if f[0] != ("float", w):
                raise CUnsupported("%s of %r" % (n, f[0]))
            r = uninterp.f_to_int(n[4:].lower(), ("f", w, f[1]))
            return (U64, r[1])
        if n == "IS_INF":
            f = self.ev(args[0])
            if f[0][0] != "float":
                raise CUnsupported("IS_INF of %r" % (f[0],))
            return (INT, 1 if uninterp.fpred("is_inf", ("f", f[0][1], f[1])) else 0)
        raise CUnsupported("float call %s" % n)


def common_nopromo(A, B):
    """The compiler's comparison / ?: rule: c11_cast on the unpromoted types."""
    if A == B:
        return A
    if A[0] == B[0]:
        return A if A[1] >= B[1] else B
    u, s = (B, A) if A[0] else (A, B)
    if u[1] >= s[1]:
        return u
    return s


import re  # noqa: E402

MEMLOAD = re.compile(r"^mem_load_([su])(\d+)$")
MEMSTORE = re.compile(r"^mem_store_([su])(\d+)$")
BUILTIN_SIGS = {
    "extract32": ([UINT, INT, INT], UINT),
    "extract64": ([U64, INT, INT], U64),
    "sextract64": ([U64, INT, INT], S64),
    "deposit32": ([UINT, INT, INT, UINT], UINT),
    "deposit64": ([U64, INT, INT, U64], U64),
    "bswap16": ([(False, 16)], (False, 16)),
    "bswap32": ([UINT], UINT),
    "bswap64": ([U64], U64),
}
FLOAT_CALLS = {"FLOAT", "DOUBLE", "fUNFLOAT", "fUNDOUBLE", "HEX_GET_INSN_RMODE", "HEX_SETROUND", "HEX_SINT_TO_D", "HEX_SINT_TO_F", "HEX_INT_TO_D", "HEX_INT_TO_F", "HEX_F_TO_SINT", "HEX_D_TO_SINT", "HEX_F_TO_INT", "HEX_D_TO_INT", "IS_INF"}


def _regfield_names(self):
    return {f for (_p, f) in self.regfield} | {p for (p, _f) in self.regfield}


World.regfield_names = _regfield_names


# --------------------------------------------------------------------------------------
# static detection of unsequenced modification (C11 6.5p2): conservative, per full expression


class _Conflict(Exception):
    pass


def _rw(e, by_ref):
    """-> (reads, writes) of object names in expression e; raises _Conflict."""
    k = e[0]
    if k == "id":
        return ({e[1]}, set())
    if k in ("num", "fnum", "str", "sizeof_e", "sizeof_t", "complit"):
        return (set(), set())
    if k == "paren":
        return _rw(e[1], by_ref)
    if k == "post" or (k == "un" and e[1] in ("++", "--")):
        t = cparse.strip_paren(e[2])
        if t[0] == "id":
            return ({t[1]}, {t[1]})
        return _rw(e[2], by_ref)
    if k == "un":
        return _rw(e[2], by_ref)
    if k == "cast":
        return _rw(e[2], by_ref)
    if k == "bin":
        l = _rw(e[2], by_ref)
        r = _rw(e[3], by_ref)
        if e[1] not in ("&&", "||"):
            if (l[1] & (r[0] | r[1])) or (r[1] & (l[0] | l[1])):
                raise _Conflict()
        return (l[0] | r[0], l[1] | r[1])
    if k == "comma":
        l = _rw(e[1], by_ref)
        r = _rw(e[2], by_ref)
        return (l[0] | r[0], l[1] | r[1])
    if k == "cond":
        c = _rw(e[1], by_ref)
        a = _rw(e[2], by_ref)
        b = _rw(e[3], by_ref)
        return (c[0] | a[0] | b[0], c[1] | a[1] | b[1])
    if k == "assign":
        t = cparse.strip_paren(e[2])
        r = _rw(e[3], by_ref)
        if t[0] != "id":
            l = _rw(e[2], by_ref)
            return (l[0] | r[0], l[1] | r[1])
        n = t[1]
        if n in r[1]:
            raise _Conflict()
        reads = set(r[0])
        if e[1] != "=":
            reads.add(n)
        return (reads, r[1] | {n})
    if k == "call":
        parts = [_rw(a, by_ref) for a in e[2]]
        f = cparse.strip_paren(e[1])
        if f[0] == "id" and f[1] in by_ref:
            for idx in by_ref[f[1]]:
                if idx < len(e[2]):
                    a = cparse.strip_paren(e[2][idx])
                    if a[0] == "id":
                        parts[idx] = (parts[idx][0], parts[idx][1] | {a[1]})
        for i in range(len(parts)):
            for j in range(i + 1, len(parts)):
                if (parts[i][1] & (parts[j][0] | parts[j][1])) or (parts[j][1] & (parts[i][0] | parts[i][1])):
                    raise _Conflict()
        rd, wr = set(), set()
        for p in parts:
            rd |= p[0]
            wr |= p[1]
        return (rd, wr)
    if k == "stmtexpr":
        rd, wr = set(), set()
        for it in e[1]:
            for fe in _full_exprs(it):
                p = _rw(fe, by_ref)
                rd |= p[0]
                wr |= p[1]
        return (rd, wr)
    if k in ("index", "member", "arrow"):
        return _rw(e[1], by_ref)
    return (set(), set())


def _full_exprs(s):
    k = s[0]
    if k == "expr":
        yield s[1]
    elif k == "decl":
        for (_n, init, _t) in s[3]:
            if init is not None:
                yield init
    elif k == "block":
        for it in s[1]:
            yield from _full_exprs(it)
    elif k == "if":
        yield s[1]
        yield from _full_exprs(s[2])
        if s[3] is not None:
            yield from _full_exprs(s[3])
    elif k == "for":
        if s[1] is not None:
            yield from _full_exprs(s[1])
        if s[2] is not None:
            yield s[2]
        if s[3] is not None:
            yield s[3]
        yield from _full_exprs(s[4])
    elif k in ("while", "switch"):
        yield s[1]
        yield from _full_exprs(s[2])
    elif k == "do":
        yield from _full_exprs(s[1])
        yield s[2]
    elif k == "return" and s[1] is not None:
        yield s[1]
    elif k in ("label",):
        yield from _full_exprs(s[2])
    elif k == "case":
        yield from _full_exprs(s[2])
    elif k == "default":
        yield from _full_exprs(s[1])


def has_unsequenced(body, routines=None):
    by_ref = {}
    for n, r in (routines or {}).items():
        idx = [i for i, (pt, _pn) in enumerate(r.params) if pt == ("regref",)]
        if idx:
            by_ref[n] = idx
    try:
        for fe in _full_exprs(body):
            _rw(fe, by_ref)
            for sub in _all_nodes(fe):
                if sub[0] == "stmtexpr":
                    for it in sub[1]:
                        for fe2 in _full_exprs(it):
                            _rw(fe2, by_ref)
    except _Conflict:
        return True
    return False


def _all_nodes(e):
    if isinstance(e, tuple) and e and isinstance(e[0], str):
        yield e
        for x in e[1:]:
            if isinstance(x, (tuple, list)):
                yield from _all_nodes(x)
    elif isinstance(e, list):
        for x in e:
            yield from _all_nodes(x)


def is_const_expr(e):
    """What the compiler folds at compile time: literals, sizeof, and + - ~ / + - * / comparisons of them."""
    e = cparse.strip_paren(e)
    k = e[0]
    if k in ("num", "sizeof_e", "sizeof_t"):
        return True
    if k == "un" and e[1] in ("+", "-", "~"):
        return is_const_expr(e[2])
    if k == "bin" and e[1] in ("+", "-", "*", "<", ">", "<=", ">=", "==", "!="):
        return is_const_expr(e[2]) and is_const_expr(e[3])
    return False
