"""Shared runner machinery: choice-point explorer (E1), parallel fan-out, evidence files,
known-finding bookkeeping, replay files.

Everything here is deliberately boring.  A check is a python module in vf.props with a
function run(ctx) that enumerates a finite space completely and reports each case through
ctx.  VERIF_SEED only permutes traversal order / partitioning, never selects a subset.
"""
import hashlib
import json
import multiprocessing
import os
import pickle
import random
import sys
import time
import traceback

VERIF = os.environ.get("VERIF_HOME", "/verif")
REPO = os.environ.get("VERIF_REPO", "/repo")
KNOWN_FINDINGS_FILE = os.path.join(VERIF, "known_findings.json")
NPROC = int(os.environ.get("VERIF_NPROC", "16"))


class HarnessError(Exception):
    """The harness itself is wrong (reference self-disagreement, replay divergence ...).
    Exit status 2.  Never a verdict about the code under test."""


# --------------------------------------------------------------------------------------
# E1: stateless choice-point explorer


class ReplayDivergence(HarnessError):
    pass


class Chooser:
    """choose(n) returns a value in range(n).  A run follows `prefix` and then takes
    alternative 0 at every further choice point; the explorer enumerates the rest."""

    def __init__(self, prefix=()):
        self.prefix = list(prefix)
        self.trace = []  # (chosen, n)

    def choose(self, n, label=None):
        if n <= 0:
            raise HarnessError("choose() with empty domain at %r" % (label,))
        i = len(self.trace)
        if i < len(self.prefix):
            c = self.prefix[i]
            if c >= n:
                raise ReplayDivergence(
                    "replayed choice %d out of range %d at point %d (%r)" % (c, n, i, label)
                )
        else:
            c = 0
        self.trace.append((c, n))
        return c

    def pick(self, seq, label=None):
        return seq[self.choose(len(seq), label)]

    @property
    def choices(self):
        return [c for c, _ in self.trace]


def explore(fn, prefix=()):
    """Depth-first enumeration of all complete choice sequences of fn(chooser).
    Yields (choices, result).  fn returning the sentinel SKIP is not yielded."""
    stack = [list(prefix)]
    while stack:
        pre = stack.pop()
        ch = Chooser(pre)
        res = fn(ch)
        tr = ch.trace
        if len(tr) < len(pre):
            raise ReplayDivergence("run consumed fewer choices than its prefix")
        # push alternatives (deepest first so that enumeration is lexicographic)
        alts = []
        for i in range(len(pre), len(tr)):
            c, n = tr[i]
            for alt in range(1, n):
                alts.append([x for x, _ in tr[:i]] + [alt])
        for a in reversed(alts):
            stack.append(a)
        if res is not SKIP:
            yield ch.choices, res


SKIP = object()


def enumerate_all(fn):
    return list(explore(fn))


# --------------------------------------------------------------------------------------
# parallel fan-out over forked workers (the parent has imported and constructed whatever
# is expensive, e.g. the Compiler; workers inherit it)

_WORK_FN = None
_WORK_ITEMS = None


def _run_chunk(idx_range):
    lo, hi = idx_range
    out = []
    for i in range(lo, hi):
        try:
            out.append((i, _WORK_FN(_WORK_ITEMS[i])))
        except HarnessError as e:
            out.append((i, ("__harness_error__", "%s\n%s" % (e, traceback.format_exc()))))
        except Exception as e:  # a bug in the harness, never a verdict
            out.append((i, ("__harness_error__", "%r\n%s" % (e, traceback.format_exc()))))
    return out


def pmap(fn, items, seed=0, chunk=None, nproc=None):
    """Deterministic parallel map: result list is in item order whatever the schedule.
    The seed permutes which chunk is handed out first (coverage does not depend on it)."""
    global _WORK_FN, _WORK_ITEMS
    items = list(items)
    n = len(items)
    if n == 0:
        return []
    nproc = nproc or NPROC
    if chunk is None:
        chunk = max(1, min(64, n // (nproc * 8) or 1))
    ranges = [(i, min(n, i + chunk)) for i in range(0, n, chunk)]
    random.Random(seed).shuffle(ranges)
    _WORK_FN, _WORK_ITEMS = fn, items
    res = [None] * n
    if nproc == 1 or n == 1:
        for r in ranges:
            for i, v in _run_chunk(r):
                res[i] = v
    else:
        ctx = multiprocessing.get_context("fork")
        with ctx.Pool(min(nproc, len(ranges))) as pool:
            for part in pool.imap_unordered(_run_chunk, ranges):
                for i, v in part:
                    res[i] = v
    _WORK_FN = _WORK_ITEMS = None
    for v in res:
        if isinstance(v, tuple) and len(v) == 2 and v[0] == "__harness_error__":
            raise HarnessError(v[1])
    return res


def fresh_call(fn, *args):
    """Run fn(*args) in a forked child and return its (picklable) result.  fork is the
    snapshot/restore mechanism: whatever the call does to module/class/instance state is
    discarded, so every call starts from the parent's state S0."""
    r, w = os.pipe()
    pid = os.fork()
    if pid == 0:
        os.close(r)
        try:
            try:
                out = ("ok", fn(*args))
            except BaseException as e:  # noqa
                out = ("exc", type(e).__name__, str(e)[:2000], traceback.format_exc()[-3000:])
            data = pickle.dumps(out)
            with os.fdopen(w, "wb") as f:
                f.write(data)
        finally:
            os._exit(0)
    os.close(w)
    with os.fdopen(r, "rb") as f:
        data = f.read()
    os.waitpid(pid, 0)
    if not data:
        raise HarnessError("forked child died without a result")
    return pickle.loads(data)


# --------------------------------------------------------------------------------------
# known findings


def load_known_findings(pid):
    if not os.path.exists(KNOWN_FINDINGS_FILE):
        return {}
    with open(KNOWN_FINDINGS_FILE) as f:
        data = json.load(f)
    out = {}
    for e in data.get("findings", []):
        if e.get("status") != "open":
            continue  # a fixed entry suppresses nothing
        if pid in e.get("properties", []):
            out[e["id"]] = e
    return out


# --------------------------------------------------------------------------------------
# context of one check run


IDENT_KEYS = ("program", "source", "part", "insn", "parts", "construct", "position", "origin", "column", "layout", "sp", "spelling", "variant", "kind", "history", "event", "behaviour", "text", "case", "routine", "items", "name", "input", "k", "instance")


def case_ident(case):
    """Identity of the input of a reported case (what was compiled / parsed / run), without the observed values."""
    d = {k: case[k] for k in IDENT_KEYS if k in case}
    if not d:
        d = {k: v for k, v in case.items() if k not in ("first_bad", "n_bad_states", "explained_by", "triggered_rules", "errors", "static", "returned_text_tail", "unsequenced_or_leaked", "detail", "why", "meta", "observed", "fresh")}
    return hashlib.sha256(json.dumps(d, sort_keys=True, default=str).encode()).hexdigest()[:14]


def stable_hash(obj):
    return hashlib.sha256(json.dumps(obj, sort_keys=True, default=str).encode()).hexdigest()[:16]


class Ctx:
    def __init__(self, pid, tier, seed, level):
        self.pid = pid
        self.tier = tier
        self.seed = seed
        self.level = level
        self.t0 = time.time()
        self.known = load_known_findings(pid)
        self.known_hits = {}  # finding id -> [count, first description]
        self.known_cases = []  # (finding ids, input identity, case, what)
        self.violations = []  # replay paths
        self.n_violation_cases = 0
        self.cov = {}
        self.samples = []
        self.assumptions = []
        self.notes = []
        self.max_violation_lines = int(os.environ.get("VERIF_MAX_VIOLATIONS", "25"))

    # ---- reporting
    def log(self, *a):
        print("[%s %.1fs]" % (self.pid, time.time() - self.t0), *a, flush=True)

    def sample(self, case, limit=6):
        if len(self.samples) < limit:
            self.samples.append(case)

    def count(self, key, n=1):
        self.cov[key] = self.cov.get(key, 0) + n

    def report(self, case, finding_ids=None, what=""):
        """A case on which the property does not hold.  finding_ids: the known-finding ids
        that *completely* explain this case (computed by the check from its deviation rules);
        None/empty -> new violation."""
        if finding_ids:
            missing = [f for f in finding_ids if f not in self.known]
            if not missing:
                for f in finding_ids:
                    h = self.known_hits.setdefault(f, [0, what or json.dumps(case, default=str)[:200]])
                    h[0] += 1
                # the case is only *provisionally* excused: finish() compares the inputs on which each finding
                # reproduced with the committed footprint of that finding
                self.known_cases.append((tuple(sorted(finding_ids)), case_ident(case), case, what))
                return False
            case = dict(case)
            case["explained_by_unlisted_rules"] = missing
        self.n_violation_cases += 1
        if len(self.violations) < self.max_violation_lines:
            path = self.write_replay(case)
            self.violations.append(path)
            print("VIOLATION property=%s replay=%s" % (self.pid, path), flush=True)
            if what:
                print("  " + what[:400], flush=True)
        return True

    def write_replay(self, case):
        d = os.path.join(VERIF, "replays", self.pid)
        os.makedirs(d, exist_ok=True)
        case = dict(case)
        case.setdefault("property", self.pid)
        path = os.path.join(d, "%s.json" % stable_hash(case))
        with open(path, "w") as f:
            json.dump(case, f, indent=1, sort_keys=True, default=str)
        return path

    # ---- footprint of the known findings
    def check_footprint(self):
        """A known finding is identified by the inputs on which it fails: the committed footprint lists, per finding,
        the inputs of this check's space on which it reproduced when the finding was recorded.  The same rule
        'explaining' a failure on another input means the defect reaches further than recorded (or something else
        broke that happens to look alike): that is a violation, not a known finding."""
        path = os.path.join(VERIF, "baselines", "footprint_%s_%s.json" % (self.pid, self.tier))
        now = {}
        for fids, ident, _case, _what in self.known_cases:
            now.setdefault("+".join(fids), set()).add(ident)
        if os.environ.get("VERIF_MAKE_BASELINE") == "1":
            if os.path.realpath(REPO) != "/repo":
                raise HarnessError("baselines are only written from runs against /repo")
            os.makedirs(os.path.dirname(path), exist_ok=True)
            with open(path, "w") as f:
                json.dump({k: sorted(v) for k, v in sorted(now.items())}, f, indent=0)
            self.log("footprint of known findings written: %s" % {k: len(v) for k, v in sorted(now.items())})
        if not self.known_cases and not os.path.exists(path):
            return 0
        if not os.path.exists(path):
            if self.tier == "quick":
                raise HarnessError("missing footprint %s (run once with VERIF_MAKE_BASELINE=1)" % path)
            # no footprint was recorded for this tier: the findings are identified by their rule only
            self.cov["known_finding_footprint_recorded"] = False
            return 0
        self.cov["known_finding_footprint_recorded"] = True
        base = {k: set(v) for k, v in json.load(open(path)).items()}
        n_new = 0
        for fids, ident, case, what in self.known_cases:
            k = "+".join(fids)
            if ident in base.get(k, ()):
                continue
            n_new += 1
            for f in fids:
                self.known_hits[f][0] -= 1
            case = dict(case)
            case["known_finding_on_new_input"] = list(fids)
            self.n_violation_cases += 1
            if len(self.violations) < self.max_violation_lines:
                rp = self.write_replay(case)
                self.violations.append(rp)
                print("VIOLATION property=%s replay=%s" % (self.pid, rp), flush=True)
                print("  fails like %s but on an input outside the recorded footprint of that finding: %s" % (k, (what or "")[:300]), flush=True)
        for f in [f for f, h in self.known_hits.items() if h[0] <= 0]:
            del self.known_hits[f]
        return n_new

    # ---- finish
    def finish(self, coverage, assumptions=None):
        n_new_inputs = self.check_footprint()
        cov = dict(self.cov)
        cov.update(coverage)
        cov["known_finding_cases_outside_recorded_footprint"] = n_new_inputs
        cov.setdefault("samples", self.samples or [{"note": "no sample recorded"}])
        if self.known_hits:
            cov["known_findings_reproduced"] = {k: v[0] for k, v in sorted(self.known_hits.items())}
        stale = sorted(set(self.known) - set(self.known_hits))
        if stale:
            cov["known_findings_not_reproduced_in_this_run"] = stale
        ev = {
            "property_id": self.pid,
            "tier": self.tier,
            "seed": self.seed,
            "level": self.level,
            "coverage": cov,
            "assumptions": list(assumptions or []) + self.assumptions,
            "wall_s": round(time.time() - self.t0, 2),
            "violations": self.n_violation_cases,
        }
        # runs against another checkout (VERIF_REPO: seeded changes, scratch worktrees) must not rewrite the evidence of /repo
        evdir = os.environ.get("VERIF_EVIDENCE_DIR") or os.path.join(VERIF, "evidence")
        if not os.environ.get("VERIF_EVIDENCE_DIR") and os.path.realpath(REPO) != "/repo":
            evdir = os.path.join("/tmp", "verif_evidence_other_checkout")
        os.makedirs(evdir, exist_ok=True)
        path = os.path.join(evdir, "%s.json" % self.pid)
        tmp = path + ".tmp"
        with open(tmp, "w") as f:
            json.dump(ev, f, indent=1, sort_keys=True, default=str)
        os.replace(tmp, path)
        for fid, (n, what) in sorted(self.known_hits.items()):
            print("KNOWN-FINDING: property=%s %s %s (%d cases)" % (self.pid, fid, self.known[fid].get("rule", what)[:160], n), flush=True)
        for fid in stale:
            if self.known[fid].get("tiers") and self.tier not in self.known[fid]["tiers"]:
                continue
            print("STALE-FINDING: property=%s %s did not reproduce in this run" % (self.pid, fid), flush=True)
        if self.n_violation_cases:
            self.log("FAIL: %d violating cases (%d replay files written)" % (self.n_violation_cases, len(self.violations)))
            return 1
        self.log("ok  " + " ".join("%s=%s" % (k, v) for k, v in cov.items() if isinstance(v, (int, float, bool)) and not isinstance(v, dict)))
        return 0


def quiet_tqdm():
    """tqdm 4.64 has no TQDM_DISABLE; make the library's progress bars silent."""
    import tqdm as _t

    real = _t.tqdm

    class Quiet(real):
        def __init__(self, *a, **k):
            k["disable"] = True
            super().__init__(*a, **k)

    _t.tqdm = Quiet
    if hasattr(_t, "std"):
        _t.std.tqdm = Quiet


def silence_repo_logging():
    import rzilcompiler.Helper as H

    def _log(*a, **k):
        return None

    H.log = _log
    import rzilcompiler.Compiler as C

    C.log = _log
    try:
        import rzilcompiler.HexagonExtensions as HE

        HE.log = _log
    except Exception:
        pass
