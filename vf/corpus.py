"""The bundled corpus through the real pipeline: load -> parse (cached by grammar) -> transform
(each instruction from the same fresh state, in a forked child)."""
from vf import core, drive

_STATE = {}


def parsed_corpus(seed=0):
    """-> (behaviors: name->[parts], cache).  cache.get(text) -> ('ok', tree)|('err', cls, msg)"""
    if "pc" in _STATE:
        return _STATE["beh"], _STATE["pc"]
    beh = drive.load_corpus()
    pc = drive.ParseCache("corpus")
    texts = [p for parts in beh.values() for p in parts]
    pc.ensure(texts, seed=seed)
    pc.save()
    _STATE["beh"], _STATE["pc"] = beh, pc
    return beh, pc


_JOB = {}


def _transform_one(name):
    comp = _JOB["comp"]
    parts = _JOB["beh"][name]
    pc = _JOB["pc"]
    trees = []
    for p in parts:
        r = pc.get(p)
        if r[0] != "ok":
            return name, ("parse_error", r[1])
        trees.append(r[1])
    r = drive.transform_fresh(comp, name, trees, parts)
    if r[0] == "ok":
        return name, ("ok", r[1])
    return name, ("transform_error", r[1], r[2])


def compile_corpus(fmt="stmt", seed=0, names=None):
    """name -> ('ok', result dict) | ('parse_error', cls) | ('transform_error', cls, msg)"""
    beh, pc = parsed_corpus(seed)
    comp = drive.get_compiler(fmt)
    _JOB.update(comp=comp, beh=beh, pc=pc)
    names = sorted(beh) if names is None else names
    return dict(core.pmap(_transform_one, names, seed=seed))
