"""E3 (front end): independent tokeniser and precedence-climbing parser for the shortcode
dialect of C, written from the C11 grammar (6.5, 6.7, 6.8) - not from grammar.lark.

AST nodes are tuples whose first element is the node kind.

Expressions
  ('num', value, (signed, width), spelling)      ('fnum', text)        ('str', text)
  ('id', name)
  ('un', op, e)            op in + - ~ ! * & ++ --  (prefix)
  ('post', op, e)          op in ++ --
  ('bin', op, a, b)        * / % + - << >> < > <= >= == != & ^ | && ||
  ('cond', c, a, b)
  ('assign', op, lhs, rhs) op in = *= /= %= += -= <<= >>= &= ^= |=
  ('comma', a, b)
  ('cast', type, e)        type = (signed, width) | ('float', w) | ('void',) | ('ptr', ...) | ('named', text)
  ('call', name_expr, [args])
  ('sizeof_e', e)  ('sizeof_t', type)
  ('stmtexpr', [items])    GCC ({ ... })
  ('index', a, i)  ('member', a, name)  ('arrow', a, name)  ('complit', type, text)
Statements
  ('decl', type, quals, [(name, init|None)])
  ('expr', e)  ('empty',)  ('block', [items])
  ('if', c, then, else|None)  ('for', init|None, cond|None, step|None, body)
  ('while', c, body)  ('do', body, c)  ('switch', e, body)
  ('break',) ('continue',) ('goto', label) ('label', name, stmt) ('case', e, stmt) ('default', stmt)
  ('return', e|None)
"""
import re


class CSyntaxError(Exception):
    pass


PUNCT = [
    "<<=", ">>=", "...", "->", "++", "--", "<<", ">>", "<=", ">=", "==", "!=", "&&", "||",
    "*=", "/=", "%=", "+=", "-=", "&=", "^=", "|=",
    "(", ")", "[", "]", "{", "}", ".", "&", "*", "+", "-", "~", "!", "/", "%", "<", ">", "^", "|", "?", ":", ";", "=", ",",
]
_P = "|".join(re.escape(p) for p in PUNCT)
TOKEN = re.compile(
    r"""\s*(?:
      (?P<fnum>(?:\d+\.\d*|\.\d+)(?:[eE][+-]?\d+)?[fFlL]?|\d+[eE][+-]?\d+[fFlL]?)
    | (?P<num>0[xX][0-9a-fA-F]+|\d+)(?P<suf>[uUlL]*)(?![\w.])
    | (?P<id>[RCPVQMGS][0-3]{1,2}:[0-3]{1,2}(?:_NEW)?(?!\w)|[A-Za-z_]\w*)
    | (?P<str>"(?:[^"\\]|\\.)*")
    | (?P<chr>'(?:[^'\\]|\\.)+')
    | (?P<p>%s)
    )"""
    % _P,
    re.X,
)


def tokenize(s):
    out = []
    i = 0
    n = len(s)
    while i < n:
        m = TOKEN.match(s, i)
        if not m:
            if s[i:].strip() == "":
                break
            raise CSyntaxError("bad token at %r" % s[i : i + 20])
        i = m.end()
        if m.group("fnum") is not None:
            out.append(("fnum", m.group("fnum")))
        elif m.group("num") is not None:
            out.append(("num", m.group("num"), m.group("suf")))
        elif m.group("id") is not None:
            out.append(("id", m.group("id")))
        elif m.group("str") is not None:
            out.append(("str", m.group("str")))
        elif m.group("chr") is not None:
            out.append(("chr", m.group("chr")))
        else:
            out.append(("p", m.group("p")))
    return out


# ---- literal typing, C11 6.4.4.1 (LP64: int 32, long 64, long long 64)


def literal_type(text, suffix):
    base10 = not (text[:2].lower() == "0x" or (len(text) > 1 and text[0] == "0"))
    if text[:2].lower() == "0x":
        v = int(text, 16)
    elif len(text) > 1 and text[0] == "0":
        v = int(text, 8)
    else:
        v = int(text, 10)
    suf = suffix.lower()
    if suf not in ("", "u", "l", "ul", "lu", "ll", "ull", "llu"):
        raise CSyntaxError("bad integer suffix %r" % suffix)
    uns = "u" in suf
    long_ = "l" in suf
    cands = []
    if uns:
        if not long_:
            cands.append((False, 32))
        cands.append((False, 64))
    else:
        if not long_:
            cands.append((True, 32))
            if not base10:
                cands.append((False, 32))
        cands.append((True, 64))
        if not base10:
            cands.append((False, 64))
    for s, w in cands:
        if (s and v < (1 << (w - 1))) or (not s and v < (1 << w)):
            return v, (s, w)
    raise CSyntaxError("integer literal %s%s has no type" % (text, suffix))


TYPE_WORDS = {"void", "char", "short", "int", "long", "float", "double", "signed", "unsigned", "_Bool", "const", "volatile", "static", "register", "struct", "union", "enum", "restrict", "auto", "extern", "typedef", "inline"}
TYPEDEF_RE = re.compile(r"^(u?int(8|16|32|64)_t|size(1|2|4|8|16)[su]_t|bool|size_t)$")
KEYWORDS = TYPE_WORDS | {"if", "else", "for", "while", "do", "switch", "case", "default", "break", "continue", "goto", "return", "sizeof"}


def is_type_start(tok):
    return tok[0] == "id" and (tok[1] in TYPE_WORDS or TYPEDEF_RE.match(tok[1]) is not None)


BINPREC = {
    "*": 10, "/": 10, "%": 10,
    "+": 9, "-": 9,
    "<<": 8, ">>": 8,
    "<": 7, ">": 7, "<=": 7, ">=": 7,
    "==": 6, "!=": 6,
    "&": 5, "^": 4, "|": 3, "&&": 2, "||": 1,
}
ASSIGN_OPS = {"=", "*=", "/=", "%=", "+=", "-=", "<<=", ">>=", "&=", "^=", "|="}


class Parser:
    def __init__(self, text):
        self.t = tokenize(text)
        self.i = 0

    def peek(self, k=0):
        j = self.i + k
        return self.t[j] if j < len(self.t) else ("eof",)

    def next(self):
        x = self.peek()
        self.i += 1
        return x

    def at(self, p):
        x = self.peek()
        return x[0] == "p" and x[1] == p

    def at_kw(self, w):
        x = self.peek()
        return x[0] == "id" and x[1] == w

    def accept(self, p):
        if self.at(p):
            self.i += 1
            return True
        return False

    def expect(self, p):
        if not self.accept(p):
            raise CSyntaxError("expected %r, got %r" % (p, self.peek()))

    # ---- types
    def type_name(self):
        """declaration-specifiers (+ abstract pointer declarator).  -> (type, quals)"""
        words = []
        quals = set()
        while True:
            x = self.peek()
            if x[0] != "id":
                break
            w = x[1]
            if w in ("const", "volatile", "static", "register", "restrict", "auto", "extern", "inline", "typedef"):
                quals.add(w)
                self.i += 1
                continue
            if w in ("struct", "union", "enum"):
                self.i += 1
                tag = self.next()
                words.append(w + " " + (tag[1] if len(tag) > 1 else "?"))
                continue
            if w in TYPE_WORDS or TYPEDEF_RE.match(w):
                words.append(w)
                self.i += 1
                continue
            break
        if not words:
            raise CSyntaxError("type expected at %r" % (self.peek(),))
        t = resolve_type(words)
        while self.at("*"):
            self.i += 1
            while self.at_kw("const") or self.at_kw("volatile") or self.at_kw("restrict"):
                self.i += 1
            t = ("ptr", t)
        return t, quals

    # ---- expressions
    def primary(self):
        x = self.next()
        k = x[0]
        if k == "num":
            v, ty = literal_type(x[1], x[2])
            return ("num", v, ty, x[1] + x[2])
        if k == "fnum":
            return ("fnum", x[1])
        if k == "str":
            return ("str", x[1])
        if k == "chr":
            body = x[1][1:-1]
            return ("num", ord(body[-1]), (True, 32), x[1])
        if k == "id":
            if x[1] in KEYWORDS and x[1] != "sizeof":
                raise CSyntaxError("keyword %r in expression" % x[1])
            return ("id", x[1])
        if k == "p" and x[1] == "(":
            if self.at("{"):
                items = self.block_items_braced()
                self.expect(")")
                return ("stmtexpr", items)
            e = self.expr()
            self.expect(")")
            return ("paren", e)
        raise CSyntaxError("unexpected %r in expression" % (x,))

    def postfix(self):
        e = self.primary()
        while True:
            if self.at("("):
                self.i += 1
                args = []
                if not self.at(")"):
                    while True:
                        args.append(self.assignment())
                        if not self.accept(","):
                            break
                self.expect(")")
                e = ("call", e, args)
            elif self.at("["):
                self.i += 1
                ix = self.expr()
                self.expect("]")
                e = ("index", e, ix)
            elif self.at("."):
                self.i += 1
                e = ("member", e, self.next()[1])
            elif self.at("->"):
                self.i += 1
                e = ("arrow", e, self.next()[1])
            elif self.at("++") or self.at("--"):
                e = ("post", self.next()[1], e)
            else:
                return e

    def unary(self):
        x = self.peek()
        if x[0] == "p" and x[1] in ("++", "--"):
            self.i += 1
            return ("un", x[1], self.unary())
        if x[0] == "p" and x[1] in ("+", "-", "~", "!", "*", "&"):
            self.i += 1
            return ("un", x[1], self.cast())
        if x[0] == "id" and x[1] == "sizeof":
            self.i += 1
            if self.at("(") and is_type_start(self.peek(1)):
                self.i += 1
                t, _ = self.type_name()
                self.expect(")")
                return ("sizeof_t", t)
            return ("sizeof_e", self.unary())
        return self.postfix()

    def cast(self):
        if self.at("(") and is_type_start(self.peek(1)):
            save = self.i
            self.i += 1
            t, _ = self.type_name()
            self.expect(")")
            if self.at("{"):
                # compound literal
                depth = 0
                start = self.i
                while True:
                    y = self.next()
                    if y == ("p", "{"):
                        depth += 1
                    elif y == ("p", "}"):
                        depth -= 1
                        if depth == 0:
                            break
                    elif y[0] == "eof":
                        raise CSyntaxError("unterminated compound literal")
                return ("complit", t, self.i - start)
            return ("cast", t, self.cast())
        return self.unary()

    def binary(self, minprec):
        lhs = self.cast()
        while True:
            x = self.peek()
            if x[0] != "p" or x[1] not in BINPREC or BINPREC[x[1]] < minprec:
                return lhs
            op = x[1]
            self.i += 1
            rhs = self.binary(BINPREC[op] + 1)
            lhs = ("bin", op, lhs, rhs)

    def conditional(self):
        c = self.binary(1)
        if self.accept("?"):
            a = self.expr()
            self.expect(":")
            b = self.conditional()
            return ("cond", c, a, b)
        return c

    def assignment(self):
        lhs = self.conditional()
        x = self.peek()
        if x[0] == "p" and x[1] in ASSIGN_OPS:
            if not is_unary_form(lhs):
                raise CSyntaxError("assignment to a non-unary expression")
            self.i += 1
            rhs = self.assignment()
            return ("assign", x[1], lhs, rhs)
        return lhs

    def expr(self):
        e = self.assignment()
        while self.accept(","):
            e = ("comma", e, self.assignment())
        return e

    # ---- statements
    def block_items_braced(self):
        self.expect("{")
        items = []
        while not self.at("}"):
            if self.peek()[0] == "eof":
                raise CSyntaxError("unterminated block")
            items.append(self.block_item())
        self.expect("}")
        return items

    def block_item(self):
        if is_type_start(self.peek()):
            return self.declaration()
        return self.statement()

    def declaration(self):
        t, quals = self.type_name()
        decls = []
        if not self.at(";"):
            while True:
                ptr = 0
                while self.accept("*"):
                    ptr += 1
                nm = self.next()
                if nm[0] != "id" or nm[1] in KEYWORDS:
                    raise CSyntaxError("declarator name expected, got %r" % (nm,))
                tt = t
                for _ in range(ptr):
                    tt = ("ptr", tt)
                arr = None
                while self.at("["):
                    self.i += 1
                    arr = None if self.at("]") else self.assignment()
                    self.expect("]")
                    tt = ("array", tt, arr)
                init = None
                if self.accept("="):
                    if self.at("{"):
                        raise CSyntaxError("brace initialiser not in the dialect")
                    init = self.assignment()
                decls.append((nm[1], init, tt))
                if not self.accept(","):
                    break
        self.expect(";")
        return ("decl", t, tuple(sorted(quals)), decls)

    def statement(self):
        x = self.peek()
        if x == ("p", "{"):
            items = self.block_items_braced()
            self.accept(";") if False else None
            return ("block", items)
        if x == ("p", ";"):
            self.i += 1
            return ("empty",)
        if x[0] == "id":
            w = x[1]
            if w == "if":
                self.i += 1
                self.expect("(")
                c = self.expr()
                self.expect(")")
                th = self.statement()
                el = None
                if self.at_kw("else"):
                    self.i += 1
                    el = self.statement()
                return ("if", c, th, el)
            if w == "for":
                self.i += 1
                self.expect("(")
                if is_type_start(self.peek()):
                    init = self.declaration()
                elif self.accept(";"):
                    init = None
                else:
                    init = ("expr", self.expr())
                    self.expect(";")
                cond = None if self.at(";") else self.expr()
                self.expect(";")
                step = None if self.at(")") else self.expr()
                self.expect(")")
                return ("for", init, cond, step, self.statement())
            if w == "while":
                self.i += 1
                self.expect("(")
                c = self.expr()
                self.expect(")")
                return ("while", c, self.statement())
            if w == "do":
                self.i += 1
                body = self.statement()
                if not self.at_kw("while"):
                    raise CSyntaxError("while expected after do body")
                self.i += 1
                self.expect("(")
                c = self.expr()
                self.expect(")")
                self.expect(";")
                return ("do", body, c)
            if w == "switch":
                self.i += 1
                self.expect("(")
                e = self.expr()
                self.expect(")")
                return ("switch", e, self.statement())
            if w == "break":
                self.i += 1
                self.expect(";")
                return ("break",)
            if w == "continue":
                self.i += 1
                self.expect(";")
                return ("continue",)
            if w == "goto":
                self.i += 1
                lab = self.next()[1]
                self.expect(";")
                return ("goto", lab)
            if w == "return":
                self.i += 1
                e = None if self.at(";") else self.expr()
                self.expect(";")
                return ("return", e)
            if w == "case":
                self.i += 1
                e = self.conditional()
                self.expect(":")
                return ("case", e, self.statement())
            if w == "default":
                self.i += 1
                self.expect(":")
                return ("default", self.statement())
            if w == "else":
                raise CSyntaxError("else without if")
            if self.peek(1) == ("p", ":") and w not in KEYWORDS:
                self.i += 2
                return ("label", w, self.statement())
        e = self.expr()
        self.expect(";")
        return ("expr", e)

    def body(self):
        """A behaviour: a brace block (optionally followed by ';'), or a sequence of statements."""
        items = []
        while self.peek()[0] != "eof":
            items.append(self.block_item())
        if len(items) == 1 and items[0][0] == "block":
            return items[0]
        return ("block", items)


def is_unary_form(e):
    return e[0] in ("id", "num", "paren", "un", "post", "call", "index", "member", "arrow", "str", "stmtexpr", "sizeof_e", "sizeof_t", "complit", "fnum")


def resolve_type(words):
    ws = [w for w in words]
    if len(ws) == 1:
        w = ws[0]
        m = re.match(r"^(u?)int(\d+)_t$", w)
        if m:
            return (m.group(1) != "u", int(m.group(2)))
        m = re.match(r"^size(\d+)([su])_t$", w)
        if m:
            return (m.group(2) == "s", 8 * int(m.group(1)))
        if w == "size_t":
            return (False, 64)
        if w in ("bool", "_Bool"):
            return ("bool",)
        if w == "void":
            return ("void",)
        if w == "float":
            return ("float", 32)
        if w == "double":
            return ("float", 64)
    if any(w.split(" ")[0] in ("struct", "union", "enum") for w in ws):
        return ("named", " ".join(ws))
    s = None
    base = None
    longs = 0
    for w in ws:
        if w == "signed":
            s = True
        elif w == "unsigned":
            s = False
        elif w == "long":
            longs += 1
        elif w in ("int", "char", "short"):
            base = w if base in (None, "int") or w != "int" else base
        else:
            return ("named", " ".join(ws))
    if base == "char":
        return (True if s is None else s, 8)
    if base == "short":
        return (True if s is None else s, 16)
    if longs:
        return (True if s is None else s, 64)
    return (True if s is None else s, 32)


def parse_behaviour(text):
    p = Parser(text)
    b = p.body()
    return b


def parse_expression(text):
    p = Parser(text)
    e = p.expr()
    if p.peek()[0] != "eof":
        raise CSyntaxError("trailing tokens")
    return e


def strip_paren(e):
    while e[0] == "paren":
        e = e[1]
    return e
