"""Deviation rules: each known finding of a value-level property is a named, local change of
one typing/evaluation rule of the C reference (value rules, implemented in vf.ceval under
`rule id in self.D`), or a (sort-checker message, producing construct) pair (static rules).

A disagreement between IL and the strict reference is attributed to known findings only if
the IL outcome equals cref(D) on *every* comparable state of the program, for a set D of rules
whose syntactic trigger occurs in the program - so a different defect, or a known one that
changes shape, is still a violation.
"""
import re

from vf import cparse


def walk(e):
    """All AST nodes (expressions and statements) in pre-order."""
    if isinstance(e, tuple):
        yield e
        for x in e[1:]:
            if isinstance(x, (tuple, list)):
                yield from walk(x)
    elif isinstance(e, list):
        for x in e:
            yield from walk(x)


def has(cast, pred):
    return any(pred(n) for n in walk(cast) if isinstance(n, tuple) and n and isinstance(n[0], str))


class Rule:
    def __init__(self, id, kind, finding, trigger, il_msg=None, doc=""):
        self.id, self.kind, self.finding, self.trigger, self.il_msg, self.doc = id, kind, finding, trigger, il_msg, doc


def t_shift(c, ops, cp):
    return has(c, lambda n: (n[0] == "bin" and n[1] in ("<<", ">>")) or (n[0] == "assign" and n[1] in ("<<=", ">>=")))


def t_cmp_or_cond(c, ops, cp):
    return has(c, lambda n: (n[0] == "bin" and n[1] in ("<", ">", "<=", ">=", "==", "!=")) or n[0] == "cond")


def t_always(c, ops, cp):
    return True


def t_div(c, ops, cp):
    return has(c, lambda n: (n[0] == "bin" and n[1] in ("/", "%")) or (n[0] == "assign" and n[1] in ("/=", "%=")))


def t_logical(c, ops, cp):
    return has(c, lambda n: (n[0] == "bin" and n[1] in ("&&", "||")) or (n[0] == "un" and n[1] == "!"))


def is_boolish(e):
    e = cparse.strip_paren(e)
    return (e[0] == "bin" and e[1] in ("<", ">", "<=", ">=", "==", "!=", "&&", "||")) or (e[0] == "un" and e[1] == "!")


def t_bool_operand(c, ops, cp):
    def pred(n):
        if n[0] == "bin" and n[1] not in ("&&", "||"):
            return is_boolish(n[2]) or is_boolish(n[3])
        if n[0] == "un" and n[1] in ("~", "-", "+"):
            return is_boolish(n[2])
        if n[0] == "cond":
            return is_boolish(n[2]) or is_boolish(n[3])
        if n[0] == "assign" and n[1] != "=":
            return is_boolish(n[3])
        return False

    return has(c, pred)


def t_compound_assign(c, ops, cp):
    return has(c, lambda n: n[0] == "assign" and n[1] != "=")


def t_chained_assign(c, ops, cp):
    return has(c, lambda n: n[0] == "assign" and cparse.strip_paren(n[3])[0] == "assign")


def t_hybrid(c, ops, cp):
    return has(c, lambda n: n[0] in ("post", "stmtexpr") or (n[0] == "call"))


def t_sizeof(c, ops, cp):
    return has(c, lambda n: n[0] in ("sizeof_e", "sizeof_t"))


def t_const_cond(c, ops, cp):
    from vf import ceval

    return has(c, lambda n: n[0] == "cond" and ceval.is_const_expr(n[1]))


def t_neg_literal(c, ops, cp):
    from vf import ceval

    return has(c, lambda n: n[0] == "un" and n[1] == "-" and ceval.is_const_expr(n[2]))


def t_call(c, ops, cp):
    return has(c, lambda n: n[0] == "call")


def t_neg_or_not_literal(c, ops, cp):
    from vf import ceval

    return has(c, lambda n: n[0] == "un" and n[1] in ("-", "~") and ceval.is_const_expr(n[2]))


def t_literal(c, ops, cp):
    return has(c, lambda n: n[0] == "num")


RULES = [
    Rule("widen-signed-to-unsigned-zero", "value", "KF-widen-signed-to-unsigned-zero", t_always, doc="signed -> wider unsigned zero-extends"),
    Rule("div-unsigned", "value", "KF-div-unsigned", t_div, doc="/ and % are computed unsigned whatever the common type"),
    Rule("hybrid-eager", "value", "KF-hybrid-eager", t_hybrid,
         doc="value-producing side effects are computed before the statement that consumes them: not guarded by enclosing ?: arms (only a statement-expression that is directly an arm, by the innermost condition), "
             "by && / ||, and computed once for a loop condition"),
    Rule("return-does-not-leave", "value", "KF-return-does-not-leave", t_call, doc="a return statement does not leave the sub-routine: later statements still run and the last return executed determines the value"),
    Rule("return-via-u64", "value", "KF-return-via-u64", t_call, doc="the return value is zero-extended into the unsigned 64-bit ret_val and truncated to the return type by the caller, instead of being converted to the return type"),
    Rule("chained-assign-outer-first", "value", "KF-chained-assign-outer-first", t_chained_assign,
         doc="x = y = E: both assignments evaluate the (shared) right operand themselves, the outer one first; wrong when E reads x"),
    Rule("compound-src-precast", "value", "KF-compound-src-precast", t_compound_assign, doc="the right operand of a compound assignment is converted to the type of the target before the operation"),
    Rule("unary-fold-unreduced", "value", "KF-unary-fold-unreduced", t_neg_or_not_literal, doc="a folded ~ or - of a constant keeps its mathematical value (not reduced to its type) when it is an operand of another fold"),
    Rule("neg-literal-signed", "value", "KF-neg-literal-signed", t_neg_literal, doc="the folded negation of a constant is typed signed (-1U becomes -1)"),
    Rule("const-cond-no-conversion", "value", "KF-const-cond-no-conversion", t_const_cond, doc="a ?: with a compile-time constant condition yields the live arm without converting it to the common type of both arms"),
    Rule("const-cond-dead-arm", "static", "KF-const-cond-dead-arm", t_const_cond, il_msg=r"^undeclared|^unset-local|identifier \\w+ is not|does not hold",
         doc="dead arm of a constant ?: removes operands that live code uses"),
]
BY_ID = {r.id: r for r in RULES}
FINDING_OF = {r.id: r.finding for r in RULES}
FINDING_OF["callee-locals-share-namespace"] = "KF-callee-locals-share-namespace"


def triggered(cast, ops, cp):
    return [r for r in RULES if r.trigger(cast, ops, cp)]


def explain_il_errors(msgs, cands, cp):
    """-> set of static rule ids that explain all the run-time IL errors, or None."""
    out = set()
    for msg in msgs:
        ok = False
        for r in cands:
            if r.kind == "static" and r.il_msg and re.search(r.il_msg, msg):
                out.add(r.id)
                ok = True
                break
        if not ok:
            return None
    return out or None


REJECTION_RULES = []  # (finding id, predicate(result dict))


def rejection_finding(r):
    for fid, pred in REJECTION_RULES:
        if pred(r):
            return [fid]
    return None


MUST_REJECT_RULES = []  # (finding id, predicate(result dict))


def must_reject_finding(r):
    for fid, pred in MUST_REJECT_RULES:
        if pred(r):
            return [fid]
    return None
