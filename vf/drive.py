"""Driving the real compiler: construction, corpus, grammar-keyed parse cache, fresh-state
compilation in forked children, independent operand scanner."""
import hashlib
import inspect
import io
import os
import pickle
import re
import sys
import zlib
import contextlib

from vf import core

# the parse cache is keyed by a hash of the grammar and of the parser construction code, so it can be
# shared between /verif and background snapshots of it
CACHE_DIR = os.environ.get("VERIF_CACHE", "/verif/.cache")

_COMPILERS = {}


def _quiet_import():
    core.quiet_tqdm()
    with contextlib.redirect_stdout(io.StringIO()):
        import rzilcompiler.Helper as H

        H.LOG_LEVEL = -1
        import rzilcompiler.Compiler  # noqa


def get_compiler(fmt="stmt", fresh=False):
    """The real Compiler.  fmt: 'stmt' (READ_STATEMENTS, the default layout) or 'exec'."""
    _quiet_import()
    from rzilcompiler.Compiler import Compiler
    from rzilcompiler.ArchEnum import ArchEnum
    from rzilcompiler.Transformer.RZILTransformer import CodeFormat

    if fmt in _COMPILERS and not fresh:
        return _COMPILERS[fmt]
    cf = CodeFormat.READ_STATEMENTS if fmt == "stmt" else CodeFormat.EXEC_CLASSES
    with contextlib.redirect_stdout(io.StringIO()):
        c = Compiler(ArchEnum.HEXAGON, cf)
    if not fresh:
        _COMPILERS[fmt] = c
    return c


def grammar_key():
    _quiet_import()
    import lark
    from rzilcompiler.Compiler import Compiler
    from rzilcompiler.Configuration import Conf, InputFile
    import rzilcompiler.Parser as P

    g = open(Conf.get_path(InputFile.GRAMMAR, "Hexagon"), "rb").read()
    h = hashlib.sha256()
    h.update(g)
    h.update(inspect.getsource(Compiler.set_lark_parser).encode())
    h.update(inspect.getsource(P.parse_single).encode())
    h.update(lark.__version__.encode())
    return h.hexdigest()[:20]


# --------------------------------------------------------------------------------------
# corpus


def load_corpus():
    """name -> [behaviour part, ...] exactly as the compiler loads it."""
    _quiet_import()
    from rzilcompiler.Preprocessor.Hexagon.PreprocessorHexagon import PreprocessorHexagon
    from rzilcompiler.Configuration import Conf, InputFile

    with contextlib.redirect_stdout(io.StringIO()):
        pp = PreprocessorHexagon(Conf.get_path(InputFile.HEXAGON_PP_SHORTCODE_H))
        pp.behaviors = dict()  # class-level dict: start from empty
        pp.load_insn_behavior()
    return dict(pp.behaviors)


# --------------------------------------------------------------------------------------
# parse cache

_PARSER = None


def _parse_one(text):
    try:
        t = _PARSER.parse(text)
        return zlib.compress(pickle.dumps(("ok", t), protocol=4), 1)
    except Exception as e:  # lark errors are not picklable in general
        return zlib.compress(pickle.dumps(("err", type(e).__name__, str(e)[:300]), protocol=4), 1)


class ParseCache:
    """text -> ('ok', lark Tree) | ('err', class name, message), produced by the real Lark
    parser object of a real Compiler instance.  Persisted per (grammar key, bucket)."""

    def __init__(self, bucket, parser=None):
        self.bucket = bucket
        self.key = grammar_key()
        self.dir = os.path.join(CACHE_DIR, "parse", self.key)
        self.path = os.path.join(self.dir, bucket + ".pkl")
        self.z = {}
        self.live = {}
        self.parser = parser
        self.dirty = False
        self.n_parsed_now = 0
        if os.path.exists(self.path):
            try:
                with open(self.path, "rb") as f:
                    self.z = pickle.load(f)
            except Exception:
                self.z = {}

    def ensure(self, texts, seed=0):
        global _PARSER
        missing = sorted(set(t for t in texts if t not in self.z))
        if missing:
            _PARSER = self.parser or get_compiler().parser
            if isinstance(_PARSER, CachedParser):
                _PARSER = _PARSER.real
            res = core.pmap(_parse_one, missing, seed=seed)
            for t, r in zip(missing, res):
                self.z[t] = r
            self.dirty = True
            self.n_parsed_now += len(missing)
        return self

    def save(self):
        if not self.dirty:
            return
        os.makedirs(self.dir, exist_ok=True)
        tmp = self.path + ".tmp%d" % os.getpid()
        with open(tmp, "wb") as f:
            pickle.dump(self.z, f, protocol=4)
        os.replace(tmp, self.path)
        self.dirty = False

    def get(self, text):
        r = self.live.get(text)
        if r is None:
            r = pickle.loads(zlib.decompress(self.z[text]))
            self.live[text] = r
        return r

    def __contains__(self, text):
        return text in self.z


class LarkErrorReplayed(Exception):
    """Stands for a Lark parse error recorded in the cache (class name in args[0])."""


class CachedParser:
    """Drop-in for Compiler.parser: .parse(text) answers from the cache (trees produced by the
    same real parser), and falls through to the real parser for unknown text."""

    def __init__(self, real, cache):
        self.real = real
        self.cache = cache

    def parse(self, text, *a, **k):
        if not a and not k and text in self.cache:
            r = self.cache.get(text)
            if r[0] == "ok":
                return r[1]
            return self.real.parse(text)  # re-raise the genuine exception
        return self.real.parse(text, *a, **k)

    def __getattr__(self, n):
        return getattr(self.real, n)


def install_cache(compiler, cache):
    if isinstance(compiler.parser, CachedParser):
        compiler.parser.cache = cache
    else:
        compiler.parser = CachedParser(compiler.parser, cache)


# --------------------------------------------------------------------------------------
# compilation in a fresh state


def _compile_stmt(compiler, code):
    return compiler.compile_c_stmt(code)


def compile_stmt_fresh(compiler, code):
    """compile_c_stmt(code) as the only event from the state the parent is in.
    -> ('ok', text) | ('exc', class, msg, tb)"""
    return core.fresh_call(_compile_stmt, compiler, code)


def _transform(compiler, name, trees, texts):
    from rzilcompiler.Parser import ParsedInsn

    r = compiler.transform_insn(name, ParsedInsn(name, trees, texts))
    return {
        "rzil": list(r.rzil),
        "meta": [list(m) for m in r.meta],
        "needs_hi": [bool(x) for x in r.needs_hi],
        "needs_pkt": [bool(x) for x in r.needs_pkt],
        "getter": {k: list(v) for k, v in r.getter_rzil.items()},
        "name": r.name,
    }


def transform_fresh(compiler, name, trees, texts):
    return core.fresh_call(_transform, compiler, name, trees, texts)


def sub_routine_texts(compiler):
    from rzilcompiler.Transformer.Hybrids.SubRoutine import SubRoutineInitType

    return {n: sr.il_init(SubRoutineInitType.DEF) for n, sr in compiler.sub_routines.items()}


# --------------------------------------------------------------------------------------
# independent operand scanner (QEMU naming scheme; not derived from the compiler)

REG_RE = re.compile(r"(?<![A-Za-z0-9_])([CNPRMQVO])(ss|tt|uu|vv|dd|xx|yy|[stuvwdexyz])([VN])(?![A-Za-z0-9_])")
IMM_RE = re.compile(r"(?<![A-Za-z0-9_])([rRsSuUmn])iV(?![A-Za-z0-9_])")
EXPL_RE = re.compile(r"(?<![A-Za-z0-9_])([RCPVQMGS])([0-3]{1,2})(?::([0-3]{1,2}))?(_NEW)?(?![A-Za-z0-9_:])")
ALIAS_RE = re.compile(r"(?<![A-Za-z0-9_])HEX_REG_ALIAS_([A-Z0-9]+?)(_NEW)?(?![A-Za-z0-9_])")

CLASS_WIDTH = {"R": 32, "C": 32, "M": 32, "N": 32, "P": 8, "V": 1024, "Q": 128}
ALIAS64 = {"UPCYCLE", "PKTCOUNT", "UTIMER"}


class Operand:
    __slots__ = ("spelling", "kind", "cls", "letter", "pair", "new", "width", "signed", "key", "access", "number", "number_hi")

    def __repr__(self):
        return "Operand(%s)" % ",".join("%s=%r" % (k, getattr(self, k, None)) for k in self.__slots__)

    def as_dict(self):
        return {k: getattr(self, k, None) for k in self.__slots__}


def scan_operands(text):
    """All operand tokens of a behaviour text with their documented properties."""
    out = {}
    for m in REG_RE.finditer(text):
        o = Operand()
        o.spelling = m.group(0)
        o.kind = "reg"
        o.cls = m.group(1)
        o.letter = m.group(2)[0]
        o.pair = len(m.group(2)) == 2
        o.new = m.group(3) == "N"
        o.width = CLASS_WIDTH.get(o.cls, 32) * (2 if o.pair else 1)
        o.signed = True
        o.key = o.cls + m.group(2)
        o.access = "r" if o.letter in "stuvw" else ("w" if o.letter in "de" else "rw")
        o.number = o.number_hi = None
        out[o.spelling] = o
    for m in IMM_RE.finditer(text):
        o = Operand()
        o.spelling = m.group(0)
        o.kind = "imm"
        o.cls = None
        o.letter = m.group(1)
        o.pair = False
        o.new = False
        o.width = 32
        o.signed = o.letter in "rRsS"
        o.key = "imm:" + o.letter
        o.access = "r"
        o.number = o.number_hi = None
        out[o.spelling] = o
    for m in EXPL_RE.finditer(text):
        o = Operand()
        o.spelling = m.group(0)
        o.kind = "explicit"
        o.cls = m.group(1)
        o.letter = None
        o.pair = m.group(3) is not None
        o.new = m.group(4) is not None
        o.width = CLASS_WIDTH.get(o.cls, 32) * (2 if o.pair else 1)
        o.signed = True
        nums = [int(m.group(2))] + ([int(m.group(3))] if m.group(3) else [])
        o.number = min(nums)
        o.number_hi = max(nums)
        o.key = "%s%d%s" % (o.cls, o.number, (":%d" % o.number_hi) if o.pair else "")
        o.access = "?"
        out[o.spelling] = o
    for m in ALIAS_RE.finditer(text):
        o = Operand()
        o.spelling = m.group(0)
        o.kind = "pc" if m.group(1) == "PC" and m.group(2) is None else "alias"  # PC_NEW is the pending value of the register, not the packet address
        o.cls = None
        o.letter = None
        o.pair = False
        o.new = m.group(2) is not None
        o.width = 64 if m.group(1) in ALIAS64 else 32
        o.signed = False
        o.key = "alias:" + m.group(1).lower()
        o.access = "?"
        o.number = o.number_hi = None
        out[o.spelling] = o
    return out


def letter_widths(ops):
    return {o.letter: o.width for o in ops.values() if o.kind == "reg"}
