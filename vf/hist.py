"""E6: explicit-state search over histories of public compile calls.

A *state* is the persistent state of the compiler process after a history; S0 = the parent
process after importing the package and constructing compiler instances A and B.  Every history
is replayed from S0 in a forked child (fork = snapshot/restore: no harness-side reset exists
that could mask a leak, including one in a module-level variable a change introduces).
States are deduplicated by a canonical digest; the invariant is evaluated on every transition.
"""
import hashlib
import os
import pickle
import re
import sys

from vf import core, drive

# --------------------------------------------------------------------------------------
# observations


def normalize_text(t):
    """Emitted text modulo comment lines and a consistent renaming of hybrid temporaries."""
    lines = [l for l in t.split("\n") if l.strip() and not l.strip().startswith("//")]
    s = "\n".join(l.rstrip() for l in lines)
    names = {}

    def ren(m):
        n = m.group(0)
        if n not in names:
            names[n] = "h_tmp#%d" % len(names)
        return names[n]

    return re.sub(r"h_tmp\w*?\d+", ren, s)


class Event:
    """One public call.  kind: transform | insn | stmt | subcall;  inst: 'A' | 'B'."""

    def __init__(self, kind, inst, name, texts, sub=None, variant=""):
        # variant distinguishes events that pass different text under the same instruction name
        self.kind, self.inst, self.name, self.texts, self.sub, self.variant = kind, inst, name, list(texts), sub, variant

    def key(self):
        return (self.kind, self.inst, self.name, self.variant)

    def label(self):
        return "%s@%s(%s%s)" % (self.kind, self.inst, self.name, ("/" + self.variant) if self.variant else "")

    def base_key(self):
        """Identity of the behaviour independent of the instance (the fresh-state observation of
        the same call on either instance must be equal too)."""
        return (self.kind, self.name, self.variant)


_CTX = {}


def setup(compilers, cache, parsed_insns=None):
    """compilers: {'A': Compiler, 'B': Compiler} constructed by the parent (part of S0)."""
    _CTX.clear()
    _CTX.update(comp=compilers, cache=cache)
    for c in compilers.values():
        drive.install_cache(c, cache)
    if parsed_insns:
        from rzilcompiler.Parser import ParsedInsn

        for name, texts in parsed_insns.items():
            trees = []
            ok = True
            for t in texts:
                r = cache.get(t)
                if r[0] != "ok":
                    ok = False
                    break
                trees.append(r[1])
            if ok:
                for c in compilers.values():
                    c.parsed_insns[name] = ParsedInsn(name, trees, list(texts))


def do_event(ev):
    comp = _CTX["comp"][ev.inst]
    cache = _CTX["cache"]
    from rzilcompiler.Parser import ParsedInsn

    try:
        if ev.kind == "transform":
            trees = []
            for t in ev.texts:
                r = cache.get(t)
                if r[0] != "ok":
                    # the caller of transform_insn only has trees for parsable text
                    return ("parse-error", r[1])
                trees.append(r[1])
            r = comp.transform_insn(ev.name, ParsedInsn(ev.name, trees, list(ev.texts)))
            return ("ok", [normalize_text(x) for x in r.rzil], [list(m) for m in r.meta])
        if ev.kind == "insn":
            r = comp.compile_insn(ev.name)
            return ("ok", [normalize_text(x) for x in r.rzil], [list(m) for m in r.meta])
        if ev.kind == "stmt":
            out = comp.compile_c_stmt(ev.texts[0])
            return ("ok", [normalize_text(out)], None)
        if ev.kind == "subcall":
            n, ret, params, body = ev.sub
            comp.add_sub_routine(n, ret, params, body)
            out = comp.compile_c_stmt(ev.texts[0])
            from rzilcompiler.Transformer.Hybrids.SubRoutine import SubRoutineInitType

            sub = comp.sub_routines[n].il_init(SubRoutineInitType.DEF)
            return ("ok", [normalize_text(out), normalize_text(sub)], None)
        raise core.HarnessError("unknown event kind %s" % ev.kind)
    except core.HarnessError:
        raise
    except Exception as e:  # an exception of the code under test is an observation
        return ("exc", type(e).__name__)


# --------------------------------------------------------------------------------------
# canonical state digest

SKIP_ATTRS = {"parser", "preprocessor", "compiled_insns", "parsed_insns", "__dict__", "__weakref__", "__module__", "__doc__", "__qualname__"}


def canon(obj, depth, seen, drop):
    from rzilcompiler.Transformer.ValueType import ValueType

    if obj is None or isinstance(obj, (bool, int, float, str, bytes)):
        return obj
    if isinstance(obj, ValueType):
        return ("VT", obj._signed, obj._bit_width, int(obj.group.value), str(obj.format), obj.external_type)
    t = type(obj)
    if t.__module__.startswith("lark"):
        return "<lark>"
    if id(obj) in seen:
        return "<cycle>"
    if depth <= 0:
        return "<%s>" % t.__name__
    seen = seen | {id(obj)}
    if isinstance(obj, dict):
        items = []
        for k, v in obj.items():
            items.append((str(k), canon(v, depth - 1, seen, drop)))
        return ("dict", tuple(sorted(items, key=lambda x: x[0])))
    if isinstance(obj, (list, tuple)):
        return ("seq", tuple(canon(v, depth - 1, seen, drop) for v in obj))
    if isinstance(obj, (set, frozenset)):
        return ("set", tuple(sorted(repr(canon(v, depth - 1, seen, drop)) for v in obj)))
    import enum

    if isinstance(obj, enum.Enum):
        return ("enum", str(obj))
    if callable(obj) and not hasattr(obj, "__dict__"):
        return "<callable>"
    if isinstance(obj, type) or callable(obj) and isinstance(obj, type(canon)):
        return "<%s>" % getattr(obj, "__name__", "callable")
    d = getattr(obj, "__dict__", None)
    if d is None:
        return "<%s>" % t.__name__
    items = []
    for k, v in d.items():
        if k in SKIP_ATTRS or k in drop:
            continue
        if callable(v) and not isinstance(v, (list, dict, set)) and not hasattr(v, "value_type") and isinstance(v, type(canon)):
            continue
        items.append((k, canon(v, depth - 1, seen, drop)))
    return (t.__name__, tuple(sorted(items, key=lambda x: x[0])))


def class_level_state(drop):
    """Mutable class-level and module-level state of every rzilcompiler module."""
    out = []
    for mn in sorted(sys.modules):
        if not mn.startswith("rzilcompiler") or ".Tests" in mn:
            continue
        mod = sys.modules[mn]
        if mod is None:
            continue
        for name, val in sorted(vars(mod).items(), key=lambda x: x[0]):
            if name.startswith("__"):
                continue
            if isinstance(val, (list, dict, set, tuple)) or type(val).__name__ == "ValueType":
                out.append((mn, name, canon(val, 4, frozenset(), drop)))
            elif isinstance(val, type) and val.__module__ == mn:
                for an, av in sorted(vars(val).items(), key=lambda x: x[0]):
                    if an.startswith("__") or an in SKIP_ATTRS or an in drop:
                        continue
                    if isinstance(av, (list, dict, set, tuple)) or type(av).__name__ == "ValueType":
                        out.append((mn, name + "." + an, canon(av, 5, frozenset(), drop)))
                    elif isinstance(av, (bool, int, str)) and not callable(av):
                        out.append((mn, name + "." + an, av))
    return out


def state_digest(drop=()):
    drop = set(drop)
    parts = [class_level_state(drop)]
    for k in sorted(_CTX["comp"]):
        c = _CTX["comp"][k]
        tr = c.transformer
        parts.append((k, "transformer", canon(tr, 6, frozenset(), drop | {"sub_routines", "macros", "parameters", "_Transformer__visit_tokens"})))
        subs = []
        for n, sr in sorted(c.sub_routines.items()):
            subs.append((n, canon(sr.value_type, 2, frozenset(), drop), tuple(canon(p.value_type, 2, frozenset(), drop) for p in sr.ops), hashlib.sha256(normalize_text(sr.body).encode()).hexdigest()[:12]))
        parts.append((k, "subs", tuple(subs)))
        macros = []
        for n, mc in sorted(tr.macros.items()):
            macros.append((n, canon(mc.return_type, 2, frozenset(), drop), tuple(canon(p, 2, frozenset(), drop) for p in mc.param_types)))
        parts.append((k, "macros", tuple(macros)))
    return hashlib.sha256(repr(parts).encode()).hexdigest()[:20]


# --------------------------------------------------------------------------------------
# running histories


def _run_history(events, drop):
    obs = []
    for ev in events:
        obs.append(do_event(ev))
    return obs, state_digest(drop)


def run_history(events, drop=()):
    r = core.fresh_call(_run_history, events, drop)
    if r[0] != "ok":
        raise core.HarnessError("history runner failed: %s %s\n%s" % (r[1], r[2], r[3]))
    return r[1]


def _expand(item):
    hist, ev, drop = item
    obs, dig = run_history(hist + [ev], drop)
    return obs[-1], dig


def all_pairs(ctx, alphabet, check, drop=()):
    """Every history of length 2 over the alphabet, without merging states: the state digest leaves out what the
    code is assumed never to read back (result caches, the temporaries counter); this layer does not rely on it."""
    # the two instances are built alike: [e1@B, e2@x] is the mirror image of [e1@A, e2@x'], so the first event is taken on A
    items = [([e1], e2, tuple(drop)) for e1 in alphabet if e1.inst == "A" for e2 in alphabet]
    res = core.pmap(_expand, items, seed=ctx.seed, chunk=16)
    violations = []
    for (h, ev, _d), (obs, _dig) in zip(items, res):
        bad = check(h, ev, obs)
        if bad:
            violations.append((h, ev, obs, bad))
    return {"pair_transitions": len(items), "violations": violations}


def search(ctx, alphabet, depth, check, drop=(), initial_histories=None):
    """Breadth-first search.  check(hist, ev, obs) -> None | description of the violated invariant.
    Returns counters.  One representative history per distinct state digest is expanded."""
    s0 = run_history([], drop)[1]
    seen = {s0: []}
    frontier = [[]]
    transitions = 0
    violations = []
    outcomes = {}
    levels = []
    for d in range(depth):
        items = [(h, ev, tuple(drop)) for h in frontier for ev in alphabet]
        res = core.pmap(_expand, items, seed=ctx.seed, chunk=8)
        nxt = []
        for (h, ev, _d), (obs, dig) in zip(items, res):
            transitions += 1
            outcomes.setdefault(ev.base_key(), set()).add(repr(obs))
            bad = check(h, ev, obs)
            if bad:
                violations.append((h, ev, obs, bad))
            if dig not in seen:
                seen[dig] = h + [ev]
                nxt.append(h + [ev])
        levels.append({"depth": d + 1, "expanded_states": len(frontier), "transitions": len(items), "new_states": len(nxt)})
        ctx.log("depth %d: %d states expanded, %d transitions, %d new states" % (d + 1, len(frontier), len(items), len(nxt)))
        frontier = nxt
        if not frontier:
            break
    return {
        "states": len(seen),
        "transitions": transitions,
        "levels": levels,
        "violations": violations,
        "max_distinct_outcomes_per_event": max((len(v) for v in outcomes.values()), default=0),
        "frontier_left": len(frontier),
    }
