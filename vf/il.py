"""E2 (static half): reader for the emitted C text, C-level well-formedness (C11), ownership
linearity (C12) and RzIL sort checking on all paths (C10).

The emitted text is a sequence of C declarations with initialisers and a final return.  This
module parses it with its own small recursive-descent parser (written from the C grammar of the
forms the Rizin plugin template accepts, not from the compiler's emit code).
"""
import re

# --------------------------------------------------------------------------------------
# tokens / expressions

TOK = re.compile(
    r"""\s*(?:
      ((?:0[xX][0-9a-fA-F]+|\d+)(?:[uU](?:ll|LL|l|L)?|(?:ll|LL|l|L)[uU]?)?)(?![\w.])     # 1 integer (with C suffix)
    | ([A-Za-z_]\w*)                        # 2 identifier
    | "((?:[^"\\]|\\.)*)"                   # 3 string
    | '((?:[^'\\]|\\.))'                    # 4 char
    | (->|[()&,*\-])                        # 5 punctuation
    )""",
    re.X,
)

C_KEYWORDS = set(
    "auto break case char const continue default do double else enum extern float for goto if inline int long "
    "register restrict return short signed sizeof static struct switch typedef union unsigned void volatile while".split()
)
CAST_TYPES = {"st8", "ut8", "st16", "ut16", "st32", "ut32", "st64", "ut64"}


class ILSyntaxError(Exception):
    pass


class CNum(int):
    """An integer constant of the emitted C text with the type C11 6.4.4.1 gives it: the plugin's C compiler computes
    `-0x80000000` in unsigned int (the result is +0x80000000), `-2147483648` in long."""

    ctype = (True, 32)

    @staticmethod
    def of(text):
        m = re.match(r"^(0[xX][0-9a-fA-F]+|\d+)(.*)$", text)
        digits, suf = m.group(1), m.group(2).lower()
        hexa = digits[:2].lower() == "0x"
        octal = not hexa and len(digits) > 1 and digits[0] == "0"
        v = int(digits, 16 if hexa else (8 if octal else 10))
        uns, lng = "u" in suf, "l" in suf
        cands = []
        if uns:
            cands = ([] if lng else [(False, 32)]) + [(False, 64)]
        else:
            if not lng:
                cands.append((True, 32))
                if hexa or octal:
                    cands.append((False, 32))
            cands.append((True, 64))
            cands.append((False, 64))  # decimal: no signed type fits; compilers make it unsigned long long (with a warning)
        for sg, w in cands:
            if v < (1 << (w - 1 if sg else w)):
                r = CNum(v)
                r.ctype = (sg, w)
                return r
        # no C integer type holds it (clang rejects the text, gcc warns): kept with an extended type so that the value
        # checks can go on; check_wellformed reports it
        r = CNum(v)
        r.ctype = (False, 128)
        return r

    def neg(self):
        sg, w = self.ctype
        if sg:
            if int(self) == 1 << (w - 1):
                raise ILSyntaxError("negation overflows")
            r = CNum(-int(self))
        else:
            r = CNum((-int(self)) & ((1 << w) - 1))  # unsigned arithmetic wraps
        r.ctype = (sg, w)
        return r


def tokenize(s):
    out = []
    i = 0
    n = len(s)
    while i < n:
        m = TOK.match(s, i)
        if not m:
            if s[i:].strip() == "":
                break
            raise ILSyntaxError("bad token at %r" % s[i : i + 30])
        i = m.end()
        if m.group(1) is not None:
            out.append(("num", CNum.of(m.group(1))))
        elif m.group(2) is not None:
            out.append(("id", m.group(2)))
        elif m.group(3) is not None:
            out.append(("str", m.group(3)))
        elif m.group(4) is not None:
            out.append(("chr", m.group(4)))
        else:
            out.append(("p", m.group(5)))
    return out


class _P:
    def __init__(self, toks):
        self.t = toks
        self.i = 0

    def peek(self):
        return self.t[self.i] if self.i < len(self.t) else ("eof", None)

    def next(self):
        x = self.peek()
        self.i += 1
        return x

    def expect(self, v):
        x = self.next()
        if x != ("p", v):
            raise ILSyntaxError("expected %r got %r" % (v, x))

    def expr(self):
        k, v = self.peek()
        if (k, v) == ("p", "-"):
            self.next()
            k2, v2 = self.next()
            if k2 != "num":
                raise ILSyntaxError("unary minus on non-literal")
            return ("num", v2.neg() if isinstance(v2, CNum) else -v2)
        if (k, v) == ("p", "&"):
            self.next()
            k2, v2 = self.next()
            if k2 != "id":
                raise ILSyntaxError("& on non-identifier")
            return ("addr", ("id", v2))
        if (k, v) == ("p", "("):
            self.next()
            t = self.next()
            if t[0] != "id":
                raise ILSyntaxError("cast type expected, got %r" % (t,))
            self.expect(")")
            return ("ccast", t[1], self.expr())
        if k == "num":
            self.next()
            return ("num", v)
        if k == "str":
            self.next()
            return ("str", v)
        if k == "chr":
            self.next()
            return ("chr", v)
        if k == "id":
            self.next()
            if self.peek() == ("p", "("):
                self.next()
                args = []
                if self.peek() != ("p", ")"):
                    while True:
                        args.append(self.expr())
                        if self.peek() == ("p", ","):
                            self.next()
                            continue
                        break
                self.expect(")")
                return ("call", v, tuple(args))
            if self.peek() == ("p", "->"):
                self.next()
                f = self.next()
                if f[0] != "id":
                    raise ILSyntaxError("member name expected")
                return ("arrow", v, f[1])
            return ("id", v)
        raise ILSyntaxError("unexpected %r" % ((k, v),))


def parse_expr(s):
    p = _P(tokenize(s))
    e = p.expr()
    if p.i != len(p.t):
        raise ILSyntaxError("trailing tokens in %r" % s[:80])
    return e


# --------------------------------------------------------------------------------------
# bodies

DECL = re.compile(r"^(RzILOpPure|RzILOpEffect|RzILOpBool|const HexOp|const HexInsn|HexPkt) (\*?)([^\s=*]+) = (.*);$")
HEADER = re.compile(r"^RZ_OWN RzILOpEffect \*(\w+)\((.*)\)\s*\{$")
DECLARE_COMMENT = re.compile(r"^// Declare: (\S+) (\S+);$")


class Decl:
    __slots__ = ("ctype", "ptr", "name", "expr", "line", "text")

    def __init__(self, ctype, ptr, name, expr, line, text):
        self.ctype, self.ptr, self.name, self.expr, self.line, self.text = ctype, ptr, name, expr, line, text

    @property
    def kind(self):
        if self.ctype in ("RzILOpPure", "RzILOpBool"):
            return "pure"
        if self.ctype == "RzILOpEffect":
            return "effect"
        if self.ctype == "const HexOp":
            return "op"
        return "prologue"


class Body:
    def __init__(self):
        self.name = None  # sub-routine C name (hex_xxx) or None for an instruction part
        self.params = []  # [(name, kind)] kind in pure|op|bundle|ext:<type>
        self.decls = []
        self.ret = None
        self.declares = []  # (type string, name) from "// Declare:" comments
        self.errors = []  # C-level well-formedness problems found while reading
        self.by_name = {}


def split_params(s):
    out = []
    for p in [x.strip() for x in s.split(",") if x.strip()]:
        m = re.match(r"^(.*?)(\w+)$", p)
        if not m:
            raise ILSyntaxError("bad parameter %r" % p)
        t, n = m.group(1).strip(), m.group(2)
        if "RzILOpPure" in t:
            k = "pure"
        elif "HexOp" in t:
            k = "op"
        elif "HexInsnPktBundle" in t:
            k = "bundle"
        else:
            k = "ext:" + t
        out.append((n, k, t))
    return out


def parse_body(text, is_sub=False):
    """Reads an instruction part (is_sub=False) or the full text of a sub-routine definition."""
    b = Body()
    lines = text.split("\n")
    depth_open = False
    for ln, raw in enumerate(lines, 1):
        l = raw.strip()
        if not l:
            continue
        if l.startswith("//"):
            m = DECLARE_COMMENT.match(l)
            if m:
                b.declares.append((m.group(1), m.group(2)))
            continue
        if is_sub and b.name is None:
            # header, possibly followed by '{' on the same line
            hl = l
            if not hl.endswith("{"):
                hl = hl + "{" if not hl.endswith("{") else hl
            m = HEADER.match(l if l.endswith("{") else l + "{")
            if not m:
                b.errors.append("line %d: not a sub-routine header: %s" % (ln, l[:80]))
                b.name = "?"
                continue
            b.name = m.group(1)
            try:
                b.params = split_params(m.group(2))
            except ILSyntaxError as e:
                b.errors.append("line %d: %s" % (ln, e))
            depth_open = l.endswith("{")
            continue
        if is_sub and l == "{" and not depth_open:
            depth_open = True
            continue
        if is_sub and l == "}":
            depth_open = False
            continue
        if b.ret is not None:
            b.errors.append("line %d: statement after return: %s" % (ln, l[:80]))
            continue
        if l.startswith("return ") or l == "return;":
            if not l.endswith(";"):
                b.errors.append("line %d: return without ';'" % ln)
            try:
                b.ret = parse_expr(l[7:].rstrip(";"))
            except ILSyntaxError as e:
                b.errors.append("line %d: %s" % (ln, e))
                b.ret = ("id", "?")
            continue
        m = DECL.match(l)
        if not m:
            b.errors.append("line %d: not a declaration with initialiser: %s" % (ln, l[:100]))
            continue
        try:
            e = parse_expr(m.group(4))
        except ILSyntaxError as ex:
            b.errors.append("line %d: %s" % (ln, ex))
            continue
        d = Decl(m.group(1), m.group(2), m.group(3), e, ln, l)
        b.decls.append(d)
    if b.ret is None:
        b.errors.append("no return statement")
    if is_sub and depth_open:
        b.errors.append("unbalanced braces in sub-routine text")
    for d in b.decls:
        b.by_name.setdefault(d.name, d)
    return b


# --------------------------------------------------------------------------------------
# walking


def walk(e):
    """Pre-order over all sub-expressions."""
    yield e
    k = e[0]
    if k == "call":
        for a in e[2]:
            yield from walk(a)
    elif k in ("addr",):
        yield from walk(e[1])
    elif k == "ccast":
        yield from walk(e[2])


def idents(e, under_dup=False):
    """Yields (name, directly_under_DUP) for each identifier occurrence."""
    k = e[0]
    if k == "id":
        yield e[1], under_dup
    elif k == "call":
        for a in e[2]:
            yield from idents(a, e[1] == "DUP" and a[0] == "id")
    elif k == "addr":
        yield from idents(e[1], False)
    elif k == "ccast":
        yield from idents(e[2], False)
    elif k == "arrow":
        yield e[1], False


# --------------------------------------------------------------------------------------
# C11: well-formed C body

IDENT = re.compile(r"^[A-Za-z_]\w*$")
FREE_CONST = re.compile(r"^(HEX|RZ|IL)_[A-Z0-9_]+$")
MACRO_NAME = re.compile(r"^[A-Z][A-Z0-9_]*$")


def check_wellformed(b, allow_free=("bundle", "hi", "pkt")):
    """Returns a list of problems.  allow_free: names the plugin template provides."""
    errs = list(b.errors)
    declared = {}
    params = {p[0] for p in b.params}
    free_ok = set(allow_free) | params
    prologue = set()

    def check_uses(e, where):
        for sub in walk(e):
            k = sub[0]
            if k == "call":
                n = sub[1]
                if not (MACRO_NAME.match(n) or re.match(r"^hex_\w+$", n)):
                    errs.append("%s: call of %r is neither a plugin macro nor a hex_ routine" % (where, n))
            elif k == "ccast":
                if sub[1] not in CAST_TYPES:
                    errs.append("%s: C cast to unknown type %r" % (where, sub[1]))
            elif k == "num":
                if isinstance(sub[1], CNum) and sub[1].ctype[1] > 64:
                    errs.append("%s: an integer constant does not fit any C integer type" % where)
            elif k == "arrow":
                if sub[1] not in declared and sub[1] not in free_ok:
                    errs.append("%s: %s-> used but %s is not declared" % (where, sub[1], sub[1]))
        for n, _ in idents(e):
            if n in declared or n in free_ok:
                continue
            if FREE_CONST.match(n) or n in ("true", "false"):
                continue
            errs.append("%s: identifier %r is not declared before use" % (where, n))

    for d in b.decls:
        where = "line %d (%s)" % (d.line, d.name)
        if not IDENT.match(d.name) or d.name in C_KEYWORDS:
            errs.append("%s: %r is not a valid C identifier" % (where, d.name))
        expect_ptr = {"RzILOpPure": "*", "RzILOpEffect": "*", "RzILOpBool": "*", "const HexInsn": "*", "HexPkt": "*"}
        if d.ctype in expect_ptr and d.ptr != "*":
            errs.append("%s: %s declared without '*'" % (where, d.ctype))
        if d.name in declared or d.name in params:
            errs.append("%s: %r declared twice" % (where, d.name))
        check_uses(d.expr, where)
        declared[d.name] = d
        if d.kind == "prologue":
            prologue.add(d.name)
    if b.ret is not None:
        check_uses(b.ret, "return")
    return errs


def mentions(text, word):
    """True if `word` occurs as a C identifier token outside comments and string/char literals."""
    for raw in text.split("\n"):
        l = raw.strip()
        if l.startswith("//"):
            continue
        l = re.sub(r'"(?:[^"\\]|\\.)*"', '""', l)
        l = re.sub(r"'(?:[^'\\]|\\.)'", "''", l)
        if re.search(r"(?<![\w])%s(?![\w])" % re.escape(word), l):
            return True
    return False


# --------------------------------------------------------------------------------------
# C12: linearity


def check_linearity(b):
    errs = []
    raw = {}
    dup = {}
    order = {}
    for i, d in enumerate(b.decls):
        order[d.name] = i
    uses = []
    for i, d in enumerate(b.decls):
        uses.append((i, d.expr))
    if b.ret is not None:
        uses.append((len(b.decls), b.ret))
    for i, e in uses:
        for n, under in idents(e):
            if under:
                dup[n] = dup.get(n, 0) + 1
            else:
                raw[n] = raw.get(n, 0) + 1
    for d in b.decls:
        r = raw.get(d.name, 0)
        u = dup.get(d.name, 0)
        if d.kind == "pure":
            if r == 0 and u == 0:
                errs.append("pure %s is initialised but never used (leak)" % d.name)
            elif r == 0:
                errs.append("pure %s is only ever used through DUP (%d times): the original is leaked" % (d.name, u))
            elif r > 1:
                errs.append("pure %s is consumed %d times without DUP (double free)" % (d.name, r))
        elif d.kind == "effect":
            if u:
                errs.append("effect %s is wrapped in DUP" % d.name)
            if r == 0:
                errs.append("effect %s is initialised but never sequenced (leak)" % d.name)
            elif r > 1:
                errs.append("effect %s is used %d times" % (d.name, r))
    for (n, k, _t) in b.params:
        if k == "pure" and raw.get(n, 0) > 1:
            errs.append("borrowed pure parameter %s is consumed %d times without DUP" % (n, raw[n]))
    return errs


# --------------------------------------------------------------------------------------
# C10: sorts

BOOL = ("bool",)


def bv(n):
    return ("bv", n)


class SortError(Exception):
    pass


FLOAT_FMT_BITS = {"RZ_FLOAT_IEEE754_BIN_32": 32, "RZ_FLOAT_IEEE754_BIN_64": 64}
REG_CLASS_WIDTH = {
    "HEX_REG_CLASS_INT_REGS": 32,
    "HEX_REG_CLASS_DOUBLE_REGS": 64,
    "HEX_REG_CLASS_PRED_REGS": 8,
    "HEX_REG_CLASS_CTR_REGS": 32,
    "HEX_REG_CLASS_CTR_REGS64": 64,
    "HEX_REG_CLASS_MOD_REGS": 32,
    "HEX_REG_CLASS_GUEST_REGS": 32,
    "HEX_REG_CLASS_GUEST_REGS64": 64,
    "HEX_REG_CLASS_SYS_REGS": 32,
    "HEX_REG_CLASS_SYS_REGS64": 64,
    "HEX_REG_CLASS_HVX_VR": 1024,
    "HEX_REG_CLASS_HVX_WR": 2048,
    "HEX_REG_CLASS_HVX_QR": 128,
}
ALIAS64 = {"HEX_REG_ALIAS_UPCYCLE", "HEX_REG_ALIAS_PKTCOUNT", "HEX_REG_ALIAS_UTIMER"}

# plugin macros whose arguments/results are fixed-width bitvectors (independent copy of the
# C prototypes of the QEMU helpers they stand for)
FIXED_SIGS = {
    "EXTRACT32": ([32, 32, 32], 32),
    "EXTRACT64": ([64, 32, 32], 64),
    "SEXTRACT64": ([64, 32, 32], 64),
    "DEPOSIT32": ([32, 32, 32, 32], 32),
    "DEPOSIT64": ([64, 32, 32, 64], 64),
    "BSWAP16": ([16], 16),
    "BSWAP32": ([32], 32),
    "BSWAP64": ([64], 64),
}


def ctype_width(t):
    """Width/signedness of the C parameter types used in sub_routines.json and registered routines."""
    t = t.strip()
    if t in ("int",):
        return (True, 32)
    if t in ("unsigned", "unsigned int"):
        return (False, 32)
    m = re.match(r"^(u?)int(\d+)_t$", t)
    if m:
        return (m.group(1) != "u", int(m.group(2)))
    m = re.match(r"^size(\d+)([us])_t$", t)
    if m:
        return (m.group(2) == "s", int(m.group(1)) * 8)
    return None


class SortChecker:
    """Sort-checks one body.  `opwidth`: operand letter -> architectural width (from the
    harness's own scan of the source text); `subs`: name -> list of parameter sorts (None for
    non-pure parameters) for hex_<name> calls; `inputs`: local name -> sort for harness-provided
    locals; `param_sorts`: sorts of this body's own borrowed pure parameters."""

    def __init__(self, body, opwidth=None, subs=None, inputs=None, param_sorts=None, declared=None):
        self.b = body
        self.opwidth = opwidth or {}
        self.subs = subs or {}
        self.errs = []
        self.locals = {"ret_val": bv(64), "jump_flag": BOOL, "jump_target": bv(32)}
        self.fixed_locals = set(self.locals)
        for k, v in (inputs or {}).items():
            self.locals[k] = v
        self.declared_types = {}
        for t, n in body.declares:
            m = re.match(r"^([su])t(\d+)$", t)
            if m:
                self.declared_types[n] = bv(int(m.group(2)))
        self.param_sorts = param_sorts or {}
        self.declared = declared or {}
        self.memo = {}
        self.pending = False
        self.letvars = []

    def err(self, msg):
        if msg not in self.errs:
            self.errs.append(msg)

    # -- helpers
    def cnum(self, e):
        if e[0] == "num":
            return e[1]
        raise SortError("C integer literal expected, got %r" % (e,))

    def opw(self, e):
        """Width of the register a HexOp expression denotes."""
        if e[0] == "addr":
            e = e[1]
        if e[0] != "id":
            raise SortError("operand variable expected, got %r" % (e,))
        n = e[1]
        d = self.b.by_name.get(n)
        if d is None:
            for (pn, k, t) in self.b.params:
                if pn == n and k == "op":
                    return self.op_param_width(pn)
            raise SortError("unknown operand variable %s" % n)
        x = d.expr
        if x[0] == "call" and x[1] == "ISA2REG":
            letter = x[2][1][1]
            if letter not in self.opwidth:
                raise SortError("operand letter %r not in the instruction's operand table" % letter)
            return self.opwidth[letter]
        if x[0] == "call" and x[1] == "EXPLICIT2OP":
            cls = x[2][1][1]
            if cls not in REG_CLASS_WIDTH:
                raise SortError("unknown register class %s" % cls)
            return REG_CLASS_WIDTH[cls]
        if x[0] == "call" and x[1] == "ALIAS2OP":
            return 64 if x[2][0][1] in ALIAS64 else 32
        if x[0] == "call" and x[1] == "NREG2OP":
            return 32
        raise SortError("operand variable %s has an unknown initialiser" % n)

    def op_param_width(self, pn):
        return 64 if re.match(r"^[A-Z](dd|ss|tt|uu|vv|xx|yy)V?$", pn) else (8 if pn[0] == "P" else 32)

    def want_bv(self, e, what):
        s = self.sort(e)
        if s is None:
            return None
        if s[0] != "bv":
            raise SortError("%s: bitvector expected, got %s" % (what, s[0]))
        return s[1]

    def want_bool(self, e, what):
        s = self.sort(e)
        if s is None:
            return
        if s != BOOL:
            raise SortError("%s: bool expected, got %s" % (what, fmt_sort(s)))

    # -- pures
    def sort(self, e):
        """Sort of a pure expression; None if it depends on a local whose sort is not known yet."""
        k = e[0]
        if k == "id":
            n = e[1]
            if n == "IL_TRUE" or n == "IL_FALSE":
                return BOOL
            if n in self.param_sorts:
                return self.param_sorts[n]
            d = self.b.by_name.get(n)
            if d is None or d.kind != "pure":
                raise SortError("identifier %s does not hold a pure" % n)
            if n in self.memo and not self.letvars:
                r = self.memo[n]
                if isinstance(r, SortError):
                    raise r
                return r
            try:
                r = self.sort(d.expr)
            except SortError as ex:
                if not str(ex).startswith("in "):
                    ex = SortError("in %s (line %d): %s" % (n, d.line, ex))
                if not self.letvars:
                    self.memo[n] = ex
                raise ex
            if r is not None and not self.letvars:
                self.memo[n] = r
            return r
        if k != "call":
            raise SortError("not an IL pure: %r" % (e,))
        n, a = e[1], e[2]
        if n == "DUP":
            return self.sort(a[0])
        if n in ("SN", "UN"):
            w = self.cnum(a[0])
            if a[1][0] == "num" or a[1][0] == "ccast":
                return bv(w)
            raise SortError("%s value must be a C integer" % n)
        if n in ("U32", "U64", "S32", "S64", "U8", "U16"):
            return bv(int(n[1:]))
        if n == "CAST":
            w = self.cnum(a[0])
            self.want_bool(a[1], "CAST fill")
            self.want_bv(a[2], "CAST value")
            return bv(w)
        if n in ("SIGNED", "UNSIGNED"):
            w = self.cnum(a[0])
            self.want_bv(a[1], n)
            return bv(w)
        if n in ("MSB", "NON_ZERO", "IS_ZERO", "LSB"):
            self.want_bv(a[0], n)
            return BOOL
        if n == "ITE":
            self.want_bool(a[0], "ITE condition")
            s1, s2 = self.sort(a[1]), self.sort(a[2])
            if s1 is None or s2 is None:
                return s1 or s2
            if s1 != s2:
                raise SortError("ITE arms differ: %s vs %s" % (fmt_sort(s1), fmt_sort(s2)))
            return s1
        if n in ("ADD", "SUB", "MUL", "DIV", "MOD", "SDIV", "SMOD", "LOGAND", "LOGOR", "LOGXOR"):
            x, y = self.want_bv(a[0], n), self.want_bv(a[1], n)
            if x is None or y is None:
                return None if (x or y) is None else bv(x or y)
            if x != y:
                raise SortError("%s operands of width %d and %d" % (n, x, y))
            return bv(x)
        if n in ("LOGNOT", "NEG"):
            x = self.want_bv(a[0], n)
            return None if x is None else bv(x)
        if n in ("SHIFTL0", "SHIFTR0", "SHIFTRA"):
            x = self.want_bv(a[0], n)
            self.want_bv(a[1], n + " distance")
            return None if x is None else bv(x)
        if n in ("SLT", "SLE", "SGT", "SGE", "ULT", "ULE", "UGT", "UGE", "EQ"):
            x, y = self.want_bv(a[0], n), self.want_bv(a[1], n)
            if x is not None and y is not None and x != y:
                raise SortError("%s operands of width %d and %d" % (n, x, y))
            return BOOL
        if n == "INV":
            self.want_bool(a[0], "INV")
            return BOOL
        if n in ("AND", "OR", "XOR"):
            self.want_bool(a[0], n)
            self.want_bool(a[1], n)
            return BOOL
        if n in ("INC", "DEC"):
            x = self.want_bv(a[0], n)
            w = self.cnum(a[1])
            if x is not None and x != w:
                raise SortError("%s of a %d-bit value with width argument %d" % (n, x, w))
            return bv(w)
        if n == "VARL":
            name = a[0][1]
            if name in self.locals:
                return self.locals[name]
            self.pending = True
            self.pending_names.add(name)
            return None
        if n == "VARLP":
            name = a[0][1]
            for ln, ls in reversed(self.letvars):
                if ln == name:
                    return ls
            raise SortError("VARLP(%r) outside the scope of a LET binding it" % name)
        if n == "LET":
            name = a[0][1]
            s = self.sort(a[1])
            self.letvars.append((name, s))
            try:
                return self.sort(a[2])
            finally:
                self.letvars.pop()
        if n == "READ_REG":
            return bv(self.opw(a[1]))
        if n == "LOADW":
            w = self.cnum(a[0])
            x = self.want_bv(a[1], "LOADW address")
            if x is not None and x != 32:
                raise SortError("LOADW address of width %d" % x)
            return bv(w)
        if n in FIXED_SIGS:
            ps, r = FIXED_SIGS[n]
            if len(a) != len(ps):
                raise SortError("%s takes %d arguments" % (n, len(ps)))
            for i, (arg, pw) in enumerate(zip(a, ps)):
                x = self.want_bv(arg, "%s argument %d" % (n, i + 1))
                if x is not None and x != pw:
                    raise SortError("%s argument %d of width %d, expected %d" % (n, i + 1, x, pw))
            return bv(r)
        if n == "HEX_REGFIELD":
            return bv(32)
        if n == "HEX_GET_CORRESPONDING_CS":
            return bv(32)
        if n == "BV2F":
            fmt = a[0][1]
            x = self.want_bv(a[1], "BV2F")
            if fmt not in FLOAT_FMT_BITS:
                raise SortError("unknown float format %s" % fmt)
            if x is not None and x != FLOAT_FMT_BITS[fmt]:
                raise SortError("BV2F of a %d-bit value as %s" % (x, fmt))
            return ("float", FLOAT_FMT_BITS[fmt])
        if n == "F2BV":
            s = self.sort(a[0])
            if s is not None and s[0] != "float":
                raise SortError("F2BV of non-float %s" % fmt_sort(s))
            return None if s is None else bv(s[1])
        if n in ("FADD", "FSUB", "FMUL", "FDIV"):
            s1, s2 = self.sort(a[1]), self.sort(a[2])
            for s in (s1, s2):
                if s is not None and s[0] != "float":
                    raise SortError("%s of non-float" % n)
            if s1 and s2 and s1 != s2:
                raise SortError("%s of different float formats" % n)
            return s1 or s2
        if n in ("FEQ", "FGT", "FGE", "FLT", "FLE", "FNE"):
            s1, s2 = self.sort(a[0]), self.sort(a[1])
            for s in (s1, s2):
                if s is not None and s[0] != "float":
                    raise SortError("%s of non-float" % n)
            return BOOL
        if n in ("IS_INF", "IS_FNAN", "IS_FZERO"):
            s = self.sort(a[0])
            if s is not None and s[0] != "float":
                raise SortError("%s of non-float" % n)
            return BOOL
        if n in ("HEX_INT_TO_D", "HEX_SINT_TO_D", "HEX_INT_TO_F", "HEX_SINT_TO_F"):
            x = self.want_bv(a[1], n)
            if x is not None and x != 64:
                raise SortError("%s of a %d-bit value" % (n, x))
            return ("float", 64 if n.endswith("_D") else 32)
        if n in ("HEX_D_TO_INT", "HEX_D_TO_SINT", "HEX_F_TO_INT", "HEX_F_TO_SINT"):
            s = self.sort(a[1])
            want = 64 if "_D_" in n else 32
            if s is not None and s != ("float", want):
                raise SortError("%s of %s" % (n, fmt_sort(s)))
            return bv(64)
        raise SortError("unknown pure operator %s" % n)

    # -- effects
    def effect(self, e):
        k = e[0]
        if k == "id":
            d = self.b.by_name.get(e[1])
            if d is None or d.kind != "effect":
                raise SortError("identifier %s does not hold an effect" % e[1])
            return self.effect_decl(d)
        if k != "call":
            raise SortError("not an effect: %r" % (e,))
        n, a = e[1], e[2]
        if n in ("EMPTY", "NOP"):
            if a:
                raise SortError("%s takes no arguments" % n)
            return
        if n == "SEQN":
            c = self.cnum(a[0])
            if c != len(a) - 1:
                raise SortError("SEQN count %d with %d effects" % (c, len(a) - 1))
            for x in a[1:]:
                self.effect(x)
            return
        if n in ("SEQ2", "SEQ3", "SEQ4", "SEQ5", "SEQ6", "SEQ7", "SEQ8"):
            if len(a) != int(n[3:]):
                raise SortError("%s with %d effects" % (n, len(a)))
            for x in a:
                self.effect(x)
            return
        if n == "SETL":
            name = a[0][1]
            s = self.sort(a[1])
            if s is None:
                return
            if s[0] not in ("bv", "bool", "float"):
                raise SortError("SETL of a non-value")
            if name in self.declared and self.declared[name] != s:
                raise SortError("local %s is declared %s in the source but set to %s" % (name, fmt_sort(self.declared[name]), fmt_sort(s)))
            if name in self.locals:
                if self.locals[name] != s:
                    raise SortError("local %s changes sort: %s then %s" % (name, fmt_sort(self.locals[name]), fmt_sort(s)))
            else:
                self.locals[name] = s
                self.progress = True
            return
        if n == "BRANCH":
            self.want_bool(a[0], "BRANCH condition")
            self.effect(a[1])
            self.effect(a[2])
            return
        if n == "REPEAT":
            self.want_bool(a[0], "REPEAT condition")
            self.effect(a[1])
            return
        if n == "WRITE_REG":
            w = self.opw(a[1])
            x = self.want_bv(a[2], "WRITE_REG value")
            if x is not None and x != w:
                raise SortError("WRITE_REG of a %d-bit value into a %d-bit register" % (x, w))
            return
        if n == "STOREW":
            x = self.want_bv(a[0], "STOREW address")
            if x is not None and x != 32:
                raise SortError("STOREW address of width %d" % x)
            self.want_bv(a[1], "STOREW value")
            return
        if n in ("HEX_STORE_SLOT_CANCELLED", "HEX_GET_NPC", "HEX_SETROUND", "HEX_FATAL"):
            return
        if n.startswith("hex_"):
            r = n[4:]
            if r not in self.subs:
                raise SortError("call of unknown sub-routine %s" % n)
            ps = self.subs[r]
            if len(ps) != len(a):
                raise SortError("%s called with %d arguments, takes %d" % (n, len(a), len(ps)))
            for i, (arg, p) in enumerate(zip(a, ps)):
                if p is None:
                    continue
                s = self.sort(arg)
                if s is not None and s != p:
                    raise SortError("%s argument %d is %s, parameter is %s" % (n, i + 1, fmt_sort(s), fmt_sort(p)))
            return
        raise SortError("unknown effect %s" % n)

    def effect_decl(self, d):
        try:
            return self.effect(d.expr)
        except SortError as ex:
            self.err("line %d (%s): %s" % (d.line, d.name, ex))

    def run(self):
        if self.b.ret is None:
            return ["no return"]
        # fixpoint over the flow-insensitive local table: a local keeps one sort for its life
        for _round in range(50):
            self.progress = False
            self.pending = False
            self.pending_names = set()
            self.errs = []
            self.memo = {}
            try:
                self.effect(self.b.ret)
            except SortError as ex:
                self.err("return: %s" % ex)
            if not self.pending:
                break
            if not self.progress:
                # locals read but never SETL on any path here: take the declared type of the
                # "// Declare:" comment (an input / uninitialised C variable)
                added = False
                for n in sorted(self.pending_names):
                    if n in self.declared_types and n not in self.locals:
                        self.locals[n] = self.declared_types[n]
                        added = True
                if not added:
                    for n in sorted(self.pending_names):
                        self.err("local %s is read but no path ever sets it" % n)
                    break
        # pures never reached from the return are still sort-checked (they are emitted C)
        reached = set()
        return self.errs


def fmt_sort(s):
    if s is None:
        return "?"
    if s[0] == "bv":
        return "bv%d" % s[1]
    if s[0] == "float":
        return "float%d" % s[1]
    return s[0]


def check_sorts(body, **kw):
    return SortChecker(body, **kw).run()
