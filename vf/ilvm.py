"""E2 (dynamic half): ILVM, an executable model of "the Rizin Hexagon plugin builds the RzIL
effect from the emitted C text and the RzIL VM runs it".

A body (vf.il.Body) is compiled once into Python closures and then run on many machine states.
Pure C variables bind *terms*: a shared pure is re-evaluated at each use at effect-execution
time.  hex_<routine>(args) instantiates the compiled callee body with the argument terms bound
to its parameter names (call-by-name) in the caller's flat local namespace.

Values: bitvector = (width, value) with 0 <= value < 2**width; boolean = Python bool;
float = ('f', width, term) uninterpreted (see vf.uninterp).
"""
from vf import il
from vf import uninterp


class ILError(Exception):
    """The effect is not executable as RzIL (ill-sorted at run time, unset local, unknown op...)."""

    def __init__(self, kind, msg=""):
        Exception.__init__(self, "%s: %s" % (kind, msg))
        self.kind = kind
        self.msg = msg


class ILHorizon(ILError):
    pass


def mask(w):
    return (1 << w) - 1


def sx(v, w):
    v &= (1 << w) - 1
    return v - (1 << w) if v >> (w - 1) else v


class Op:
    """A resolved HexOp."""

    __slots__ = ("key", "width", "letter_x", "new")

    def __init__(self, key, width, letter_x=False, new=False):
        self.key, self.width, self.letter_x, self.new = key, width, letter_x, new


class Machine:
    def __init__(self, rule_p=True, rule_x=True):
        self.cur = {}  # committed bank: key -> value
        self.new = {}  # pending bank
        self.wrote = set()
        self.write_log = []
        self.regw = {}  # key -> architectural width
        self.letters = {}  # operand letter -> key (the instruction's operand table)
        self.imm = {}  # letter -> C value
        self.pc = 0
        self.npc = 0
        self.mem = {}
        self.mempat = lambda a: (a * 37 + 11) & 0xFF
        self.loc = {}
        self.slot_cancel = False
        self.regfield = {}
        self.cs = 0
        self.rule_p = rule_p
        self.rule_x = rule_x
        self.steps = 0
        self.max_steps = 20000
        self.let = []
        self.widthchg = []
        self.depth = 0
        self.callee_wrote = {}
        self.leaks = []
        self.monitor_frames = False
        self.read_pending_unwritten = []
        self.isolate_callee_locals = False  # diagnostic switch: locals a callee declares are private to its activation
        self.act_counter = 0
        self.act_stack = []
        self.fresh_reads = False  # diagnostic switch: every read of a register written by this instruction returns the new value

    # registers
    def read_reg(self, op, tmp):
        key = op.key
        if key not in self.cur and key not in self.new:
            raise ILError("unknown-register", key)
        w = op.width
        if tmp:
            if key in self.new:
                return (w, self.new[key])
            if not self.rule_p:
                raise ILError("pending-read-before-write", key)
            self.read_pending_unwritten.append(key)
            return (w, self.cur[key])
        if ((op.letter_x and self.rule_x) or self.fresh_reads) and key in self.wrote:
            return (w, self.new[key])
        if key not in self.cur:
            raise ILError("unknown-register", key + " (committed)")
        return (w, self.cur[key])

    def write_reg(self, op, v):
        if isinstance(v, bool) or v[0] == "f":
            raise ILError("sort", "WRITE_REG of a non-bitvector")
        if v[0] != op.width:
            raise ILError("sort", "WRITE_REG of %d bits into %s (%d)" % (v[0], op.key, op.width))
        self.new[op.key] = v[1]
        self.wrote.add(op.key)
        self.write_log.append((op.key, v[1]))

    def memrd(self, a):
        m = self.mem
        return m[a] if a in m else self.mempat(a)

    def observation(self, locals_=()):
        """The architecturally visible outcome."""
        jf = self.loc.get("jump_flag", False)
        jt = self.loc.get("jump_target", (32, 0))
        return {
            "regs": {k: self.new[k] for k in sorted(self.wrote)},
            "mem": {a: self.mem[a] for a in sorted(self.mem)},
            "jump": (bool(jf), jt[1] if jf else None),
            "slot_cancel": self.slot_cancel,
            "locals": {n: self.loc.get(n) for n in locals_},
        }


# --------------------------------------------------------------------------------------
# compiler from expression trees to closures


class Frame:
    def __init__(self, body, params, prog, depth):
        self.own_locals = set()
        self.body = body
        self.params = params  # name -> closure (pure) | Op | ('c', x)
        self.prog = prog
        self.depth = depth
        self.pure_cache = {}
        self.effect_cache = {}
        self.op_cache = {}


class Program:
    """A compiled instruction part (or a stand-alone sub-routine with bound arguments)."""

    def __init__(self, body, subs=None):
        """subs: routine name -> il.Body of its compiled definition."""
        self.body = body
        self.subs = subs or {}
        self.frame = Frame(body, {}, self, 0)
        if body.ret is None:
            raise ILError("malformed", "no return")
        self.entry = self.c_effect(body.ret, self.frame)

    def run(self, m):
        self.entry(m)
        return m

    # ---- operands
    def c_op(self, e, fr):
        """-> function(m) -> Op"""
        if e[0] == "addr":
            e = e[1]
        if e[0] != "id":
            raise ILError("malformed", "operand expression %r" % (e,))
        n = e[1]
        if n in fr.op_cache:
            return fr.op_cache[n]
        if n in fr.params:
            p = fr.params[n]
            if callable(p):
                fr.op_cache[n] = p
                return p
            raise ILError("malformed", "parameter %s is not an operand" % n)
        d = fr.body.by_name.get(n)
        if d is None or d.kind != "op":
            raise ILError("malformed", "%s is not an operand variable" % n)
        x = d.expr
        if x[0] != "call":
            raise ILError("malformed", "operand initialiser %r" % (x,))
        f, a = x[1], x[2]
        if f == "ISA2REG":
            letter = a[1][1]
            new = a[2] == ("id", "true")

            def get(m, letter=letter, new=new):
                if letter not in m.letters:
                    raise ILError("unknown-operand-letter", letter)
                key = m.letters[letter]
                return Op(key, m.regw[key], letter == "x", new)

        elif f == "NREG2OP":
            letter = a[1][1]

            def get(m, letter=letter):
                if letter not in m.letters:
                    raise ILError("unknown-operand-letter", letter)
                key = m.letters[letter]
                return Op(key, m.regw[key], False, True)

        elif f == "EXPLICIT2OP":
            num = a[0][1]
            cls = a[1][1]
            new = a[2] == ("id", "true")
            if cls not in il.REG_CLASS_WIDTH:
                raise ILError("malformed", "register class %s" % cls)
            w = il.REG_CLASS_WIDTH[cls]
            L = "Q" if cls == "HEX_REG_CLASS_HVX_QR" else {"INT": "R", "DOUBLE": "R", "PRED": "P", "CTR": "C", "MOD": "M", "GUEST": "G", "SYS": "S", "HVX": "V"}[cls.split("_")[3]]
            pair = cls in ("HEX_REG_CLASS_DOUBLE_REGS",) or cls.endswith("64") or cls == "HEX_REG_CLASS_HVX_WR"
            key = "%s%d%s" % (L, num, (":%d" % (num + 1)) if pair else "")
            op = Op(key, w, False, new)

            def get(m, op=op):
                return op

        elif f == "ALIAS2OP":
            name = a[0][1]
            new = a[1] == ("id", "true")
            if not name.startswith("HEX_REG_ALIAS_"):
                raise ILError("malformed", "alias enum %s" % name)
            base = name[len("HEX_REG_ALIAS_") :]
            op = Op("alias:" + base.lower(), 64 if name in il.ALIAS64 else 32, False, new)

            def get(m, op=op):
                return op

        else:
            raise ILError("malformed", "operand resolver %s" % f)
        fr.op_cache[n] = get
        return get

    # ---- C-level values (arguments of resolvers / plugin macros)
    def c_cval(self, e, fr):
        k = e[0]
        if k == "num":
            v = e[1]
            return lambda m: v
        if k == "ccast":
            t = e[1]
            inner = self.c_cval(e[2], fr)
            signed, w = t[0] == "s", int(t[2:])
            if signed:
                return lambda m: sx(inner(m), w)
            return lambda m: inner(m) & mask(w)
        if k == "call" and e[1] == "ISA2IMM":
            letter = e[2][1][1]

            def f(m):
                if letter not in m.imm:
                    raise ILError("unknown-immediate", letter)
                return m.imm[letter]

            return f
        if k == "arrow":
            if (e[1], e[2]) == ("pkt", "pkt_addr"):
                return lambda m: m.pc
        raise ILError("malformed", "C value %r" % (e,))

    def c_name(self, e, fr):
        """Symbolic C argument (enum constant, parameter holding one)."""
        if e[0] == "id":
            n = e[1]
            if n in fr.params and isinstance(fr.params[n], tuple):
                return fr.params[n][1]
            return n
        if e[0] == "str":
            return e[1]
        raise ILError("malformed", "symbolic argument %r" % (e,))

    # ---- pures
    def c_pure(self, e, fr):
        k = e[0]
        if k == "id":
            n = e[1]
            if n == "IL_TRUE":
                return lambda m: True
            if n == "IL_FALSE":
                return lambda m: False
            if n in fr.pure_cache:
                return fr.pure_cache[n]
            if n in fr.params:
                p = fr.params[n]
                if callable(p):
                    return p
                raise ILError("malformed", "parameter %s used as a pure" % n)
            d = fr.body.by_name.get(n)
            if d is None:
                raise ILError("undeclared", n)
            if d.kind != "pure":
                raise ILError("malformed", "%s used as a pure" % n)
            f = self.c_pure(d.expr, fr)
            fr.pure_cache[n] = f
            return f
        if k != "call":
            raise ILError("malformed", "pure %r" % (e,))
        n, a = e[1], e[2]
        P = lambda i: self.c_pure(a[i], fr)  # noqa
        if n == "DUP":
            return P(0)
        if n in ("SN", "UN"):
            w = self.lit(a[0])
            cv = self.c_cval(a[1], fr)
            mk = mask(w)
            return lambda m: (w, cv(m) & mk)
        if n == "U32":
            cv = self.c_cval(a[0], fr)
            return lambda m: (32, cv(m) & 0xFFFFFFFF)
        if n == "CAST":
            w = self.lit(a[0])
            fill, val = P(1), P(2)
            mk = mask(w)

            def f(m):
                v = bvv(val(m), "CAST")
                if w <= v[0]:
                    return (w, v[1] & mk)
                fb = boolv(fill(m), "CAST fill")
                return (w, v[1] | ((mk ^ mask(v[0])) if fb else 0))

            return f
        if n in ("SIGNED", "UNSIGNED"):
            w = self.lit(a[0])
            val = P(1)
            mk = mask(w)
            if n == "SIGNED":
                return lambda m: (lambda v: (w, sx(v[1], v[0]) & mk))(bvv(val(m), n))
            return lambda m: (lambda v: (w, v[1] & mk))(bvv(val(m), n))
        if n == "MSB":
            val = P(0)
            return lambda m: (lambda v: bool(v[1] >> (v[0] - 1)))(bvv(val(m), n))
        if n == "NON_ZERO":
            val = P(0)
            return lambda m: bvv(val(m), n)[1] != 0
        if n == "ITE":
            c, t, f_ = P(0), P(1), P(2)
            return lambda m: t(m) if boolv(c(m), "ITE condition") else f_(m)
        if n in BINOPS:
            x, y = P(0), P(1)
            fn = BINOPS[n]

            def f(m):
                p, q = bvv(x(m), n), bvv(y(m), n)
                if p[0] != q[0]:
                    raise ILError("sort", "%s of widths %d and %d" % (n, p[0], q[0]))
                return (p[0], fn(p[1], q[1], p[0]) & mask(p[0]))

            return f
        if n == "LOGNOT":
            x = P(0)
            return lambda m: (lambda v: (v[0], ~v[1] & mask(v[0])))(bvv(x(m), n))
        if n == "NEG":
            x = P(0)
            return lambda m: (lambda v: (v[0], -v[1] & mask(v[0])))(bvv(x(m), n))
        if n in ("SHIFTL0", "SHIFTR0", "SHIFTRA"):
            x, d = P(0), P(1)

            def f(m):
                v = bvv(x(m), n)
                s = bvv(d(m), n + " distance")[1]
                w = v[0]
                if n == "SHIFTL0":
                    r = (v[1] << s) & mask(w) if s < w else 0
                elif n == "SHIFTR0":
                    r = (v[1] >> s) if s < w else 0
                else:
                    r = (sx(v[1], w) >> min(s, w)) & mask(w)
                return (w, r)

            return f
        if n in CMPS:
            x, y = P(0), P(1)
            signed = n[0] == "S"
            fn = CMPS[n]

            def f(m):
                p, q = bvv(x(m), n), bvv(y(m), n)
                if p[0] != q[0]:
                    raise ILError("sort", "%s of widths %d and %d" % (n, p[0], q[0]))
                if signed:
                    return fn(sx(p[1], p[0]), sx(q[1], q[0]))
                return fn(p[1], q[1])

            return f
        if n == "INV":
            x = P(0)
            return lambda m: not boolv(x(m), n)
        if n == "AND":
            x, y = P(0), P(1)
            return lambda m: boolv(x(m), n) & boolv(y(m), n)
        if n == "OR":
            x, y = P(0), P(1)
            return lambda m: boolv(x(m), n) | boolv(y(m), n)
        if n in ("INC", "DEC"):
            x = P(0)
            w = self.lit(a[1])
            dlt = 1 if n == "INC" else -1

            def f(m):
                v = bvv(x(m), n)
                if v[0] != w:
                    raise ILError("sort", "%s of %d bits with width argument %d" % (n, v[0], w))
                return (w, (v[1] + dlt) & mask(w))

            return f
        if n == "VARL":
            name = a[0][1]
            own = fr.own_locals

            def f(m, name=name):
                if m.isolate_callee_locals and name in own and m.act_stack:
                    name = "%s@%d" % (name, m.act_stack[-1])
                if name not in m.loc:
                    raise ILError("unset-local", name)
                if m.monitor_frames and m.depth == 0 and name in m.callee_wrote and name != "ret_val":
                    m.leaks.append(name)
                return m.loc[name]

            return f
        if n == "VARLP":
            name = a[0][1]

            def f(m):
                for ln, lv in reversed(m.let):
                    if ln == name:
                        return lv
                raise ILError("let-scope", name)

            return f
        if n == "LET":
            name = a[0][1]
            val, body = P(1), P(2)

            def f(m):
                v = val(m)
                m.let.append((name, v))
                try:
                    return body(m)
                finally:
                    m.let.pop()

            return f
        if n == "READ_REG":
            op = self.c_op(a[1], fr)
            tmp = a[2] == ("id", "true")
            if a[2] not in (("id", "true"), ("id", "false")):
                raise ILError("malformed", "READ_REG flag %r" % (a[2],))
            return lambda m: m.read_reg(op(m), tmp)
        if n == "LOADW":
            w = self.lit(a[0])
            ad = P(1)
            nb = w // 8

            def f(m):
                adr = bvv(ad(m), "LOADW address")
                if adr[0] != 32:
                    raise ILError("sort", "LOADW address of %d bits" % adr[0])
                if w % 8:
                    raise ILError("sort", "LOADW of %d bits" % w)
                v = 0
                for i in range(nb):
                    v |= m.memrd((adr[1] + i) & 0xFFFFFFFF) << (8 * i)
                return (w, v)

            return f
        if n in il.FIXED_SIGS:
            ps, rw = il.FIXED_SIGS[n]
            if len(a) != len(ps):
                raise ILError("malformed", "%s arity" % n)
            args = [P(i) for i in range(len(a))]
            fn = QEMU_HELPERS[n]

            def f(m):
                vs = []
                for i, (g, pw) in enumerate(zip(args, ps)):
                    v = bvv(g(m), n)
                    if v[0] != pw:
                        raise ILError("sort", "%s argument %d of %d bits" % (n, i + 1, v[0]))
                    vs.append(v[1])
                return (rw, fn(*vs) & mask(rw))

            return f
        if n == "HEX_REGFIELD":
            prop = self.c_name(a[0], fr)
            field_e = a[1]

            def f(m):
                field = self.c_name(field_e, fr)
                if (prop, field) not in m.regfield:
                    raise ILError("env", "REGFIELD(%s, %s)" % (prop, field))
                return (32, m.regfield[(prop, field)] & 0xFFFFFFFF)

            return f
        if n == "HEX_GET_CORRESPONDING_CS":
            op = self.c_op(a[1], fr)

            def f(m):
                op(m)
                return (32, m.cs & 0xFFFFFFFF)

            return f
        if n in uninterp.FLOAT_PURES:
            return uninterp.compile_float_pure(self, n, a, fr)
        raise ILError("unknown-op", n)

    def lit(self, e):
        if e[0] != "num":
            raise ILError("malformed", "literal expected: %r" % (e,))
        return e[1]

    # ---- effects
    def c_effect(self, e, fr):
        k = e[0]
        if k == "id":
            n = e[1]
            if n in fr.effect_cache:
                return fr.effect_cache[n]
            d = fr.body.by_name.get(n)
            if d is None:
                raise ILError("undeclared", n)
            if d.kind != "effect":
                raise ILError("malformed", "%s used as an effect" % n)
            f = self.c_effect(d.expr, fr)
            fr.effect_cache[n] = f
            return f
        if k != "call":
            raise ILError("malformed", "effect %r" % (e,))
        n, a = e[1], e[2]
        if n in ("EMPTY", "NOP"):
            return lambda m: None
        if n == "SEQN" or (n.startswith("SEQ") and n[3:].isdigit()):
            if n == "SEQN":
                cnt = self.lit(a[0])
                effs = a[1:]
            else:
                cnt = int(n[3:])
                effs = a
            if cnt != len(effs):
                raise ILError("sort", "%s count %d with %d effects" % (n, cnt, len(effs)))
            fs = [self.c_effect(x, fr) for x in effs]

            def f(m):
                for g in fs:
                    g(m)

            return f
        if n == "SETL":
            name = a[0][1]
            val = self.c_pure(a[1], fr)
            own = fr.own_locals

            def f(m, name=name):
                if m.isolate_callee_locals and name in own and m.act_stack:
                    name = "%s@%d" % (name, m.act_stack[-1])
                m.steps += 1
                v = val(m)
                old = m.loc.get(name)
                if old is not None:
                    if type(old) is not type(v) or (not isinstance(v, bool) and old[0] != v[0]):
                        m.widthchg.append((name, sortname(old), sortname(v)))
                m.loc[name] = v
                if m.monitor_frames:
                    if m.depth:
                        m.callee_wrote[name] = m.depth
                    else:
                        m.callee_wrote.pop(name, None)

            return f
        if n == "BRANCH":
            c = self.c_pure(a[0], fr)
            t, o = self.c_effect(a[1], fr), self.c_effect(a[2], fr)

            def f(m):
                m.steps += 1
                (t if boolv(c(m), "BRANCH condition") else o)(m)

            return f
        if n == "REPEAT":
            c = self.c_pure(a[0], fr)
            body = self.c_effect(a[1], fr)

            def f(m):
                while boolv(c(m), "REPEAT condition"):
                    m.steps += 1
                    if m.steps > m.max_steps:
                        raise ILHorizon("horizon", "REPEAT exceeded %d steps" % m.max_steps)
                    body(m)

            return f
        if n == "WRITE_REG":
            op = self.c_op(a[1], fr)
            val = self.c_pure(a[2], fr)

            def f(m):
                m.steps += 1
                m.write_reg(op(m), val(m))

            return f
        if n == "STOREW":
            ad, val = self.c_pure(a[0], fr), self.c_pure(a[1], fr)

            def f(m):
                m.steps += 1
                adr = bvv(ad(m), "STOREW address")
                if adr[0] != 32:
                    raise ILError("sort", "STOREW address of %d bits" % adr[0])
                v = bvv(val(m), "STOREW value")
                if v[0] % 8:
                    raise ILError("sort", "STOREW of %d bits" % v[0])
                for i in range(v[0] // 8):
                    m.mem[(adr[1] + i) & 0xFFFFFFFF] = (v[1] >> (8 * i)) & 0xFF

            return f
        if n == "HEX_STORE_SLOT_CANCELLED":

            def f(m):
                m.slot_cancel = True

            return f
        if n == "HEX_GET_NPC":

            def f(m):
                m.loc["ret_val"] = (64, m.npc & 0xFFFFFFFF)

            return f
        if n == "HEX_SETROUND":
            return lambda m: None
        if n.startswith("hex_"):
            return self.c_call(n[4:], a, fr)
        raise ILError("unknown-effect", n)

    def c_call(self, rname, args, fr):
        if rname not in self.subs:
            raise ILError("unknown-routine", rname)
        cb = self.subs[rname]
        if fr.depth > 12:
            raise ILError("recursion", rname)
        if len(cb.params) != len(args):
            raise ILError("arity", "%s takes %d arguments, %d given" % (rname, len(cb.params), len(args)))
        params = {}
        for (pn, pk, _t), arg in zip(cb.params, args):
            if pk == "pure":
                params[pn] = self.c_pure(arg, fr)  # call-by-name thunk in the caller's frame
            elif pk == "op":
                params[pn] = self.c_op(arg, fr)
            elif pk == "bundle":
                params[pn] = ("c", "bundle")
            else:
                params[pn] = ("c", self.c_name(arg, fr))
        nfr = Frame(cb, params, self, fr.depth + 1)
        # locals the callee declares itself (from the "// Declare:" comments of its body)
        nfr.own_locals = set(n for _t, n in cb.declares) - {"ret_val"}
        if cb.ret is None:
            raise ILError("malformed", "callee %s has no return" % rname)
        body = self.c_effect(cb.ret, nfr)

        def f(m):
            m.depth += 1
            m.act_counter += 1
            m.act_stack.append(m.act_counter)
            try:
                body(m)
            finally:
                m.depth -= 1
                m.act_stack.pop()

        return f


def sortname(v):
    if isinstance(v, bool):
        return "bool"
    if type(v) is not tuple:
        return type(v).__name__
    if v[0] == "f":
        return "float%d" % v[1]
    return "bv%d" % v[0]


def bvv(v, what):
    if type(v) is tuple and v[0] != "f":
        return v
    raise ILError("sort", "%s: bitvector expected, got %s" % (what, sortname(v)))


def boolv(v, what):
    if v is True or v is False:
        return v
    raise ILError("sort", "%s: bool expected, got %s" % (what, sortname(v)))


BINOPS = {
    "ADD": lambda x, y, w: x + y,
    "SUB": lambda x, y, w: x - y,
    "MUL": lambda x, y, w: x * y,
    "DIV": lambda x, y, w: (x // y) if y else mask(w),
    "MOD": lambda x, y, w: (x % y) if y else x,
    "LOGAND": lambda x, y, w: x & y,
    "LOGOR": lambda x, y, w: x | y,
    "LOGXOR": lambda x, y, w: x ^ y,
}
CMPS = {
    "SLT": lambda p, q: p < q,
    "SLE": lambda p, q: p <= q,
    "SGT": lambda p, q: p > q,
    "SGE": lambda p, q: p >= q,
    "ULT": lambda p, q: p < q,
    "ULE": lambda p, q: p <= q,
    "UGT": lambda p, q: p > q,
    "UGE": lambda p, q: p >= q,
    "EQ": lambda p, q: p == q,
}


class HelperUB(ILError):
    """A QEMU bit-field helper was called outside its documented domain (its C source has
    undefined behaviour there): not comparable, never an alarm."""


def _rng(start, length, W, name):
    s = sx(start, 32)
    l = sx(length, 32)
    if not (0 < l <= W and 0 <= s and s + l <= W):
        raise HelperUB("helper-ub", "%s(start=%d, length=%d)" % (name, s, l))
    return s, l


def q_extract(W):
    def f(value, start, length):
        s, l = _rng(start, length, W, "extract%d" % W)
        return (value >> s) & (mask(W) >> (W - l))

    return f


def q_sextract64(value, start, length):
    s, l = _rng(start, length, 64, "sextract64")
    return sx((value >> s) & mask(l), l) & mask(64)


def q_deposit(W):
    def f(value, start, length, field):
        s, l = _rng(start, length, W, "deposit%d" % W)
        mk = (mask(W) >> (W - l)) << s
        return (value & ~mk & mask(W)) | ((field << s) & mk)

    return f


def q_bswap(W):
    return lambda v: int.from_bytes((v & mask(W)).to_bytes(W // 8, "little"), "big")


QEMU_HELPERS = {
    "EXTRACT32": q_extract(32),
    "EXTRACT64": q_extract(64),
    "SEXTRACT64": q_sextract64,
    "DEPOSIT32": q_deposit(32),
    "DEPOSIT64": q_deposit(64),
    "BSWAP16": q_bswap(16),
    "BSWAP32": q_bswap(32),
    "BSWAP64": q_bswap(64),
}
