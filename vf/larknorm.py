"""Normaliser for C17: Lark trees of grammar.lark and reference ASTs of vf.cparse are both mapped
to one canonical tuple form, so that "same structure" is plain equality.

The Lark side is a TABLE from the grammar's rule names to canonical node kinds (EXPR_TABLE,
STMT_TABLE, TYPE rules).  A rule name (or a child shape) the table does not know raises Unknown,
which the check reports as a mismatch - nothing is ever skipped.

Canonical form
  leaves       ('id', name) ('num', spelling) ('fnum', text) ('str', text)
               ('reg', class, letters, is_new)      RsV RssV PuN ...
               ('xreg', spelling, is_new)           P0 R31 R11:10 P0_NEW
               ('alias', NAME, is_new)              HEX_REG_ALIAS_LR
               ('imm', letter)                      siV UiV
  expressions  ('bin', op, a, b) ('un', op, e) ('post', op, e) ('cond', c, a, b)
               ('assign', op, l, r) ('comma', a, b) ('cast', type, e) ('call', callee, (args..))
               ('sizeof_e', e) ('sizeof_t', type) ('stmtexpr', (items..))
               ('memload', sign, width, (args..)) ('memstore', sign, width, (args..)) ('jump', e) ('nop',) ('cancel',)
               ('macro', NAME, (args..))     the dialect's built-ins, by the names of the QEMU/Rizin macros
               ('index', a, i) ('member', a, name) ('arrow', a, name)
  statements   ('block', (items..)) ('expr', e) ('empty',) ('decl', quals, ((name, type, init|None)..))
               ('if', c, then, else|None) ('for', init|None, cond|None, step|None, body)
               ('while', c, body) ('do', body, c) ('switch', e, body) ('case', e, s) ('default', s)
               ('label', name, s) ('break',) ('continue',) ('goto', name) ('return', e|None)

Facts about the trees (probed on the real parser): '?'-rules inline a single child, so an
expression statement is the bare expression node, `( e )` leaves no node, a one-item compound
statement is the bare `block_item`, a longer one a left-nested `block_item_list`, `{ }` is
`compound_stmt []`, `;` is `expr_stmt []`; `jump` carries no ';' (the ';' of `JUMP(x);` is a
separate empty statement); `mem_store` carries its ';'.

Equivalences applied to BOTH sides by simplify() (documented, they lose nothing the property
talks about):
  E1  empty statements are dropped from block item lists (not from if/loop bodies): the
      grammar's compound_stmt takes an optional ';' after '}' and JUMP(..)/__NOP leave their ';'
      as a separate empty statement, while C sees `{..}` followed by an empty statement.
  E2  an expression statement that consists of a statement-expression only is the block of its
      items (`{ a; b; };` may derive as compound_stmt [";"] or as expr_stmt of gcc_extended_expr;
      parentheses leave no node).
  E3  a behaviour that is one braced block is that block (fbody: stmt*).
"""
import re

from lark import Token, Tree

from vf import cparse, drive


class Unknown(Exception):
    """A tree shape the table has no entry for."""


BINRULES = {
    "multiplicative_expr": ("*", "/", "%"),
    "additive_expr": ("+", "-"),
    "shift_expr": ("<<", ">>"),
    "relational_expr": ("<", ">", "<=", ">="),
    "equality_expr": ("==", "!="),
    "and_expr": ("&",),
    "exclusive_or_expr": ("^",),
    "inclusive_or_expr": ("|",),
    "logical_and_expr": ("&&",),
    "logical_or_expr": ("||",),
}

PTR_SHAPE = re.compile(r"^[^&]&[^&]$")

# built-ins of the dialect (what the shortcode macros expand to); a call of one of these names is not a
# sub-routine call.  The reference side recognises them by name, the Lark side by rule.
MEM_RE = re.compile(r"^mem_(load|store)_([su])(1|2|4|8|16|32|64)$")
DIALECT_MACROS = {
    "FLOAT", "DOUBLE", "fUNFLOAT", "fUNDOUBLE", "HEX_GET_INSN_RMODE", "HEX_SETROUND", "HEX_SINT_TO_D", "HEX_SINT_TO_F", "HEX_INT_TO_D", "HEX_INT_TO_F",
    "HEX_F_TO_SINT", "HEX_D_TO_SINT", "HEX_F_TO_INT", "HEX_D_TO_INT",
    "REGFIELD", "extract32", "extract64", "sextract64", "deposit32", "deposit64", "bswap16", "bswap32", "bswap64", "get_corresponding_CS",
}

# ---------------------------------------------------------------------------------------
# Lark side: types

STORAGE_OR_QUAL = {"const", "volatile", "static", "register", "restrict", "auto", "extern", "inline", "typedef", "_Atomic"}


def _type_words(t, words, quals):
    if isinstance(t, Token):
        s = str(t)
        (quals if s in STORAGE_OR_QUAL else words).append(s)
        return
    d, c = t.data, t.children
    if d == "type_specifier":
        if len(c) != 1:
            raise Unknown("type_specifier with %d children" % len(c))
        x = c[0]
        if isinstance(x, Token):
            words.append(str(x))
        elif x.data == "c_int_type" and len(x.children) == 2:
            words.append("%s%s_t" % (x.children[0], x.children[1]))
        elif x.data == "c_size_type" and len(x.children) == 2:
            words.append("size%s%s_t" % (x.children[0], x.children[1]))
        else:
            raise Unknown("type_specifier/%s" % x.data)
        return
    if d in ("declaration_specifiers", "specifier_qualifier_list"):
        for x in c:
            _type_words(x, words, quals)
        return
    raise Unknown("type node %s" % d)


def _pointer_depth(t):
    if not isinstance(t, Tree) or t.data != "pointer":
        raise Unknown("abstract declarator %s" % (t.data if isinstance(t, Tree) else t))
    n = 1
    for x in t.children:
        if isinstance(x, Tree) and x.data == "pointer":
            n += _pointer_depth(x)
        elif isinstance(x, Token) and str(x) in STORAGE_OR_QUAL:
            pass
        else:
            raise Unknown("pointer child %r" % (x,))
    return n


def lark_type(t):
    """-> (canonical type, sorted qualifier tuple)"""
    depth = 0
    if isinstance(t, Tree) and t.data == "type_name":
        if len(t.children) != 2:
            raise Unknown("type_name with %d children" % len(t.children))
        depth = _pointer_depth(t.children[1])
        t = t.children[0]
    words, quals = [], []
    _type_words(t, words, quals)
    if not words:
        raise Unknown("type without a specifier")
    ty = canon_type(cparse.resolve_type(words))
    for _ in range(depth):
        ty = ("ptr", ty)
    return ty, tuple(sorted(quals))


def canon_type(t):
    if isinstance(t, (list, tuple)):
        return tuple(canon_type(x) for x in t)
    return t


# ---------------------------------------------------------------------------------------
# Lark side: expressions (table)


def _tok(x, what):
    if not isinstance(x, Token):
        raise Unknown("%s: token expected, got %s" % (what, x.data if isinstance(x, Tree) else x))
    return str(x)


def _n(t, *lens):
    if len(t.children) not in lens:
        raise Unknown("%s with %d children" % (t.data, len(t.children)))


def x_identifier(t):
    _n(t, 1)
    return ("id", _tok(t.children[0], "identifier"))


def x_number(t):
    _n(t, 2)
    return ("num", _tok(t.children[0], "number") + (_tok(t.children[1], "number suffix") if t.children[1] is not None else ""))


def x_float(t):
    _n(t, 1)
    return ("fnum", _tok(t.children[0], "float"))


def x_reg(t):
    _n(t, 2)
    return ("reg", _tok(t.children[0], "reg"), _tok(t.children[1], "reg"), t.data == "new_reg")


def x_explicit(t):
    _n(t, 2)
    if t.children[1] is not None and _tok(t.children[1], "explicit_reg") != "_NEW":
        raise Unknown("explicit_reg suffix %r" % (t.children[1],))
    return ("xreg", _tok(t.children[0], "explicit_reg"), t.children[1] is not None)


def x_alias(t):
    _n(t, 2)
    p = t.children[1]
    if p is not None and not (isinstance(p, Tree) and p.data == "reg_alias_new_postfix" and not p.children):
        raise Unknown("reg_alias postfix %r" % (p,))
    return ("alias", _tok(t.children[0], "reg_alias"), p is not None)


def x_imm(t):
    _n(t, 1)
    return ("imm", _tok(t.children[0], "imm"))


def x_bin(t):
    _n(t, 3)
    op = _tok(t.children[1], t.data)
    if op not in BINRULES[t.data]:
        raise Unknown("%s with operator %r" % (t.data, op))
    return ("bin", op, lexpr(t.children[0]), lexpr(t.children[2]))


def unary_op_text(tok):
    """UNARY_OP may be the PTR terminal /[^&]&[^&]/: blank-&-blank is the address operator,
    anything else is kept verbatim (it has swallowed its neighbours)."""
    s = str(tok)
    if s.strip() == "&":
        return "&"
    return s


def x_unary(t):
    _n(t, 2)
    op = t.children[0]
    if not isinstance(op, Token):
        raise Unknown("unary_expr operator %r" % (op,))
    ty = op.type
    a = t.children[1]
    if ty in ("INC_OP", "DEC_OP"):
        return ("un", str(op), lexpr(a))
    if ty == "UNARY_OP":
        return ("un", unary_op_text(op), lexpr(a))
    if ty == "SIZEOF":
        if isinstance(a, Tree) and a.data in ("type_specifier", "specifier_qualifier_list", "type_name"):
            return ("sizeof_t", lark_type(a)[0])
        return ("sizeof_e", lexpr(a))
    raise Unknown("unary_expr operator token %s" % ty)


def x_cast(t):
    _n(t, 2)
    return ("cast", lark_type(t.children[0])[0], lexpr(t.children[1]))


def x_cond(t):
    _n(t, 3)
    return ("cond", lexpr(t.children[0]), lexpr(t.children[1]), lexpr(t.children[2]))


def x_assign(t):
    _n(t, 3)
    op = t.children[1]
    if not isinstance(op, Token) or op.type != "ASSIGN_OP":
        raise Unknown("assignment_expr operator %r" % (op,))
    return ("assign", str(op), lexpr(t.children[0]), lexpr(t.children[2]))


def x_postfix(t):
    c = t.children
    if len(c) == 2 and isinstance(c[1], Token) and c[1].type in ("INC_OP", "DEC_OP"):
        return ("post", str(c[1]), lexpr(c[0]))
    if len(c) == 2 and isinstance(c[1], Token) and c[1].type == "IDENTIFIER":
        return ("member", lexpr(c[0]), str(c[1]))
    if len(c) == 3 and isinstance(c[1], Token) and c[1].type == "PTR_OP" and isinstance(c[2], Token):
        return ("arrow", lexpr(c[0]), str(c[2]))
    if len(c) == 2 and isinstance(c[1], Tree):
        return ("index", lexpr(c[0]), lexpr(c[1]))
    raise Unknown("postfix_expr shape %r" % ([x.data if isinstance(x, Tree) else str(x) for x in c],))


def _args(cs):
    if len(cs) == 1 and cs[0] is None:
        return ()
    if any(x is None for x in cs):
        raise Unknown("argument list with a hole")
    return tuple(lexpr(x) for x in cs)


def x_sub_routine(t):
    if not t.children:
        raise Unknown("sub_routine without children")
    name = lexpr(t.children[0])
    return ("call", name, _args(t.children[1:]))


def x_macro(t):
    if not t.children or not isinstance(t.children[0], Token):
        raise Unknown("macro_expr shape")
    return ("macro", str(t.children[0]), _args(t.children[1:]))


def _mem(t):
    c = t.children
    if len(c) < 4 or not all(isinstance(x, Token) for x in c[:3]):
        raise Unknown("%s shape" % t.data)
    m = MEM_RE.match("%s%s%s" % (c[0], c[1], c[2]))
    if not m or (m.group(1) == "load") != (t.data == "mem_load"):
        raise Unknown("%s with tokens %r" % (t.data, [str(x) for x in c[:3]]))
    return ("mem" + m.group(1), m.group(2), m.group(3), _args(c[3:]))


def x_comma(t):
    _n(t, 2)
    return ("comma", lexpr(t.children[0]), lexpr(t.children[1]))


def x_stmtexpr(t):
    _n(t, 2)
    items = []
    if t.children[0] is not None:
        items.extend(block_items(t.children[0]))
    items.append(lstmt(t.children[1]))
    return ("stmtexpr", tuple(items))


EXPR_TABLE = {
    "identifier": x_identifier,
    "number": x_number,
    "float_number": x_float,
    "reg": x_reg,
    "new_reg": x_reg,
    "explicit_reg": x_explicit,
    "reg_alias": x_alias,
    "imm": x_imm,
    "unary_expr": x_unary,
    "cast_expr": x_cast,
    "conditional_expr": x_cond,
    "assignment_expr": x_assign,
    "postfix_expr": x_postfix,
    "sub_routine": x_sub_routine,
    "macro_expr": x_macro,
    "mem_load": _mem,
    "expr": x_comma,
    "gcc_extended_expr": x_stmtexpr,
}
for _r in BINRULES:
    EXPR_TABLE[_r] = x_bin


def lexpr(t):
    if isinstance(t, Token):
        if t.type == "ESCAPED_STRING":
            return ("str", str(t))
        raise Unknown("token %s %r in expression position" % (t.type, str(t)))
    if t is None:
        raise Unknown("hole in expression position")
    f = EXPR_TABLE.get(t.data)
    if f is None:
        raise Unknown("no table entry for rule %r in expression position" % (t.data,))
    return f(t)


# ---------------------------------------------------------------------------------------
# Lark side: statements (table)


def block_items(t):
    """block_item | block_item_list (left-nested) -> list of canonical items"""
    if isinstance(t, Tree) and t.data == "block_item":
        _n(t, 1)
        return [litem(t.children[0])]
    if isinstance(t, Tree) and t.data == "block_item_list":
        _n(t, 2)
        head, last = t.children
        if not (isinstance(last, Tree) and last.data == "block_item"):
            raise Unknown("block_item_list tail %r" % (last,))
        return block_items(head) + block_items(last)
    raise Unknown("block item list node %r" % (t.data if isinstance(t, Tree) else t,))


def litem(t):
    if isinstance(t, Tree) and t.data == "declaration":
        return s_declaration(t)
    return lstmt(t)


def _declarator(x, base):
    """-> (name, type) for IDENTIFIER | declarator [pointer, IDENTIFIER]"""
    if isinstance(x, Token) and x.type == "IDENTIFIER":
        return str(x), base
    if isinstance(x, Tree) and x.data == "declarator" and len(x.children) == 2:
        depth = _pointer_depth(x.children[0])
        name, ty = _declarator(x.children[1], base)
        for _ in range(depth):
            ty = ("ptr", ty)
        return name, ty
    raise Unknown("declarator %r" % (x.data if isinstance(x, Tree) else x,))


def _init_declarators(x, base):
    if isinstance(x, Tree) and x.data == "init_declarator_list":
        _n(x, 2)
        return _init_declarators(x.children[0], base) + _init_declarators(x.children[1], base)
    if isinstance(x, Tree) and x.data == "init_declarator":
        _n(x, 2)
        name, ty = _declarator(x.children[0], base)
        return [(name, ty, lexpr(x.children[1]))]
    name, ty = _declarator(x, base)
    return [(name, ty, None)]


def s_declaration(t):
    _n(t, 2)
    base, quals = lark_type(t.children[0])
    return ("decl", quals, tuple(_init_declarators(t.children[1], base)))


def s_block_item(t):
    return ("block", tuple(block_items(t)))


def s_compound(t):
    _n(t, 0)
    return ("block", ())


def s_expr_stmt(t):
    _n(t, 0)
    return ("empty",)


def s_selection(t):
    c = t.children
    kw = _tok(c[0], "selection_stmt") if c else None
    if kw == "if" and len(c) == 3:
        return ("if", lexpr(c[1]), lstmt(c[2]), None)
    if kw == "if" and len(c) == 5 and _tok(c[3], "selection_stmt") == "else":
        return ("if", lexpr(c[1]), lstmt(c[2]), lstmt(c[4]))
    if kw == "switch" and len(c) == 3:
        return ("switch", lexpr(c[1]), lstmt(c[2]))
    raise Unknown("selection_stmt shape %r" % ([x.data if isinstance(x, Tree) else str(x) for x in c],))


def _opt_expr(x):
    if isinstance(x, Tree) and x.data == "expr_stmt":
        _n(x, 0)
        return None
    return lexpr(x)


def s_iteration(t):
    c = t.children
    kw = _tok(c[0], "iteration_stmt") if c else None
    if kw == "while" and len(c) == 3:
        return ("while", lexpr(c[1]), lstmt(c[2]))
    if kw == "do" and len(c) == 4 and _tok(c[2], "iteration_stmt") == "while":
        return ("do", lstmt(c[1]), lexpr(c[3]))
    if kw == "for" and len(c) in (4, 5):
        if isinstance(c[1], Tree) and c[1].data == "declaration":
            init = s_declaration(c[1])
        else:
            e = _opt_expr(c[1])
            init = None if e is None else ("expr", e)
        cond = _opt_expr(c[2])
        step = lexpr(c[3]) if len(c) == 5 else None
        return ("for", init, cond, step, lstmt(c[-1]))
    raise Unknown("iteration_stmt shape %r" % ([x.data if isinstance(x, Tree) else str(x) for x in c],))


def s_jump_stmt(t):
    c = t.children
    if len(c) == 1 and isinstance(c[0], Tree) and c[0].data == "jump":
        return s_jump(c[0])
    kw = _tok(c[0], "jump_stmt") if c else None
    if kw == "goto" and len(c) == 2:
        return ("goto", _tok(c[1], "goto"))
    if kw in ("continue", "break") and len(c) == 1:
        return (kw,)
    if kw == "return" and len(c) == 1:
        return ("return", None)
    if kw == "return" and len(c) == 2:
        return ("return", lexpr(c[1]))
    raise Unknown("jump_stmt shape")


def s_jump(t):
    c = t.children
    if len(c) == 1 and isinstance(c[0], Tree) and c[0].data == "nop":
        return s_nop(c[0])
    if len(c) == 2 and isinstance(c[0], Token) and c[0].type == "JUMP":
        return ("expr", ("jump", lexpr(c[1])))
    raise Unknown("jump shape")


def s_nop(t):
    _n(t, 1)
    if _tok(t.children[0], "nop") != "__NOP":
        raise Unknown("nop token %r" % (t.children[0],))
    return ("expr", ("nop",))


def s_mem_store(t):
    return ("expr", _mem(t))


def s_cancel(t):
    _n(t, 0)
    return ("expr", ("cancel",))


def s_labeled(t):
    c = t.children
    if len(c) == 2 and isinstance(c[0], Token) and c[0].type == "IDENTIFIER":
        return ("label", str(c[0]), lstmt(c[1]))
    if len(c) == 3 and isinstance(c[0], Token) and c[0].type == "CASE":
        return ("case", lexpr(c[1]), lstmt(c[2]))
    if len(c) == 2 and isinstance(c[0], Token) and c[0].type == "DEFAULT":
        return ("default", lstmt(c[1]))
    raise Unknown("labeled_stmt shape")


STMT_TABLE = {
    "block_item": s_block_item,
    "block_item_list": s_block_item,
    "compound_stmt": s_compound,
    "expr_stmt": s_expr_stmt,
    "selection_stmt": s_selection,
    "iteration_stmt": s_iteration,
    "jump_stmt": s_jump_stmt,
    "jump": s_jump,
    "nop": s_nop,
    "mem_store": s_mem_store,
    "cancel_slot_stmt": s_cancel,
    "labeled_stmt": s_labeled,
}

TABLE_RULES = sorted(set(EXPR_TABLE) | set(STMT_TABLE) | {"fbody", "declaration", "declaration_specifiers", "specifier_qualifier_list", "type_specifier", "type_name", "pointer", "c_int_type", "c_size_type", "init_declarator", "init_declarator_list", "declarator", "reg_alias_new_postfix"})


def lstmt(t):
    if isinstance(t, Tree):
        f = STMT_TABLE.get(t.data)
        if f is not None:
            return f(t)
        if t.data in EXPR_TABLE:
            return ("expr", lexpr(t))
        raise Unknown("no table entry for rule %r in statement position" % (t.data,))
    if isinstance(t, Token) and t.type == "ESCAPED_STRING":
        return ("expr", lexpr(t))
    raise Unknown("%r in statement position" % (t,))


def lark_canon(tree):
    """Lark tree of a behaviour -> canonical form (raises Unknown)."""
    if not isinstance(tree, Tree) or tree.data != "fbody":
        raise Unknown("root is %r" % (getattr(tree, "data", tree),))
    return simplify_top(tuple(lstmt(x) for x in tree.children))


def rules_of(tree):
    return set(t.data for t in tree.iter_subtrees())


# ---------------------------------------------------------------------------------------
# reference side

XPAIR = "__XPAIR%d__"
XPAIR_RE = re.compile(r"^__XPAIR(\d+)__$")


def protect_explicit_pairs(text):
    """`R11:10` is one operand token of the dialect but three C tokens.  Replace every explicit
    pair the operand scanner finds by a placeholder identifier.  -> (text', [spelling..])"""
    pairs = []

    def sub(m):
        if m.group(3) is None:
            return m.group(0)
        pairs.append(m.group(0))
        return XPAIR % (len(pairs) - 1)

    return drive.EXPL_RE.sub(sub, text), pairs


def classify_identifier(name, pairs):
    """identifier token -> canonical leaf, by the independent operand scanner"""
    m = XPAIR_RE.match(name)
    if m and int(m.group(1)) < len(pairs):
        name = pairs[int(m.group(1))]
    ops = drive.scan_operands(name)
    o = ops.get(name)
    if o is None:
        return ("id", name)
    if o.kind == "reg":
        return ("reg", o.cls, o.key[1:], bool(o.new))
    if o.kind == "imm":
        return ("imm", o.letter)
    if o.kind == "explicit":
        return ("xreg", name[: -len("_NEW")] if o.new else name, bool(o.new))
    if o.kind in ("alias", "pc"):
        body = name[len("HEX_REG_ALIAS_") :]
        return ("alias", body[: -len("_NEW")] if o.new else body, bool(o.new))
    raise Unknown("operand kind %r" % (o.kind,))


class RefCanon:
    def __init__(self, pairs=()):
        self.pairs = list(pairs)

    def e(self, x):
        k = x[0]
        if k == "paren":
            return self.e(x[1])
        if k == "plainid":  # set by a finding rule of the check: this name is read as an ordinary identifier
            return ("id", x[1])
        if k == "id":
            if x[1] == "__NOP":
                return ("nop",)
            if x[1] == "cancel_slot":
                return ("cancel",)
            return classify_identifier(x[1], self.pairs)
        if k == "num":
            return ("num", x[3])
        if k in ("fnum", "str"):
            return (k, x[1])
        if k == "un":
            return ("un", x[1], self.e(x[2]))
        if k == "post":
            return ("post", x[1], self.e(x[2]))
        if k == "bin":
            return ("bin", x[1], self.e(x[2]), self.e(x[3]))
        if k == "cond":
            return ("cond", self.e(x[1]), self.e(x[2]), self.e(x[3]))
        if k == "assign":
            return ("assign", x[1], self.e(x[2]), self.e(x[3]))
        if k == "comma":
            return ("comma", self.e(x[1]), self.e(x[2]))
        if k == "cast":
            return ("cast", canon_type(x[1]), self.e(x[2]))
        if k == "call":
            callee = x[1]
            while callee[0] == "paren":
                callee = callee[1]
            # the callee of the dialect is a plain name (grammar: sub_routine: identifier "(" ..)
            args = tuple(self.e(a) for a in x[2])
            if callee[0] == "plainid":
                return ("call", ("id", callee[1]), args)
            if callee[0] == "id":
                name = callee[1]
                m = MEM_RE.match(name)
                if m:
                    return ("mem" + m.group(1), m.group(2), m.group(3), args)
                if name == "JUMP" and len(args) == 1:
                    return ("jump", args[0])
                if name in DIALECT_MACROS:
                    return ("macro", name, args)
                return ("call", ("id", name), args)
            return ("call", self.e(callee), args)
        if k == "sizeof_e":
            return ("sizeof_e", self.e(x[1]))
        if k == "sizeof_t":
            return ("sizeof_t", canon_type(x[1]))
        if k == "stmtexpr":
            return ("stmtexpr", tuple(self.s(i) for i in x[1]))
        if k == "index":
            return ("index", self.e(x[1]), self.e(x[2]))
        if k in ("member", "arrow"):
            return (k, self.e(x[1]), x[2])
        raise Unknown("reference expression kind %r" % (k,))

    def s(self, x):
        k = x[0]
        if k == "block":
            return ("block", tuple(self.s(i) for i in x[1]))
        if k == "expr":
            return ("expr", self.e(x[1]))
        if k in ("empty", "break", "continue"):
            return (k,)
        if k == "decl":
            # the declared type is kept per declarator (cparse folds a leading `*` into its base type)
            return ("decl", tuple(x[2]), tuple((n, canon_type(t), None if i is None else self.e(i)) for (n, i, t) in x[3]))
        if k == "if":
            return ("if", self.e(x[1]), self.s(x[2]), None if x[3] is None else self.s(x[3]))
        if k == "for":
            return ("for", None if x[1] is None else self.s(x[1]), None if x[2] is None else self.e(x[2]), None if x[3] is None else self.e(x[3]), self.s(x[4]))
        if k == "while":
            return ("while", self.e(x[1]), self.s(x[2]))
        if k == "do":
            return ("do", self.s(x[1]), self.e(x[2]))
        if k == "switch":
            return ("switch", self.e(x[1]), self.s(x[2]))
        if k == "case":
            return ("case", self.e(x[1]), self.s(x[2]))
        if k == "default":
            return ("default", self.s(x[1]))
        if k == "label":
            return ("label", x[1], self.s(x[2]))
        if k == "goto":
            return ("goto", x[1])
        if k == "return":
            return ("return", None if x[1] is None else self.e(x[1]))
        raise Unknown("reference statement kind %r" % (k,))


def ref_parse(text):
    """text -> (raw cparse AST, explicit-pair spellings); raises cparse.CSyntaxError"""
    t2, pairs = protect_explicit_pairs(text)
    return cparse.parse_behaviour(t2), pairs


def ref_canon(text):
    """text -> canonical form of the reference parse; raises cparse.CSyntaxError / Unknown"""
    ast, pairs = ref_parse(text)
    return ref_canon_ast(ast, pairs)


def ref_canon_ast(ast, pairs=()):
    c = RefCanon(pairs).s(ast)
    return simplify_top((c,))


# ---------------------------------------------------------------------------------------
# shared equivalences E1-E3


def simplify(x):
    if not isinstance(x, tuple) or not x:
        return x
    k = x[0]
    if k in ("block", "stmtexpr") and len(x) == 2 and isinstance(x[1], tuple):
        items = tuple(simplify(i) for i in x[1])
        items = tuple(i for i in items if i != ("empty",))  # E1
        return (k, items)
    y = tuple(simplify(i) for i in x)
    if k == "expr" and len(y) == 2 and isinstance(y[1], tuple) and y[1] and y[1][0] == "stmtexpr":
        return ("block", y[1][1])  # E2
    return y


def simplify_top(items):
    b = simplify(("block", tuple(items)))
    while len(b[1]) == 1 and b[1][0][0] == "block":  # E3
        b = b[1][0]
    return b


# ---------------------------------------------------------------------------------------
# helpers for the check


def first_diff(a, b, path=()):
    """-> None | (path, a_part, b_part) at the first position where two canonical forms differ"""
    if a == b:
        return None
    if not isinstance(a, tuple) or not isinstance(b, tuple):
        return path, a, b
    if len(a) != len(b) or (a and b and isinstance(a[0], str) and isinstance(b[0], str) and a[0] != b[0]):
        return path, a, b
    for i, (x, y) in enumerate(zip(a, b)):
        if x != y:
            return first_diff(x, y, path + (i,))
    return path, a, b


def walk(x):
    """all canonical nodes (tuples whose head is a string), pre-order"""
    if isinstance(x, tuple):
        if x and isinstance(x[0], str):
            yield x
        for i in x:
            for y in walk(i):
                yield y


def rewrite(x, fn):
    """bottom-up rewriting of a canonical form"""
    if isinstance(x, tuple):
        x = tuple(rewrite(i, fn) for i in x)
        if x and isinstance(x[0], str):
            return fn(x)
    return x


def tree_dump(t):
    """canonical text of a Lark tree including token types (Tree.pretty() omits them)"""
    out = []

    def rec(x, d):
        if isinstance(x, Tree):
            out.append("%s%s" % (" " * d, x.data))
            for c in x.children:
                rec(c, d + 1)
        elif isinstance(x, Token):
            out.append("%s%s:%r" % (" " * d, x.type, str(x)))
        else:
            out.append("%s%r" % (" " * d, x))

    rec(t, 0)
    return "\n".join(out)
