"""./check <ID> [--tier quick|thorough] [--replay file]"""
import argparse
import importlib
import os
import sys
import traceback

from vf import core


def main():
    ap = argparse.ArgumentParser()
    ap.add_argument("pid")
    ap.add_argument("--tier", default=os.environ.get("VERIF_TIER", "quick"), choices=["quick", "thorough"])
    ap.add_argument("--replay", default=None)
    args = ap.parse_args()
    seed = int(os.environ.get("VERIF_SEED", "0") or 0)
    pid = args.pid.upper()
    core.quiet_tqdm()
    try:
        mod = importlib.import_module("vf.props.%s" % pid.lower())
    except ModuleNotFoundError as e:
        print("no such check: %s (%s)" % (pid, e))
        return 2
    ctx = core.Ctx(pid, args.tier, seed, mod.LEVEL)
    try:
        if args.replay:
            rp = args.replay if os.path.isabs(args.replay) else os.path.join(os.environ.get("VERIF_CALLER_CWD", core.VERIF), args.replay)
            return mod.replay(ctx, rp)
        return mod.run(ctx)
    except core.HarnessError as e:
        print("HARNESS-ERROR property=%s %s" % (pid, e))
        traceback.print_exc()
        return 2
    except Exception as e:  # noqa
        print("HARNESS-ERROR property=%s unexpected %r" % (pid, e))
        traceback.print_exc()
        return 2


if __name__ == "__main__":
    sys.stdout.reconfigure(line_buffering=True)
    sys.exit(main())
