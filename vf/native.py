"""E3n: self-validation of the C reference against two real C compilers.

For a list of ProgSpecs the strict reference (vf.ceval, D = {}) is compared with native
execution of the same behaviour text compiled by gcc and by clang (-O0 -fwrapv), on every
state on which the reference reports no undefined behaviour.  A disagreement is a *harness*
error (exit 2) - never a verdict about the compiler under test.
"""
import json
import os
import re
import shutil
import subprocess
import tempfile

from vf import ceval, core, cparse, drive, prog

PRELUDE = r"""
#include <stdint.h>
#include <stdbool.h>
#include <stdio.h>
#include <string.h>
typedef int8_t size1s_t; typedef uint8_t size1u_t; typedef int16_t size2s_t; typedef uint16_t size2u_t;
typedef int32_t size4s_t; typedef uint32_t size4u_t; typedef int64_t size8s_t; typedef uint64_t size8u_t;
typedef struct { int dummy; } Pkt; typedef struct { int slot; } Insn; typedef struct { Pkt *pkt; Insn *insn; } Bundle;
typedef Bundle HexInsnPktBundle; typedef Pkt HexPkt; typedef int HexRegField;
static uint32_t jump_flag, jump_target, slot_cancelled; static uint32_t NPC; static uint32_t USR; static int32_t CSV;
static struct { uint32_t a; int n; uint64_t v; } ST[256]; static int nstores;
#define JUMP(x) do { jump_flag = 1; jump_target = (uint32_t)(x); } while (0)
#define cancel_slot ((void)0)
#define STORE_SLOT_CANCELLED(p, s) do { slot_cancelled = 1; } while (0)
#define fatal(m) ((void)0)
#define __NOP ((void)0)
static inline uint8_t rdb(uint32_t a){ for (int i=nstores-1;i>=0;i--) { if (a - ST[i].a < (uint32_t)ST[i].n) return ST[i].v >> (8*(a-ST[i].a)); } return (uint8_t)(a*37+11); }
static inline uint64_t ld(uint32_t a, int n){ uint64_t v=0; for(int i=0;i<n;i++) v |= (uint64_t)rdb(a+i) << (8*i); return v; }
static inline void st(uint32_t a, uint64_t v, int n){ ST[nstores].a=a; ST[nstores].n=n; ST[nstores].v = n==8 ? v : (v & ((1ULL<<(8*n))-1)); nstores++; }
#define mem_load_s8(a) ((int8_t)ld(a,1))
#define mem_load_u8(a) ((uint8_t)ld(a,1))
#define mem_load_s16(a) ((int16_t)ld(a,2))
#define mem_load_u16(a) ((uint16_t)ld(a,2))
#define mem_load_s32(a) ((int32_t)ld(a,4))
#define mem_load_u32(a) ((uint32_t)ld(a,4))
#define mem_load_s64(a) ((int64_t)ld(a,8))
#define mem_load_u64(a) ((uint64_t)ld(a,8))
#define mem_store_u8(a,v) st(a,(uint8_t)(v),1)
#define mem_store_u16(a,v) st(a,(uint16_t)(v),2)
#define mem_store_u32(a,v) st(a,(uint32_t)(v),4)
#define mem_store_u64(a,v) st(a,(uint64_t)(v),8)
#define mem_store_s8(a,v) st(a,(uint8_t)(int8_t)(v),1)
#define mem_store_s16(a,v) st(a,(uint16_t)(int16_t)(v),2)
#define mem_store_s32(a,v) st(a,(uint32_t)(int32_t)(v),4)
#define mem_store_s64(a,v) st(a,(uint64_t)(int64_t)(v),8)
static inline uint64_t extract64(uint64_t value, int start, int length){ return (value >> start) & (~0ULL >> (64 - length)); }
static inline int64_t sextract64(uint64_t value, int start, int length){ return ((int64_t)(value << (64 - length - start))) >> (64 - length); }
static inline uint32_t extract32(uint32_t value, int start, int length){ return (value >> start) & (~0U >> (32 - length)); }
static inline uint64_t deposit64(uint64_t value, int start, int length, uint64_t fieldval){ uint64_t mask = (~0ULL >> (64 - length)) << start; return (value & ~mask) | ((fieldval << start) & mask); }
static inline uint32_t deposit32(uint32_t value, int start, int length, uint32_t fieldval){ uint32_t mask = (~0U >> (32 - length)) << start; return (value & ~mask) | ((fieldval << start) & mask); }
#define bswap16 __builtin_bswap16
#define bswap32 __builtin_bswap32
#define bswap64 __builtin_bswap64
#define get_npc(p) (NPC)
#define HEX_RF_WIDTH 0
#define HEX_RF_OFFSET 1
#define HEX_REG_FIELD_USR_OVF 0
#define HEX_REG_FIELD_USR_LPCFG 1
#define HEX_REG_FIELD_USR_FPRND 2
static const uint32_t RFT[2][3] = { {1, 2, 2}, {0, 8, 22} };
#define REGFIELD(p,f) (RFT[p][f])
#define HEX_REG_ALIAS_USR USR
#define get_corresponding_CS(p, M) (CSV)
"""

MAIN = r"""
typedef void (*fn_t)(const uint64_t*, uint64_t*);
int main(void){ int k, nin, nout;
  while (scanf("%d %d %d", &k, &nin, &nout) == 3) { uint64_t in[40], out[40]; unsigned long long t;
    for (int i=0;i<nin;i++){ scanf("%llx", &t); in[i]=(uint64_t)t; }
    scanf("%llx", &t); NPC=(uint32_t)t; scanf("%llx", &t); USR=(uint32_t)t; scanf("%llx", &t); CSV=(int32_t)t;
    jump_flag=0; jump_target=0; slot_cancelled=0; nstores=0; memset(out, 0, sizeof out);
    FN[k](in,out);
    printf("%d", k); for (int i=0;i<nout;i++) printf(" %llx", (unsigned long long)out[i]);
    printf(" | %u %x %u %x |", jump_flag, jump_target, slot_cancelled, USR);
    for (int i=0;i<nstores;i++) printf(" %x:%d:%llx", ST[i].a, ST[i].n, (unsigned long long)ST[i].v);
    printf("\n"); }
  return 0; }
"""


def routine_c_source(name, ret, params, code):
    """C source of a bundled / generated sub-routine; `const HexOp *X` parameters are passed by
    address (a macro of the same name forwards &X)."""
    ps = []
    refs = []
    for p in params:
        p = p.strip()
        if "HexOp" in p:
            n = re.findall(r"\w+", p)[-1]
            ps.append("int32_t *%s_p" % n)
            refs.append(n)
        elif "HexInsnPktBundle" in p:
            ps.append("Bundle *bundle")
        elif "HexPkt" in p:
            ps.append("Pkt *pkt")
        elif "HexRegField" in p:
            ps.append("int " + re.findall(r"\w+", p)[-1])
        else:
            ps.append(p)
    pre = "".join("#define %s (*%s_p)\n" % (n, n) for n in refs)
    post = "".join("#undef %s\n" % n for n in refs)
    src = "%sstatic %s %s_impl(%s) %s\n%s" % (pre, ret, name, ", ".join(ps) or "void", code, post)
    if refs:
        names = ["a%d" % i for i in range(len(params))]
        fwd = ", ".join(("&(%s)" % a) if "HexOp" in p else a for a, p in zip(names, params))
        src += "#define %s(%s) %s_impl(%s)\n" % (name, ", ".join(names), name, fwd)
    else:
        src += "#define %s %s_impl\n" % (name, name)
    return src


def ctype_of(T):
    return ("" if T[0] else "u") + "int%d_t" % T[1]


def function_source(k, spec, ops, slots):
    """C function for program k.  in[] follows `slots`; out[] = operand variables (scan order) then
    observed locals."""
    idx = {s[0]: i for i, s in enumerate(slots)}
    d = []
    outs = []
    for sp in sorted(ops):
        o = ops[sp]
        if o.kind in ("reg", "explicit", "alias"):
            if sp == "HEX_REG_ALIAS_USR":
                continue
            t = ctype_of((o.signed, o.width))
            src = idx[("new:" if o.new else "cur:") + o.key]
            d.append("%s %s = (%s)in[%d];" % (t, cname(sp), t, src))
            outs.append((cname(sp), o))
        elif o.kind == "imm":
            t = ctype_of((o.signed, 32))
            d.append("%s %s = (%s)in[%d];" % (t, sp, t, idx["imm:" + o.letter]))
        elif o.kind == "pc":
            d.append("const uint32_t %s = (uint32_t)in[%d];" % (sp, idx["pc"]))
    txt = spec.native_text()
    for i, (n, T, _r) in enumerate(spec.inputs()):
        if idx["in:" + n] != i:
            raise core.HarnessError("input slots are not first")
    if re.search(r"\bEA\b", txt) and not re.search(r"\b(uint32_t|size4u_t) EA\b", txt):
        d.append("uint32_t EA = 0;")
    o = []
    j = 0
    for cn, _o in outs:
        o.append("out[%d] = (uint64_t)(int64_t)%s;" % (j, cn))
        j += 1
    for n in spec.observe:
        o.append("out[%d] = (uint64_t)(int64_t)%s;" % (j, n))
        j += 1
    renamed = rename_explicit(txt, ops)
    return "static void f_%d(const uint64_t *in, uint64_t *out) { Bundle *bundle=0; Pkt *pkt=0; Insn *hi=0; %s\n%s\n%s }\n" % (k, " ".join(d), renamed, " ".join(o)), [x[1] for x in outs], j


def cname(sp):
    return sp.replace(":", "_")


def rename_explicit(txt, ops):
    for sp in sorted(ops, key=len, reverse=True):
        if ":" in sp:
            txt = txt.replace(sp, cname(sp))
    return txt


class NativeMismatch(Exception):
    pass


def validate_chunk(args):
    """Worker: reference vs gcc vs clang for a chunk of programs."""
    specs, budget, routines_src, extra_slots = args
    env = _ENV["env"]
    tmp = tempfile.mkdtemp(prefix="vfnat_", dir=os.environ.get("VERIF_TMP", "/tmp"))
    try:
        src = [PRELUDE]
        for n, (ret, params, code) in routines_src.items():
            src.append(routine_c_source(n, ret, params, code))
        plan = []
        fns = []
        for k, spec in enumerate(specs):
            ops = drive.scan_operands(spec.text)
            slots, states = prog.states_for(spec, ops, budget, extra_slots)
            fsrc, outs, nout = function_source(k, spec, ops, slots)
            cast = cparse.parse_behaviour(spec.text)
            cases = []
            if ceval.has_unsequenced(cast, env.c_routines):
                states = []
            for vec in states:
                w, locs = prog.build_c_world(spec, ops, slots, vec)
                it = ceval.Interp(env.c_routines, frozenset())
                try:
                    out = it.run(cast, w, locs)
                except (ceval.CUndefined, ceval.CUnsupported):
                    continue
                cases.append((vec, w, out))
            if not cases:
                fns.append("static void f_%d(const uint64_t *in, uint64_t *out) { }\n" % k)
            else:
                fns.append(fsrc)
            plan.append((spec, ops, slots, outs, nout, cases))
        src.extend(fns)
        src.append("typedef void (*fn_t)(const uint64_t*, uint64_t*);\nstatic fn_t FN[] = {" + ",".join("f_%d" % k for k in range(len(specs))) + "};\n")
        src.append(MAIN)
        cfile = os.path.join(tmp, "t.c")
        with open(cfile, "w") as f:
            f.write("\n".join(src))
        lines = []
        for k, (spec, ops, slots, outs, nout, cases) in enumerate(plan):
            for vec, w, out in cases:
                st = dict(zip([s[0] for s in slots], vec))
                lines.append("%d %d %d %s %x %x %x" % (k, len(vec), nout, " ".join("%x" % (v & 0xFFFFFFFFFFFFFFFF) for v in vec), w.npc, st.get("usr", 0), w.cs))
        n_cmp = 0
        problems = []
        for cc in ("gcc", "clang"):
            exe = os.path.join(tmp, "t_" + cc)
            p = subprocess.run([cc, "-O0", "-fwrapv", "-w", "-o", exe, cfile], capture_output=True, text=True)
            if p.returncode:
                problems.append("%s failed to compile the chunk: %s" % (cc, p.stderr[:1500]))
                continue
            r = subprocess.run([exe], input="\n".join(lines) + "\n", capture_output=True, text=True)
            if r.returncode:
                problems.append("%s binary exited with %d (the reference missed an undefined behaviour?)" % (cc, r.returncode))
                continue
            outl = r.stdout.split("\n")
            li = 0
            for k, (spec, ops, slots, outs, nout, cases) in enumerate(plan):
                for vec, w, out in cases:
                    line = outl[li]
                    li += 1
                    head, mid, tail = line.split("|")
                    f = head.split()
                    assert int(f[0]) == k
                    got = [int(x, 16) for x in f[1:]]
                    exp = []
                    for o in outs:
                        c = w.cells[o.spelling]
                        exp.append(c.v & 0xFFFFFFFFFFFFFFFF)
                    for n in spec.observe:
                        tv = out.get(n)
                        exp.append(None if tv is None else (tv[1] & 0xFFFFFFFFFFFFFFFF))
                    bad = [i for i, (g, e) in enumerate(zip(got, exp)) if e is not None and g != e]
                    jf, jt, sc, usr = mid.split()
                    cj = (bool(w.jump[0]), w.jump[1] if w.jump[0] else None)
                    nj = (bool(int(jf)), int(jt, 16) if int(jf) else None)
                    mem = {}
                    for x in tail.split():
                        a, nb, v = x.split(":")
                        a, nb, v = int(a, 16), int(nb), int(v, 16)
                        for i in range(nb):
                            mem[(a + i) & 0xFFFFFFFF] = (v >> (8 * i)) & 0xFF
                    n_cmp += 1
                    if bad or cj != nj or bool(int(sc)) != w.slot_cancel or mem != w.mem:
                        if len(problems) < 5:
                            problems.append("%s disagrees with the reference on %s state %s: native %s reference %s jump %s/%s" % (cc, spec.text, dict(zip([s[0] for s in slots], vec)), got, exp, nj, cj))
        return n_cmp, problems
    finally:
        shutil.rmtree(tmp, ignore_errors=True)


_ENV = {}


def validate_space(ctx, specs, budget, env, extra_slots=(), chunk=80, extra_routines=None):
    """Raises HarnessError if the strict reference disagrees with gcc or clang anywhere."""
    _ENV["env"] = env
    rs = dict(env.sub_src)
    items = [(specs[i : i + chunk], budget, rs, tuple(extra_slots)) for i in range(0, len(specs), chunk)]
    res = core.pmap(validate_chunk, items, seed=ctx.seed, chunk=1)
    n = sum(r[0] for r in res)
    problems = [p for r in res for p in r[1]]
    if problems:
        raise core.HarnessError("reference self-validation failed (%d problems), e.g.\n  %s" % (len(problems), "\n  ".join(problems[:5])))
    return n
