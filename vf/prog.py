"""Programs x states: the glue between the compiler under test, ILVM (IL side) and the C
reference (cref).  A ProgSpec is one generated (or bundled) behaviour; run_case() executes both
sides on one initial state and compares the architecturally visible outcome."""
import itertools
import json
import os
import re

from vf import ceval, core, cparse, drive, il, ilvm

# --------------------------------------------------------------------------------------
# types

TYPES = {
    "int8_t": (True, 8),
    "uint8_t": (False, 8),
    "int16_t": (True, 16),
    "uint16_t": (False, 16),
    "int32_t": (True, 32),
    "uint32_t": (False, 32),
    "int64_t": (True, 64),
    "uint64_t": (False, 64),
}
TNAME = {v: k for k, v in TYPES.items()}


def tn(T):
    return ("s" if T[0] else "u") + str(T[1])


class ProgSpec:
    """decls: [(ctype name, var name, role)] role in input|local|shift|count;  stmts: C text of
    the statements after the declarations;  observe: local names compared at the end."""

    def __init__(self, decls, stmts, observe=(), tag=None):
        self.decls = list(decls)
        self.stmts = stmts
        self.observe = list(observe)
        self.tag = tag

    @property
    def text(self):
        d = " ".join("%s %s;" % (t, n) for t, n, _r in self.decls)
        return "{ %s %s }" % (d, self.stmts) if d else "{ %s }" % self.stmts

    def native_text(self, invec="in"):
        out = []
        i = 0
        for t, n, r in self.decls:
            if r != "local":
                out.append("%s %s = (%s)%s[%d];" % (t, n, t, invec, i))
                i += 1
            else:
                out.append("%s %s;" % (t, n))
        return " ".join(out) + " " + self.stmts

    def inputs(self):
        return [(n, TYPES[t], r) for t, n, r in self.decls if r != "local"]

    def key(self):
        return self.text


# --------------------------------------------------------------------------------------
# E5 value domains


def boundary_values(w):
    m = (1 << w) - 1
    vals = [0, 1, m, 1 << (w - 1), (1 << (w - 1)) - 1]
    extra = [2, 3, m - 1, (1 << (w - 1)) + 1]
    for k in (7, 8, 15, 16, 31, 32, 63):
        if k < w:
            extra += [(1 << k) - 1, 1 << k, (1 << k) + 1]
    extra += [0x5555555555555555 & m, 0xAAAAAAAAAAAAAAAA & m, ((1 << (w - 1)) | 1) & m, ((1 << (w - 1)) - 2) & m, 0x12345678DEADBEEF & m]
    if w >= 32:
        # packed sub-words: every 16-bit / 8-bit lane at its own boundary (vector-style instructions)
        extra += [0x8000800080008000 & m, 0x7FFF7FFF7FFF7FFF & m, 0x8000000000000000 >> (64 - w) if w < 64 else 0x8000000000000000,
                  0x0000800000008000 & m, 0x8000000080000000 & m, 0x8080808080808080 & m, 0x7F7F7F7F7F7F7F7F & m, 0xFFFF0000FFFF0000 & m,
                  0x00FF00FF00FF00FF & m, 0x80007FFF80007FFF & m, 0x7FFF80007FFF8000 & m]
    out = []
    for v in vals + extra:
        v &= m
        if v not in out:
            out.append(v)
    return out


def domain(w, role="input"):
    if role == "shift":
        return list(range(0, 66))
    if role == "count":
        return list(range(0, 9))
    if w <= 8:
        b = boundary_values(w)
        return b + [v for v in range(1 << w) if v not in b]
    return boundary_values(w)


def shrink_domains(doms, budget, floor=5):
    doms = [list(d) for d in doms]
    while True:
        p = 1
        for d in doms:
            p *= len(d)
        if p <= budget:
            return doms
        i = max(range(len(doms)), key=lambda j: len(doms[j]))
        if len(doms[i]) <= floor:
            # cannot shrink further without losing the mandatory values: shrink floor
            if floor <= 2:
                return doms
            floor -= 1
            continue
        doms[i] = doms[i][: max(floor, (len(doms[i]) * 2) // 3)]


# --------------------------------------------------------------------------------------
# state slots of a program


def slots_of(spec, ops):
    """-> list of (slot name, width, role)"""
    sl = []
    for n, T, r in spec.inputs():
        sl.append(("in:" + n, T[1], r if r in ("shift", "count") else "input"))
    seen = set()
    for sp in sorted(ops):
        o = ops[sp]
        if o.kind in ("reg", "explicit", "alias"):
            if o.new:
                if ("new:" + o.key) not in seen:
                    sl.append(("new:" + o.key, o.width, "input"))
                    seen.add("new:" + o.key)
            if ("cur:" + o.key) not in seen:
                sl.append(("cur:" + o.key, o.width, "input"))
                seen.add("cur:" + o.key)
        elif o.kind == "imm":
            sl.append(("imm:" + o.letter, 32, "input"))
        elif o.kind == "pc":
            sl.append(("pc", 32, "input"))
    return sl


def states_for(spec, ops, budget, extra_slots=()):
    """The state space of one program: the complete cross product of the slots' E5 domains if it
    fits the budget; otherwise the cross product of the domains shrunk to the budget PLUS, for every
    slot, a sweep over its complete domain with the other slots at rotating mandatory values (so
    every boundary value of every operand occurs at least once whatever the budget)."""
    sl = slots_of(spec, ops) + list(extra_slots)
    if not sl:
        return sl, [()]
    full = [domain(w, r) for (_n, w, r) in sl]
    total = 1
    for d in full:
        total *= len(d)
    if total <= budget:
        return sl, list(itertools.product(*full))
    doms = shrink_domains(full, budget)
    states = list(itertools.product(*doms))
    seen = set(states)
    for i, d in enumerate(full):
        for k, v in enumerate(d):
            vec = tuple(v if j == i else full[j][(k + 2 * j + i) % min(5, len(full[j]))] for j in range(len(full)))
            if vec not in seen:
                seen.add(vec)
                states.append(vec)
    return sl, states


# --------------------------------------------------------------------------------------
# environment shared by both sides

REGFIELD_ENV = {
    ("HEX_RF_WIDTH", "HEX_REG_FIELD_USR_OVF"): 1,
    ("HEX_RF_OFFSET", "HEX_REG_FIELD_USR_OVF"): 0,
    ("HEX_RF_WIDTH", "HEX_REG_FIELD_USR_LPCFG"): 2,
    ("HEX_RF_OFFSET", "HEX_REG_FIELD_USR_LPCFG"): 8,
    ("HEX_RF_WIDTH", "HEX_REG_FIELD_USR_FPRND"): 2,
    ("HEX_RF_OFFSET", "HEX_REG_FIELD_USR_FPRND"): 22,
}


class Env:
    """Per-compiler tables: compiled callee bodies (IL side), C sources of the routines
    (reference side), parameter sorts (sort checker)."""

    def __init__(self, compiler, extra_routines=None):
        self.il_subs = {}
        for n, text in drive.sub_routine_texts(compiler).items():
            self.il_subs[n] = il.parse_body(text, is_sub=True)
        with open(os.path.join(core.REPO, "Resources/Hexagon/sub_routines.json")) as f:
            sr = json.load(f)["sub_routines"]
        self.c_routines = {}
        self.sub_sorts = {}
        self.sub_src = {}
        for n, v in sr.items():
            self.add_routine(n, v["return_type"], v["params"], v["code"])
        for n, v in (extra_routines or {}).items():
            self.add_routine(n, v["return_type"], v["params"], v["code"])

    def add_routine(self, n, ret, params, code):
        try:
            self.c_routines[n] = ceval.Routine(n, ret, params, code)
        except (cparse.CSyntaxError, ceval.CUnsupported):
            pass
        ps = []
        for p in params:
            t = p.strip().rsplit(" ", 1)[0].strip()
            w = il.ctype_width(t)
            ps.append(il.bv(w[1]) if w else None)
        self.sub_sorts[n] = ps
        self.sub_src[n] = (ret, params, code)


# --------------------------------------------------------------------------------------
# building the two machines from a state vector

NEW_TAG = 0x5A5A5A5A5A5A5A5A


def build_il_machine(spec, ops, slots, vec, rule_p=True, rule_x=True):
    m = ilvm.Machine(rule_p, rule_x)
    m.regfield = REGFIELD_ENV
    st = dict(zip([s[0] for s in slots], vec))
    for sp, o in ops.items():
        if o.kind in ("reg", "explicit", "alias"):
            m.regw[o.key] = o.width
            if o.kind == "reg":
                m.letters[o.letter] = o.key
            mk = (1 << o.width) - 1
            m.cur[o.key] = st["cur:" + o.key] & mk
            if o.new:
                m.new[o.key] = st["new:" + o.key] & mk
        elif o.kind == "imm":
            v = st["imm:" + o.letter] & 0xFFFFFFFF
            m.imm[o.letter] = ceval.wrap(v, (o.signed, 32))
        elif o.kind == "pc":
            m.pc = st["pc"] & 0xFFFFFFFF
    for n, T, _r in spec.inputs():
        m.loc[n] = (T[1], st["in:" + n] & ((1 << T[1]) - 1))
    m.npc = st.get("npc", 0x1000) & 0xFFFFFFFF
    m.cs = st.get("cs", 0x20000) & 0xFFFFFFFF
    if "usr" in st:
        m.regw["alias:usr"] = 32
        m.cur["alias:usr"] = st["usr"] & 0xFFFFFFFF
    return m


def build_c_world(spec, ops, slots, vec):
    w = ceval.World()
    w.regfield = REGFIELD_ENV
    st = dict(zip([s[0] for s in slots], vec))
    for sp, o in ops.items():
        if o.kind in ("reg", "explicit", "alias"):
            T = (o.signed, o.width)
            v = st["new:" + o.key] if o.new else st["cur:" + o.key]
            w.cells[sp] = ceval.Cell(T, ceval.wrap(v, T), True)
        elif o.kind == "imm":
            T = (o.signed, 32)
            w.cells[sp] = ceval.Cell(T, ceval.wrap(st["imm:" + o.letter], T), True)
        elif o.kind == "pc":
            w.cells[sp] = ceval.Cell((False, 32), st["pc"] & 0xFFFFFFFF, True, const=True)
    if "usr" in st and "HEX_REG_ALIAS_USR" not in w.cells:
        w.cells["HEX_REG_ALIAS_USR"] = ceval.Cell((False, 32), st["usr"] & 0xFFFFFFFF, True)
    w.npc = st.get("npc", 0x1000) & 0xFFFFFFFF
    w.cs = st.get("cs", 0x20000) & 0xFFFFFFFF
    locs = {n: (T, st["in:" + n]) for n, T, _r in spec.inputs()}
    return w, locs


def c_observation(spec, ops, world, locs, slots, vec):
    """Architecturally visible outcome on the C side, in the same shape as Machine.observation."""
    st = dict(zip([s[0] for s in slots], vec))
    regs = {}
    assigned = set()
    for sp, o in ops.items():
        if o.kind in ("reg", "explicit", "alias"):
            c = world.cells[sp]
            if c.assigned:
                regs[o.key] = c.v & ((1 << o.width) - 1)
                assigned.add(o.key)
    if "usr" in st and world.cells["HEX_REG_ALIAS_USR"].assigned:
        regs["alias:usr"] = world.cells["HEX_REG_ALIAS_USR"].v & 0xFFFFFFFF
    lo = {}
    for n in spec.observe:
        tv = locs.get(n)
        lo[n] = None if tv is None else (tv[0][1], tv[1] & ((1 << tv[0][1]) - 1))
    return {
        "regs": regs,
        "mem": {a: world.mem[a] for a in sorted(world.mem)},
        "jump": (bool(world.jump[0]), world.jump[1] if world.jump[0] else None),
        "slot_cancel": world.slot_cancel,
        "locals": lo,
    }


def il_initial_value(ops, key, m_cur):
    return m_cur.get(key)


def diff_obs(cobs, iobs, il_cur):
    """List of differences (empty = agree).  A register the C text assigns with the value it
    already had and the IL does not write (or the reverse) is compared by value."""
    d = []
    keys = set(cobs["regs"]) | set(iobs["regs"])
    for k in sorted(keys):
        cv = cobs["regs"].get(k)
        iv = iobs["regs"].get(k)
        if cv is None:
            # IL wrote, C did not assign: compare with the unchanged committed value
            if iv != il_cur.get(k):
                d.append("reg %s: C leaves it unchanged, IL writes %#x" % (k, iv))
        elif iv is None:
            if cv != il_cur.get(k):
                d.append("reg %s: C writes %#x, IL does not write it" % (k, cv))
        elif cv != iv:
            d.append("reg %s: C %#x, IL %#x" % (k, cv, iv))
    if cobs["mem"] != iobs["mem"]:
        addrs = sorted(set(cobs["mem"]) | set(iobs["mem"]))
        bad = [a for a in addrs if cobs["mem"].get(a) != iobs["mem"].get(a)]
        d.append("memory differs at %s" % ", ".join("%#x (C %s IL %s)" % (a, cobs["mem"].get(a), iobs["mem"].get(a)) for a in bad[:4]))
    if cobs["jump"] != iobs["jump"]:
        d.append("jump: C %s, IL %s" % (cobs["jump"], iobs["jump"]))
    if cobs["slot_cancel"] != iobs["slot_cancel"]:
        d.append("slot cancel: C %s, IL %s" % (cobs["slot_cancel"], iobs["slot_cancel"]))
    for n, cv in cobs["locals"].items():
        iv = iobs["locals"].get(n)
        if cv is None:
            continue  # C leaves it uninitialised: nothing to compare
        if iv is None:
            d.append("local %s: C %#x, IL never sets it" % (n, cv[1]))
        elif isinstance(iv, bool) or iv[0] == "f":
            d.append("local %s: IL holds a %s" % (n, ilvm.sortname(iv)))
        elif iv[0] != cv[0]:
            d.append("local %s: C width %d, IL width %d" % (n, cv[0], iv[0]))
        elif iv[1] != cv[1]:
            d.append("local %s: C %#x, IL %#x" % (n, cv[1], iv[1]))
    return d


# --------------------------------------------------------------------------------------
# compiled program bundle


class Compiled:
    """Everything derived once per program: emitted text, parsed body, closures, C AST."""

    def __init__(self, spec, text, env, ops=None):
        self.spec = spec
        self.text = text
        self.ops = ops if ops is not None else drive.scan_operands(spec.text)
        self.body = il.parse_body(text)
        self.env = env
        self.il_error = None
        try:
            self.prog = ilvm.Program(self.body, env.il_subs)
        except ilvm.ILError as e:
            self.prog = None
            self.il_error = e
        self.cast = cparse.parse_behaviour(spec.text)
        self.c_unsequenced = ceval.has_unsequenced(self.cast, env.c_routines)

    def static_errors(self):
        b = self.body
        inputs = {n: il.bv(T[1]) for n, T, _r in self.spec.inputs()}
        return {
            "wellformed": il.check_wellformed(b),
            "linearity": il.check_linearity(b),
            "sorts": il.check_sorts(b, opwidth=drive.letter_widths(self.ops), subs=self.env.sub_sorts, inputs=inputs),
        }

    def run_il(self, slots, vec, rule_p=True, rule_x=True, monitor_frames=False):
        m = build_il_machine(self.spec, self.ops, slots, vec, rule_p, rule_x)
        m.monitor_frames = monitor_frames
        if self.prog is None:
            raise self.il_error
        self.prog.run(m)
        return m

    def run_c(self, slots, vec, D=frozenset()):
        if self.c_unsequenced:
            raise ceval.CUndefined("unsequenced modification and access of an object")
        w, locs = build_c_world(self.spec, self.ops, slots, vec)
        it = ceval.Interp(self.env.c_routines, D)
        out = it.run(self.cast, w, locs)
        return c_observation(self.spec, self.ops, w, out, slots, vec)
