"""C01  Shipped instruction behaviours are translated faithfully end to end.

Space: every accepted part of the 2181 bundled definitions and the 13 bundled sub-routines
(as stand-alone callees with typed arguments)  x  the E5 cross product of all operand values,
.new values, immediates, pc, npc, USR, CS.  Oracle: final architectural state of ILVM ==
cref(strict); acceptance compared with a committed baseline.
"""
import collections
import json
import os
import re

from vf import ceval, core, corpus, deviations, drive, ilvm, native, prog, vcheck

LEVEL = "exploration"

BASELINE = os.path.join(core.VERIF, "baselines", "corpus_accept.json")
EXTRA = [("npc", 32, "input"), ("usr", 32, "input"), ("cs", 32, "input")]

# corpus-level findings that have no reference deviation rule: identified by instruction part
# and by the shape of the disagreement
INSN_FINDINGS = []


class BehSpec(prog.ProgSpec):
    def __init__(self, name, pi, text):
        self.name, self.pi, self._text = name, pi, text
        self.decls = []
        self.observe = []
        self.tag = (name, pi)
        self.stmts = text

    @property
    def text(self):
        return self._text

    def native_text(self, invec="in"):
        return self._text


_JOB = {}


def work(item):
    name, pi, part, text = item
    env = _JOB["env"]
    budget = _JOB["budget"]
    spec = BehSpec(name, pi, part)
    res = {"id": "%s#%d" % (name, pi)}
    try:
        cp = prog.Compiled(spec, text, env)
    except Exception as e:
        res.update(status="unreadable", detail=repr(e)[:300])
        return res
    ops = cp.ops
    letters = [o.letter for o in ops.values() if o.kind == "reg"]
    slots, states = prog.states_for(spec, ops, budget, EXTRA)
    res["n_states"] = len(states)
    n_ub = n_unsup = n_cmp = 0
    bad = []
    il_results = []
    for vec in states:
        try:
            cobs = cp.run_c(slots, vec)
        except ceval.CUndefined:
            n_ub += 1
            il_results.append(None)
            continue
        except ceval.CUnsupported as e:
            n_unsup += 1
            res.setdefault("unsupported", str(e)[:80])
            il_results.append(None)
            continue
        try:
            m = cp.run_il(slots, vec)
            ires = ("ok", m.observation(), dict(m.cur), {})
        except ilvm.HelperUB:
            n_ub += 1
            il_results.append(None)
            continue
        except ilvm.ILError as e:
            ires = ("err", e.kind, e.msg)
        il_results.append(ires)
        n_cmp += 1
        if ires[0] == "err":
            bad.append((vec, "il-error", "%s: %s" % (ires[1], ires[2])))
        else:
            d = prog.diff_obs(cobs, ires[1], ires[2])
            if d:
                bad.append((vec, "mismatch", "; ".join(d[:3])))
    res.update(n_ub=n_ub, n_unsupported=n_unsup, n_compared=n_cmp)
    if not bad:
        res["status"] = "agree" if n_cmp else ("unsupported" if n_unsup else "all-ub")
        return res
    res["status"] = "disagree"
    res["n_bad"] = len(bad)
    res["first_bad"] = {"state": dict(zip([s[0] for s in slots], bad[0][0])), "kind": bad[0][1], "detail": bad[0][2][:300]}
    cands = deviations.triggered(cp.cast, ops, cp)
    if all(b[1] == "mismatch" or b[2].startswith("horizon") for b in bad):
        expl = vcheck.explain_values(cp, slots, states, il_results, cands)
        if expl is not None:
            res["explained_by"] = sorted(expl)
    return res


def work_seq(item):
    """Two-part instruction: part 0 followed by part 1 on one packet state; the Pn_NEW that part 1
    reads is the Pn part 0 wrote."""
    name, parts, texts = item
    env = _JOB["env"]
    both = BehSpec(name, -1, parts[0] + " " + parts[1])
    ops = drive.scan_operands(both.text)
    res = {"id": name + "#0+1"}
    try:
        cps = [prog.Compiled(BehSpec(name, i, parts[i]), texts[i], env, ops=ops) for i in (0, 1)]
    except Exception as e:
        res.update(status="unreadable", detail=repr(e)[:300])
        return res
    slots, states = prog.states_for(both, ops, _JOB["budget"], EXTRA)
    n_cmp = 0
    bad = []
    for vec in states:
        try:
            w, locs = prog.build_c_world(both, ops, slots, vec)
            it = ceval.Interp(env.c_routines, frozenset())
            it.run(cps[0].cast, w, {})
            for sp, o in ops.items():
                if o.kind == "explicit" and o.new:
                    src = w.cells.get(sp[: -len("_NEW")])
                    if src is not None and src.assigned:
                        w.cells[sp].v = src.v
            it.run(cps[1].cast, w, {})
            cobs = prog.c_observation(both, ops, w, {}, slots, vec)
        except (ceval.CUndefined, ceval.CUnsupported):
            continue
        try:
            m = prog.build_il_machine(both, ops, slots, vec)
            for cp in cps:
                if cp.prog is None:
                    raise cp.il_error
                cp.prog.run(m)
            d = prog.diff_obs(cobs, m.observation(), dict(m.cur))
        except ilvm.HelperUB:
            continue
        except ilvm.ILError as e:
            d = ["IL error %s" % e]
        n_cmp += 1
        if d:
            bad.append((vec, "; ".join(d[:3])))
    res.update(n_compared=n_cmp, n_states=len(states))
    if bad:
        res.update(status="disagree", n_bad=len(bad), first_bad={"state": dict(zip([s[0] for s in slots], bad[0][0])), "kind": "mismatch", "detail": bad[0][1][:300]})
    else:
        res["status"] = "agree"
    return res


def acceptance(res):
    out = {}
    for name, v in res.items():
        out[name] = "ok" if v[0] == "ok" else "%s:%s" % (v[0], v[1])
    return out


# ---- sub-routines as stand-alone callees

U32B = ["uint32_t"]


def sub_routine_specs(tier):
    P = prog.ProgSpec
    out = []
    one32 = ["clz32", "clo32", "revbit32", "fbrev"]
    one64 = ["clz64", "clo64", "revbit64"]
    for f in one32:
        for t in ["uint32_t", "int32_t", "uint8_t", "int16_t", "uint64_t", "int8_t"]:
            out.append(P([(t, "a", "input"), ("int64_t", "r", "local")], "r = %s(a);" % f, ["r"], tag=("sub", f, t)))
        # full 8-bit sweep of each byte lane
        for k in (0, 8, 16, 24):
            out.append(P([("uint8_t", "a", "input"), ("uint32_t", "b", "input"), ("int64_t", "r", "local")], "r = %s((((uint32_t)a) << %d) | (b & ~(0xffU << %d)));" % (f, k, k), ["r"], tag=("sub-lane", f, k)))
    for f in one64:
        for t in ["uint64_t", "int64_t", "uint32_t", "int8_t"]:
            out.append(P([(t, "a", "input"), ("uint64_t", "r", "local")], "r = %s(a);" % f, ["r"], tag=("sub", f, t)))
        for k in (0, 24, 32, 56):
            out.append(P([("uint8_t", "a", "input"), ("uint64_t", "b", "input"), ("uint64_t", "r", "local")], "r = %s((((uint64_t)a) << %d) | (b & ~(0xffULL << %d)));" % (f, k, k), ["r"], tag=("sub-lane", f, k)))
    for t in ["uint16_t", "int16_t", "uint32_t", "uint8_t"]:
        out.append(P([(t, "a", "input"), ("int64_t", "r", "local")], "r = revbit16(a);", ["r"], tag=("sub", "revbit16", t)))
    out.append(P([("uint8_t", "a", "input"), ("uint8_t", "b", "input"), ("int64_t", "r", "local")], "r = revbit16((((uint16_t)a) << 8) | b);", ["r"], tag=("sub-lane", "revbit16")))
    for t in ["int32_t", "uint32_t", "int8_t", "int64_t"]:
        out.append(P([(t, "a", "input"), ("uint8_t", "n", "count"), ("int64_t", "r", "local")], "r = conv_round(a, n);", ["r"], tag=("sub", "conv_round", t)))
    out.append(P([("int32_t", "a", "input"), ("uint32_t", "b", "input")], "trap(a, b); RdV = a;", [], tag=("sub", "trap")))
    for fld in ("HEX_REG_FIELD_USR_OVF", "HEX_REG_FIELD_USR_LPCFG", "HEX_REG_FIELD_USR_FPRND"):
        out.append(P([("uint32_t", "a", "input")], "set_usr_field(bundle, %s, a);" % fld, [], tag=("sub", "set_usr_field", fld)))
        out.append(P([("int64_t", "r", "local")], "r = get_usr_field(bundle, %s);" % fld, ["r"], tag=("sub", "get_usr_field", fld)))
    out.append(P([("int64_t", "r", "local")], "r = fcirc_add(bundle, RxV, siV, MuV, get_corresponding_CS(pkt, MuV));", ["r"], tag=("sub", "fcirc_add")))
    out.append(P([("int32_t", "o", "input"), ("int64_t", "r", "local")], "r = fcirc_add(bundle, RxV, o, MuV, get_corresponding_CS(pkt, MuV)); RdV = RxV;", ["r"], tag=("sub", "fcirc_add2")))
    return out


def run(ctx):
    budget = 32 if ctx.tier == "quick" else 1024
    res = corpus.compile_corpus("stmt", ctx.seed)
    beh, _pc = corpus.parsed_corpus(ctx.seed)
    comp = drive.get_compiler("stmt")
    env = prog.Env(comp)
    _JOB.update(env=env, budget=budget)
    # ---- acceptance
    acc = acceptance(res)
    n_newly_rejected = 0
    if os.path.exists(BASELINE):
        base = json.load(open(BASELINE))
        for name in sorted(base):
            if base[name] == "ok" and acc.get(name) != "ok":
                n_newly_rejected += 1
                ctx.report({"insn": name, "baseline": "accepted", "now": acc.get(name)}, None, what="%s was accepted (baseline) and is now rejected: %s" % (name, acc.get(name)))
        for name in sorted(acc):
            if name not in base:
                ctx.log("note: %s is not in the acceptance baseline" % name)
    else:
        raise core.HarnessError("acceptance baseline %s is missing (tools/make_baselines.py)" % BASELINE)
    # ---- values
    items = []
    for name in sorted(res):
        v = res[name]
        if v[0] != "ok":
            continue
        for pi, (part, text) in enumerate(zip(beh[name], v[1]["rzil"])):
            items.append((name, pi, part, text))
    out = core.pmap(work, items, seed=ctx.seed)
    cov = collections.Counter()
    for it, r in zip(items, out):
        cov["parts"] += 1
        cov["states_compared"] += r.get("n_compared", 0)
        cov["ub_skipped"] += r.get("n_ub", 0)
        cov["unsupported_states"] += r.get("n_unsupported", 0)
        st = r["status"]
        cov["parts_" + st.replace("-", "_")] += 1
        if st == "unreadable":
            ctx.report({"part": r["id"], "detail": r["detail"]}, None, what="%s: emitted text unreadable: %s" % (r["id"], r["detail"]))
        elif st == "disagree":
            fids = None
            if r.get("explained_by"):
                fids = sorted(set(deviations.FINDING_OF.get(x, x) for x in r["explained_by"]))
            else:
                for fid, names, rx in INSN_FINDINGS:
                    if r["id"] in names and re.search(rx, r["first_bad"]["detail"]):
                        fids = [fid]
            ctx.report({"part": r["id"], "behaviour": it[2][:1500], "first_bad": r["first_bad"], "n_bad_states": r["n_bad"], "explained_by": r.get("explained_by")}, fids, what="%s: %s" % (r["id"], r["first_bad"]["detail"][:200]))
    for it, r in list(zip(items, out))[:2] + list(zip(items, out))[-1:]:
        ctx.sample({"part": r["id"], "behaviour": it[2][:200], "status": r["status"], "states": r.get("n_states")})
    # ---- two-part instructions as a sequence on one packet state
    seq_items = [(name, beh[name], res[name][1]["rzil"]) for name in sorted(res) if res[name][0] == "ok" and len(beh[name]) == 2]
    sout = core.pmap(work_seq, seq_items, seed=ctx.seed)
    for it, r in zip(seq_items, sout):
        cov["two_part_sequences"] += 1
        cov["states_compared"] += r.get("n_compared", 0)
        if r["status"] == "unreadable":
            ctx.report({"part": r["id"], "detail": r["detail"]}, None, what="%s: unreadable: %s" % (r["id"], r["detail"]))
        elif r["status"] == "disagree":
            ctx.report({"part": r["id"], "behaviour": " ".join(it[1])[:1500], "first_bad": r["first_bad"], "n_bad_states": r["n_bad"]}, None, what="%s (part 0 then part 1): %s" % (r["id"], r["first_bad"]["detail"][:200]))
        else:
            cov["two_part_sequences_agree"] += 1
    # ---- sub-routines as callees
    sspecs = sub_routine_specs(ctx.tier)
    sres = vcheck.run_space(ctx, sspecs, "c01-subs", 256 if ctx.tier == "quick" else 4096, compiler=comp, env=env, extra={"extra_slots": EXTRA})
    scov = vcheck.summarize(ctx, sspecs, sres, deviations.FINDING_OF)
    for spec, r in zip(sspecs, sres):
        if r["status"] == "rejected":
            ctx.report({"program": r["text"], "rejected_with": r["exc"]}, None, what="call of a bundled sub-routine rejected: %s (%s)" % (r["text"], r["exc"]))
    ctx.sample({"sub_routine_program": sspecs[0].text, "status": sres[0]["status"], "states": sres[0].get("n_states")})
    nat = native.validate_space(ctx, [s for s in sspecs if "trap" not in s.stmts], 256, env, extra_slots=EXTRA)
    mcov = routine_models(ctx)
    return ctx.finish(
        dict(
            {k: v for k, v in cov.items()},
            **mcov,
            evaluations=cov["states_compared"] + cov["ub_skipped"] + scov["states_compared"],
            distinct_nontrivial=cov["parts_agree"] + cov["parts_disagree"],
            rule="every accepted part of the bundled corpus (2181 definitions; rejected ones are compared with the committed acceptance baseline) compiled from a fresh state, "
            "executed by ILVM and by the C reference on the complete cross product of the E5 domains of all its operands (committed and .new banks), immediates, pc, npc, USR and CS, at most %d states per part; "
            "plus %d stand-alone call programs for the 13 bundled sub-routines; distinct_nontrivial = parts with at least one comparable (non-UB, supported) state" % (budget, len(sspecs)),
            exhaustive=True,
            definitions=len(res),
            accepted_definitions=sum(1 for v in res.values() if v[0] == "ok"),
            newly_rejected=n_newly_rejected,
            sub_routine_programs=len(sspecs),
            sub_routine_states=scov["states_compared"],
            reference_vs_gcc_clang_comparisons=nat,
            state_budget_per_part=budget,
        ),
        assumptions=[
            "ILVM register contract: rules W, P, X of DESIGN.md 3/E2 (Rizin is not in the sandbox)",
            "operand letters are bound to distinct registers; explicit pairs and their halves are treated as distinct registers",
            "float operations are uninterpreted functions shared by both sides (IEEE semantics outside the claim)",
            "HVX: nothing is accepted, nothing claimed",
            "two-part instructions: each part is checked on its own and as the sequence part 0; part 1 on one packet state",
        ],
    )


def replay(ctx, path):
    case = json.load(open(path))
    if case.get("kind") == "routine-model":
        _JOB.update(env=prog.Env(drive.get_compiler("stmt")), budget=32)
        name, n, bad = _model_job(case["routine"])
        print("bundled sub-routine %s on %d states: %s" % (name, n, "; ".join("%s: %s" % (b[0], b[1]) for b in bad) or "agrees with its architectural model"))
        if bad:
            print("VIOLATION property=%s replay=%s" % (ctx.pid, path))
            return 1
        return 0
    if "part" not in case:
        return vcheck.replay(ctx, path, extra={"extra_slots": EXTRA})
    name, pi = case["part"].split("#")
    res = corpus.compile_corpus("stmt", ctx.seed, names=[name])
    beh, _pc = corpus.parsed_corpus(ctx.seed)
    v = res[name]
    if v[0] != "ok":
        print("now rejected:", v)
        return 0
    _JOB.update(env=prog.Env(drive.get_compiler("stmt")), budget=1024)
    r = work((name, int(pi), beh[name][int(pi)], v[1]["rzil"][int(pi)]))
    print(json.dumps(r, indent=1, default=str)[:2000])
    if r["status"] == "disagree":
        print("VIOLATION property=%s replay=%s" % (ctx.pid, path))
        return 1
    return 0


# --------------------------------------------------------------------------------------
# the bundled sub-routines against architectural models written from the QEMU helpers they stand for
# (the C text of a bundled routine is itself part of what is shipped: the comparison of its compiled body with its own C
# text cannot see a slip in that text)

M32 = 0xFFFFFFFF
M64 = 0xFFFFFFFFFFFFFFFF


def _bitrev(x, n):
    return int(format(x & ((1 << n) - 1), "0%db" % n)[::-1], 2)


def _s32(v):
    v &= M32
    return v - (1 << 32) if v >> 31 else v


def _m_conv_round(a, n):
    a = _s32(a)
    if n == 0:
        val = a
    elif (a & ((1 << (n - 1)) - 1)) == 0:
        val = a + ((((1 << n) & a) & M32) >> 1)
    else:
        val = a + (1 << (n - 1))
    return _s32(val >> n) & M32


def _m_fcirc_add(rx, offset, m, cs):
    """-> (returned pointer, new Rx): QEMU's fcirc_add / fHIDE helper for circular addressing"""
    k = (m >> 24) & 0xF
    length = m & 0x1FFFF
    new_ptr = (rx + offset) & M32
    if k == 0 and length >= 4:
        start = cs & M32
        end = (start + length) & M32
    else:
        mask = (1 << (k + 2)) - 1
        start = rx & ~mask & M32
        end = start | length
    if new_ptr >= end:
        new_ptr = (new_ptr - length) & M32
    elif new_ptr < start:
        new_ptr = (new_ptr + length) & M32
    return new_ptr, new_ptr


def _bits(n):
    """values that exercise every bit and every pair of neighbouring fields of an n-bit word"""
    vals = {0, 1, 2, 3, (1 << n) - 1, (1 << n) - 2, 1 << (n - 1), (1 << (n - 1)) - 1, 0x12345678 & ((1 << n) - 1), 0x0F0F0F0F0F0F0F0F & ((1 << n) - 1), 0x8421842184218421 & ((1 << n) - 1)}
    for i in range(n):
        vals.add(1 << i)
        vals.add(((1 << n) - 1) ^ (1 << i))
        vals.add((1 << i) - 1)
        vals.add(((1 << n) - 1) ^ ((1 << i) - 1))
        vals.add((1 << i) | 1)
    return sorted(vals)


ROUTINE_MODELS = {
    "clz32": ("uint32_t", 32, lambda t: 32 - (t & M32).bit_length()),
    "clz64": ("uint64_t", 64, lambda t: 64 - (t & M64).bit_length()),
    "clo32": ("uint32_t", 32, lambda t: 32 - ((~t) & M32).bit_length()),
    "clo64": ("uint64_t", 64, lambda t: 64 - ((~t) & M64).bit_length()),
    "revbit16": ("uint16_t", 16, lambda t: _bitrev(t, 16)),
    "revbit32": ("uint32_t", 32, lambda t: _bitrev(t, 32)),
    "revbit64": ("uint64_t", 64, lambda t: _bitrev(t, 64)),
    "fbrev": ("uint32_t", 32, lambda a: (a & 0xFFFF0000) | _bitrev(a & 0xFFFF, 16)),
}


def _model_job(item):
    """One routine: run its C text (the reference interpreter, no deviation) on the model's domain."""
    name = item
    comp = drive.get_compiler("stmt")
    env = _JOB["env"]
    P = prog.ProgSpec
    bad = []
    n = 0
    if name in ROUTINE_MODELS:
        T, w, f = ROUTINE_MODELS[name]
        spec = P([(T, "a", "input"), ("uint64_t", "r", "local")], "r = %s(a);" % name, ["r"])
        cases = [({"in:a": v}, f(v)) for v in _bits(w)]
    elif name == "conv_round":
        spec = P([("int32_t", "a", "input"), ("int32_t", "b", "input"), ("uint64_t", "r", "local")], "r = (uint32_t)conv_round(a, b);", ["r"])
        cases = [({"in:a": a, "in:b": k}, _m_conv_round(a, k)) for a in _bits(32)[::3] + [5, 6, 7, 0xFFFFFFF9, 0xFFFFFFFA, 0x7FFFFFFF, 0x80000000] for k in (0, 1, 2, 3, 4, 8, 15, 16, 30)]
    elif name == "fcirc_add":
        spec = P([("int32_t", "a", "input"), ("int32_t", "b", "input"), ("int32_t", "c", "input"), ("uint64_t", "r", "local")], "r = (uint32_t)fcirc_add(bundle, RxV, a, b, c);", ["r"])
        cases = []
        for k in (0, 1, 3):
            for length in (4, 8, 0x20, 0x1FFFC, 2):
                m = (k << 24) | length
                for cs in (0x1000, 0x20000):
                    starts = [cs] if (k == 0 and length >= 4) else [cs & ~((1 << (k + 2)) - 1)]
                    for st in starts:
                        for rx in sorted({st, st + 1, st + (length // 2), (st + length - 4) & M32, (st + length - 1) & M32, st + length}):
                            for off in (-length, -4, -1, 0, 1, 4, length - 1, length):
                                if k != 0 or length < 4:
                                    if (rx & ~((1 << (k + 2)) - 1) & M32) != st:
                                        continue
                                want = _m_fcirc_add(rx & M32, off, m, cs)
                                cases.append(({"in:a": off & M32, "in:b": m, "in:c": cs, "cur:Rx": rx & M32}, want))
    else:
        return (name, 0, [])
    r = drive.compile_stmt_fresh(comp, spec.text)
    if r[0] != "ok":
        return (name, 0, [("rejected", r[1])])
    cp = prog.Compiled(spec, r[1], env)
    slots, _states = prog.states_for(spec, cp.ops, 4, EXTRA)
    names = [s[0] for s in slots]
    for st, want in cases:
        unknown = [k for k in st if k not in names]
        if unknown:
            raise core.HarnessError("routine model %s: no state slot %s (slots: %s)" % (name, unknown, names))
        vec = tuple(st.get(nm, 0) for nm in names)
        try:
            cobs = cp.run_c(slots, vec)
        except (ceval.CUndefined, ceval.CUnsupported) as e:
            continue
        n += 1
        got = cobs["locals"]["r"][1] & M64
        if name == "fcirc_add":
            rxk = [k for k in cobs["regs"] if k.lower().endswith("x")]
            got = (got, cobs["regs"].get(rxk[0]) if rxk else None)
            if got != want:
                bad.append((st, "returns %#x and leaves Rx = %s, the architectural model gives %#x / %#x" % (got[0], "%#x" % got[1] if got[1] is not None else "unwritten", want[0], want[1])))
        elif got != (want & M64):
            bad.append((st, "returns %#x, the architectural model gives %#x" % (got, want & M64)))
    return (name, n, bad[:5])


def routine_models(ctx):
    names = sorted(ROUTINE_MODELS) + ["conv_round", "fcirc_add"]
    out = core.pmap(_model_job, names, seed=ctx.seed, chunk=1)
    total = 0
    for name, n, bad in out:
        total += n
        if n == 0 and not bad:
            raise core.HarnessError("routine model %s: no comparable state" % name)
        for st, why in bad:
            ctx.report({"kind": "routine-model", "routine": name, "state": st if isinstance(st, dict) else str(st), "why": why}, None, what="bundled sub-routine %s: its C text %s (inputs %s)" % (name, why, st))
    return {"bundled_routines_checked_against_models": len(names), "routine_model_states": total}
