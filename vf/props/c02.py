"""C02  Integer operators follow C11 promotion, common-type and operator semantics.

Space: every operator x operand-type combination at depth 1, compositions at depth 2, each
as `{ TA a; TB b; [TC c;] int64_t r; r = E; }` with typed preset inputs, x all operand values
of the E5 domain (exhaustive for 8-bit operands).  Oracle: r == cref(strict); emitted text is
well-sorted, well-formed and linear.
"""
import json

from vf import core, deviations, drive, native, prog, vcheck

LEVEL = "exploration"

T8 = ["int8_t", "uint8_t", "int16_t", "uint16_t", "int32_t", "uint32_t", "int64_t", "uint64_t"]
BINOPS = ["+", "-", "*", "&", "|", "^", "<<", ">>", "<", ">", "<=", ">=", "==", "!=", "&&", "||"]
UNOPS = ["~", "-", "!"]


def role(op, side):
    return "shift" if op in ("<<", ">>") and side == "r" else "input"


def depth1():
    specs = []
    for op in BINOPS:
        for ta in T8:
            for tb in T8:
                specs.append(prog.ProgSpec([(ta, "a", "input"), (tb, "b", role(op, "r")), ("int64_t", "r", "local")], "r = a %s b;" % op, ["r"], tag=("bin", op, ta, tb)))
    for op in UNOPS:
        for ta in T8:
            specs.append(prog.ProgSpec([(ta, "a", "input"), ("int64_t", "r", "local")], "r = %sa;" % op, ["r"], tag=("un", op, ta)))
    for tc in ("int8_t", "uint32_t"):
        for ta in T8:
            for tb in T8:
                specs.append(prog.ProgSpec([(tc, "c", "input"), (ta, "a", "input"), (tb, "b", "input"), ("int64_t", "r", "local")], "r = c ? a : b;", ["r"], tag=("cond", tc, ta, tb)))
    # a unary operator applied to a unary operator (!!a is 0 or 1 of type int, ~~a is the promoted a, ...), alone and as an operand
    for u1 in UNOPS:
        for u2 in UNOPS:
            uu = "%s%s%s" % (u1, " " if u1 == u2 == "-" else "", u2)
            for ta in T8:
                specs.append(prog.ProgSpec([(ta, "a", "input"), ("int64_t", "r", "local")], "r = %sa;" % uu, ["r"], tag=("unun", u1, u2, ta)))
                specs.append(prog.ProgSpec([(ta, "a", "input"), ("int64_t", "r", "local")], "r = %s%s%sa;" % (u1, " " if u1 == "-" else "", uu), ["r"], tag=("ununun", u1, u2, ta)))
                for tb in ("int8_t", "uint32_t", "int64_t"):
                    for o in ("+", "<", ">>", "=="):
                        specs.append(prog.ProgSpec([(ta, "a", "input"), (tb, "b", role(o, "r")), ("int64_t", "r", "local")], "r = %sa %s b;" % (uu, o), ["r"], tag=("unun-of", u1, u2, o, ta, tb)))
    return specs


def depth2(ops, types):
    specs = []
    for o1 in ops:
        for o2 in ops:
            for ta in types:
                for tb in types:
                    for tc in types:
                        d = [(ta, "a", "input"), (tb, "b", "input"), (tc, "c", "input"), ("int64_t", "r", "local")]
                        # op1(op2(a,b),c): b is a shift count if o2 shifts, c if o1 shifts
                        d1 = [(ta, "a", "input"), (tb, "b", role(o2, "r")), (tc, "c", role(o1, "r")), ("int64_t", "r", "local")]
                        specs.append(prog.ProgSpec(d1, "r = (a %s b) %s c;" % (o2, o1), ["r"], tag=("l", o1, o2, ta, tb, tc)))
                        d2 = [(ta, "a", "input"), (tb, "b", "input"), (tc, "c", role(o2, "r")), ("int64_t", "r", "local")]
                        specs.append(prog.ProgSpec(d2, "r = a %s (b %s c);" % (o1, o2), ["r"], tag=("r", o1, o2, ta, tb, tc)))
    return specs


def mixed_unary(types):
    specs = []
    for u in UNOPS:
        for o in ["+", "<<", ">>", "<", "==", "&&", "&"]:
            for ta in types:
                for tb in types:
                    specs.append(prog.ProgSpec([(ta, "a", "input"), (tb, "b", role(o, "r")), ("int64_t", "r", "local")], "r = %s(a %s b);" % (u, o), ["r"], tag=("u-of", u, o, ta, tb)))
                    specs.append(prog.ProgSpec([(ta, "a", "input"), (tb, "b", role(o, "r")), ("int64_t", "r", "local")], "r = (%sa) %s b;" % (u, o), ["r"], tag=("of-u", u, o, ta, tb)))
    return specs


def space(tier):
    specs = depth1()
    if tier == "quick":
        specs += depth2(["+", "&", "<<", ">>", "<", "==", "&&"], ["int8_t", "uint32_t", "int64_t"])
        specs += mixed_unary(["int8_t", "uint16_t", "int32_t", "uint64_t"])
    else:
        specs += depth2(BINOPS, ["int8_t", "uint8_t", "int32_t", "uint32_t", "uint64_t"])
        specs += depth2(["+", "<<", ">>", "<", "&&"], ["int16_t", "uint16_t", "int64_t"])
        specs += mixed_unary(T8)
    return specs


def run(ctx):
    specs = space(ctx.tier)
    budget = 256 if ctx.tier == "quick" else 2048
    results = vcheck.run_space(ctx, specs, "c02-" + ctx.tier, budget)
    cov = vcheck.summarize(ctx, specs, results, deviations.FINDING_OF)
    # E3n: the strict reference itself against gcc and clang (quick: the depth-1 space; thorough: everything)
    nat = specs if ctx.tier == "thorough" else depth1()
    cov["reference_vs_gcc_clang_comparisons"] = native.validate_space(ctx, nat, budget, prog.Env(drive.get_compiler()))
    # acceptance: every program of this alphabet is within the supported dialect
    cov.update(vcheck.check_rejections(ctx, specs, results, "c02"))
    for spec, r in zip(specs[:3] + specs[-2:], results[:3] + results[-2:]):
        ctx.sample({"program": r["text"], "status": r["status"], "states": r.get("n_states"), "explained_by": r.get("explained_by")})
    static_bad = sum(1 for r in results if r.get("static"))
    distinct = len(set(s.text for s in specs))
    return ctx.finish(
        dict(
            cov,
            evaluations=cov["states_compared"] + cov["ub_skipped"],
            distinct_nontrivial=distinct,
            rule="all operator x type combinations at depth 1 (16 binary x 8x8, 3 unary x 8, ?: x 2x8x8), depth-2 compositions and unary/binary mixes over the tier's type set; "
            "each program runs on the complete cross product of its operands' E5 domains (8-bit operands exhaustively when the budget of %d states allows, shift counts 0..65); "
            "distinct = distinct program texts, all non-trivial (each has at least one operator)" % budget,
            exhaustive=True,
            programs_with_static_errors=static_bad,
            state_budget_per_program=budget,
        ),
        assumptions=["ILVM semantics of RzIL core ops (DESIGN.md 3/E2)", "cref(strict) = C11 with QEMU conventions; cross-validated against gcc and clang by `./check SELFTEST`", "wide operands are covered on the boundary domain only"],
    )


def replay(ctx, path):
    return vcheck.replay(ctx, path)
