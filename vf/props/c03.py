"""C03  Casts and implicit conversions preserve the C value.

Space: 8x8 (source, target) integer type pairs plus boolean sources, in every conversion
context (explicit cast, initialisation, assignment to a local, to a register R / RR / P,
argument and return of a bundled sub-routine, memory store data), chains of conversions,
x all source values (exhaustive for 8-bit sources, E5 boundary sets otherwise).
"""
import itertools

from vf import core, deviations, drive, native, prog, vcheck

LEVEL = "exploration"
T8 = ["int8_t", "uint8_t", "int16_t", "uint16_t", "int32_t", "uint32_t", "int64_t", "uint64_t"]
P = prog.ProgSpec


def single(types_s, types_t):
    out = []
    for s in types_s:
        for t in types_t:
            out.append(P([(s, "a", "input"), ("int64_t", "r", "local")], "r = (%s)a;" % t, ["r"], tag=("cast", s, t)))
            out.append(P([(s, "a", "input"), ("uint64_t", "r", "local")], "r = (%s)a;" % t, ["r"], tag=("cast-u", s, t)))
            out.append(P([(s, "a", "input"), ("int64_t", "r", "local")], "%s t = a; r = t;" % t, ["r"], tag=("init", s, t)))
            out.append(P([(s, "a", "input"), (t, "t", "local"), ("int64_t", "r", "local")], "t = a; r = t;", ["r"], tag=("assign", s, t)))
            out.append(P([(s, "a", "input"), (t, "t", "local"), ("int64_t", "r", "local")], "t = 0; t = a; t = t; r = t;", ["r"], tag=("assign2", s, t)))
    for s in types_s:
        d = [(s, "a", "input")]
        out.append(P(d, "RdV = a;", [], tag=("reg", s, "R")))
        out.append(P(d, "RddV = a;", [], tag=("reg", s, "RR")))
        out.append(P(d, "PdV = a;", [], tag=("reg", s, "P")))
        out.append(P(d, "RxV = a;", [], tag=("reg", s, "Rx")))
        out.append(P(d, "P0 = a;", [], tag=("reg", s, "P0")))
        out.append(P(d, "HEX_REG_ALIAS_LR = a;", [], tag=("reg", s, "alias")))
        out.append(P(d, "JUMP(a);", [], tag=("jump", s)))
        for w in (8, 16, 32, 64):
            out.append(P(d, "EA = 0x100; mem_store_u%d(EA, a);" % w, [], tag=("store", s, w)))
            out.append(P(d, "EA = 0x100; mem_store_s%d(EA, a);" % w, [], tag=("store-s", s, w)))
        for w in (16, 32, 64):
            out.append(P(d, "EA = 0x100; mem_store_s%d(EA, (int8_t)a);" % w, [], tag=("store-s-cast", s, w)))
            out.append(P(d, "EA = 0x100; mem_store_u%d(EA, (int8_t)a);" % w, [], tag=("store-u-cast", s, w)))
        for w in (8, 16, 32, 64):
            for sg in "su":
                out.append(P(d + [("int64_t", "r", "local")], "r = mem_load_%s%d(a);" % (sg, w), ["r"], tag=("load-addr", s, sg, w)))
                out.append(P(d, "mem_store_%s%d(a, 0x1234);" % (sg, w), [], tag=("store-addr", s, sg, w)))
        for f in ("clz32", "clz64", "revbit16", "fbrev", "clo64"):
            out.append(P(d + [("int64_t", "r", "local")], "r = %s(a);" % f, ["r"], tag=("arg", s, f)))
        out.append(P(d + [("int64_t", "r", "local")], "r = conv_round(a, 3);", ["r"], tag=("arg", s, "conv_round")))
        out.append(P(d + [("int64_t", "r", "local")], "r = conv_round(100, a & 7);", ["r"], tag=("arg2", s, "conv_round")))
        out.append(P(d + [("int64_t", "r", "local")], "r = extract64(a, 4, 8);", ["r"], tag=("marg", s, "extract64")))
        out.append(P(d + [("int64_t", "r", "local")], "r = sextract64(a, 0, 8);", ["r"], tag=("marg", s, "sextract64")))
        out.append(P(d + [("int64_t", "r", "local")], "r = deposit32(a, 8, 8, a);", ["r"], tag=("marg", s, "deposit32")))
        out.append(P(d + [("int64_t", "r", "local")], "r = bswap16(a);", ["r"], tag=("marg", s, "bswap16")))
        # the result of a macro / call directly as an argument: converted to the parameter type like any other expression
        for outer in ("clz32", "clz64", "fbrev", "clo64", "bswap16", "bswap32"):
            for inner in ("extract32(a, 0, 12)", "extract64(a, 4, 40)", "sextract64(a, 0, 8)", "bswap16(a)", "bswap64(a)", "clz64(a)", "deposit64(a, 8, 8, a)"):
                out.append(P(d + [("int64_t", "r", "local")], "r = %s(%s);" % (outer, inner), ["r"], tag=("arg-of-macro", s, outer, inner)))
        out.append(P(d + [("int64_t", "r", "local")], "r = conv_round(a, extract64(a, 0, 3));", ["r"], tag=("arg-of-macro", s, "conv_round", "extract64")))
        out.append(P(d + [("int64_t", "r", "local")], "r = extract64(bswap16(a), 4, 8) + deposit32(sextract64(a, 0, 8), 8, 8, bswap64(a));", ["r"], tag=("arg-of-macro", s, "macro", "macro")))
    for t in types_t:
        d = [("uint32_t", "a", "input"), (t, "t", "local"), ("int64_t", "r", "local")]
        for f in ("clz32", "clz64", "revbit16", "fbrev"):
            out.append(P(d, "t = %s(a); r = t;" % f, ["r"], tag=("ret", t, f)))
        out.append(P(d, "t = conv_round(a, 2); r = t;", ["r"], tag=("ret", t, "conv_round")))
        out.append(P(d, "t = mem_load_s8(a); r = t;", ["r"], tag=("load", t, "s8")))
        out.append(P(d, "t = mem_load_u16(a); r = t;", ["r"], tag=("load", t, "u16")))
        out.append(P(d, "t = mem_load_s32(a); r = t;", ["r"], tag=("load", t, "s32")))
        out.append(P(d, "t = RsV; r = t;", ["r"], tag=("from-reg", t, "R")))
        out.append(P(d, "t = RssV; r = t;", ["r"], tag=("from-reg", t, "RR")))
        out.append(P(d, "t = PsV; r = t;", ["r"], tag=("from-reg", t, "P")))
        out.append(P(d, "t = siV; r = t;", ["r"], tag=("from-imm", t, "s")))
        out.append(P(d, "t = uiV; r = t;", ["r"], tag=("from-imm", t, "u")))
    return out


def boolean_sources(types_t):
    out = []
    srcs = ["a < b", "a == b", "!a", "a && b", "a || b", "(a < b) && !b", "!(a != b)"]
    for e in srcs:
        for t in types_t:
            d = [("int8_t", "a", "input"), ("uint8_t", "b", "input"), ("int64_t", "r", "local")]
            out.append(P(d, "r = (%s)(%s);" % (t, e), ["r"], tag=("bcast", e, t)))
            out.append(P(d, "%s t = %s; r = t;" % (t, e), ["r"], tag=("binit", e, t)))
            out.append(P(d + [(t, "t", "local")], "t = %s; r = t;" % e, ["r"], tag=("bassign", e, t)))
        d = [("int8_t", "a", "input"), ("uint8_t", "b", "input")]
        out.append(P(d, "RdV = %s;" % e, [], tag=("breg", e, "R")))
        out.append(P(d, "RddV = %s;" % e, [], tag=("breg", e, "RR")))
        out.append(P(d, "PdV = %s;" % e, [], tag=("breg", e, "P")))
        out.append(P(d, "EA = 0x40; mem_store_u8(EA, %s);" % e, [], tag=("bstore", e)))
        out.append(P(d + [("int64_t", "r", "local")], "r = clz32(%s);" % e, ["r"], tag=("barg", e)))
    return out


def chains(types, n):
    out = []
    for s in types:
        for seq in itertools.product(types, repeat=n):
            e = "a"
            for t in seq:
                e = "(%s)%s" % (t, e)
            out.append(P([(s, "a", "input"), ("int64_t", "r", "local")], "r = %s;" % e, ["r"], tag=("chain", s) + seq))
    return out


def chained_assignments(types_s, types_ab):
    """a = b = x: C11 6.5.16/3 - the value of `b = x` is the value of b after the assignment, so a
    receives (Ta)(Tb)x.  Destinations: locals and registers."""
    out = []
    for s in types_s:
        for tb in types_ab:
            for ta in types_ab:
                d = [(s, "x", "input"), (ta, "a", "local"), (tb, "b", "local"), ("int64_t", "r", "local"), ("int64_t", "q", "local")]
                out.append(P(d, "a = b = x; r = a; q = b;", ["r", "q"], tag=("chain-assign", s, tb, ta)))
                out.append(P(d, "a = b = (%s)x; r = a; q = b;" % tb, ["r", "q"], tag=("chain-assign-cast", s, tb, ta)))
            d = [(s, "x", "input"), (tb, "b", "local"), ("int64_t", "q", "local")]
            out.append(P(d, "RdV = b = x; q = b;", ["q"], tag=("chain-reg", s, tb, "R")))
            out.append(P(d, "RddV = b = x; q = b;", ["q"], tag=("chain-reg", s, tb, "RR")))
            out.append(P(d, "PdV = b = x; q = b;", ["q"], tag=("chain-reg", s, tb, "P")))
            out.append(P(d, "b = RxV = x; q = b;", ["q"], tag=("chain-reg-inner", s, tb)))
    return out


def assign_chains(types):
    out = []
    for s in types:
        for t1 in types:
            for t2 in types:
                out.append(P([(s, "a", "input"), (t1, "x", "local"), (t2, "y", "local"), ("int64_t", "r", "local")], "x = a; y = x; r = y;", ["r"], tag=("achain", s, t1, t2)))
    return out


def space(tier):
    if tier == "quick":
        sp = single(T8, T8) + boolean_sources(["int8_t", "uint16_t", "int32_t", "uint64_t"])
        sp += chains(["int8_t", "uint8_t", "int32_t", "uint64_t"], 2)
        sp += assign_chains(["int8_t", "uint16_t", "int64_t"])
        sp += chained_assignments(["int32_t", "uint64_t", "int8_t"], ["int8_t", "uint8_t", "int16_t", "uint32_t", "int64_t"])
    else:
        sp = single(T8, T8) + boolean_sources(T8)
        sp += chains(T8, 2) + chains(["int8_t", "uint8_t", "int16_t", "uint32_t", "int64_t", "uint64_t"], 3)
        sp += assign_chains(T8)
        sp += chained_assignments(T8, T8)
    seen = set()
    out = []
    for s in sp:
        if s.text not in seen:
            seen.add(s.text)
            out.append(s)
    return out


def run(ctx):
    specs = space(ctx.tier)
    budget = 256 if ctx.tier == "quick" else 1024
    comp = drive.get_compiler()
    env = prog.Env(comp)
    results = vcheck.run_space(ctx, specs, "c03-" + ctx.tier, budget, compiler=comp, env=env)
    cov = vcheck.summarize(ctx, specs, results, deviations.FINDING_OF)
    cov.update(vcheck.check_rejections(ctx, specs, results, "c03"))
    for r in results[:2] + results[-2:]:
        ctx.sample({"program": r["text"], "status": r["status"], "states": r.get("n_states"), "explained_by": r.get("explained_by")})
    nat = specs if ctx.tier == "thorough" else specs[: len(single(T8, T8))]
    cov["reference_vs_gcc_clang_comparisons"] = native.validate_space(ctx, nat, budget, env)
    return ctx.finish(
        dict(
            cov,
            evaluations=cov["states_compared"] + cov["ub_skipped"],
            distinct_nontrivial=len(specs),
            rule="every (source, target) pair of the 8 integer types in each conversion context (cast, initialisation, assignment, register R/RR/P/alias write, jump target, data of signed and unsigned stores of 8/16/32/64 bit (also explicitly cast), address of every load / store, "
            "argument and return value of bundled sub-routines and QEMU helpers, loads, register and immediate sources), boolean sources in the same contexts, conversion chains of length 2 (thorough: 3) and assignment chains; "
            "each on the complete E5 domain of its inputs (8-bit sources exhaustively; budget %d states); distinct = distinct program texts, each containing at least one conversion" % budget,
            exhaustive=True,
            state_budget_per_program=budget,
        ),
        assumptions=["ILVM core-op semantics; cref(strict) cross-validated against gcc and clang in this run", "wide sources are covered on boundary values only"],
    )


def replay(ctx, path):
    return vcheck.replay(ctx, path)
