"""C04  Common-type and promotion rules are exactly the C11 table.

Exhaustive enumeration of the real functions c11_cast / promoted_type over every ordered pair
of (signedness, width) in the stated width range, against an independent table.
"""
import json

from vf import core

LEVEL = "exploration"

GROUP_WIDTHS = [1, 2, 4, 7, 8, 15, 16, 17, 24, 31, 32, 33, 40, 48, 56, 63, 64, 65, 128, 256, 1024, 2048]
QUICK_WIDTHS = sorted(set(range(1, 131)) | set(GROUP_WIDTHS) | {512})


def ref_common(sa, wa, sb, wb):
    """C11 6.3.1.8 with rank = width."""
    if sa == sb:
        return sa, max(wa, wb)
    (su_w, ss_w) = (wb, wa) if sa else (wa, wb)  # unsigned width, signed width
    if su_w >= ss_w:
        return False, su_w
    return True, ss_w  # wider signed absorbs the narrower unsigned


def ref_promoted(s, w):
    return (True, 32) if w < 32 else (s, w)


def snap(t):
    return (t._signed, t._bit_width, t.group, t.format, t.external_type)


def groups():
    from rzilcompiler.Transformer.ValueType import VTGroup

    # PURE | BOOL is the type of the result of a comparison or logical operator (a truth value is an operand type
    # of integer expressions: `(a < b) - 1`); ARCH_LONG marks the types of the `long` keywords
    return [VTGroup.PURE, VTGroup.PURE | VTGroup.CONST, VTGroup.PURE | VTGroup.HYBRID_LVAR, VTGroup.PURE | VTGroup.BOOL, VTGroup.PURE | VTGroup.BOOL | VTGroup.CONST, VTGroup.PURE | VTGroup.ARCH_LONG]


def check_pair(sa, wa, sb, wb, gi):
    """Returns None or a string describing the first clause that fails."""
    from rzilcompiler.Transformer.ValueType import ValueType, c11_cast

    g = groups()[gi]
    a = ValueType(sa, wa, g)
    b = ValueType(sb, wb, g)
    a0, b0 = snap(a), snap(b)
    try:
        ra, rb = c11_cast(a, b)
    except Exception as e:  # totality
        return "raises %r" % (e,)
    if snap(a) != a0 or snap(b) != b0:
        return "argument modified: a %s->%s b %s->%s" % (a0[:2], snap(a)[:2], b0[:2], snap(b)[:2])
    exp = ref_common(sa, wa, sb, wb)
    got_a = (ra._signed, ra._bit_width)
    got_b = (rb._signed, rb._bit_width)
    if got_a != exp or got_b != exp:
        return "common type: expected %s got (%s, %s)" % (exp, got_a, got_b)
    # a returned object whose value differs from the argument must not be the argument
    if (ra is a and got_a != a0[:2]) or (rb is b and got_b != b0[:2]):
        return "changed type returned in the argument object"
    # determinism
    ra2, rb2 = c11_cast(a, b)
    if (ra2._signed, ra2._bit_width, rb2._signed, rb2._bit_width) != got_a + got_b:
        return "second call differs"
    if snap(a) != a0 or snap(b) != b0:
        return "argument modified by second call"
    # symmetry
    sb_, sa_ = c11_cast(b, a)
    if (sa_._signed, sa_._bit_width) != got_a or (sb_._signed, sb_._bit_width) != got_b:
        return "not symmetric: swap gives (%s,%s)" % ((sa_._signed, sa_._bit_width), (sb_._signed, sb_._bit_width))
    if snap(a) != a0 or snap(b) != b0:
        return "argument modified by swapped call"
    # mutating a result must not reach the arguments (shared objects between IR nodes)
    if ra is not a:
        ra._bit_width += 1
        ra._signed = not ra._signed
    if rb is not b:
        rb._bit_width += 1
        rb._signed = not rb._signed
    if snap(a) != a0 or snap(b) != b0:
        return "result aliases an argument"
    # ... nor a later answer for the same pair of types (results are handed to IR nodes which change them in
    # place, e.g. the negation of a constant): ask again with fresh, equal arguments
    a3, b3 = ValueType(sa, wa, g), ValueType(sb, wb, g)
    r3a, r3b = c11_cast(a3, b3)
    if (r3a._signed, r3a._bit_width) != exp or (r3b._signed, r3b._bit_width) != exp:
        return "history-dependent: after a caller changed an earlier result in place the same pair gives (%s, %s) instead of %s" % ((r3a._signed, r3a._bit_width), (r3b._signed, r3b._bit_width), exp)
    if wa != wb or sa != sb:
        if r3a is ra or r3b is rb or r3a is ra2 or r3b is rb2:
            return "two calls return the same object (a caller that changes its result in place changes the other caller's type)"
    return None


def check_promoted(s, w, gi):
    from rzilcompiler.Transformer.ValueType import ValueType, promoted_type

    t = ValueType(s, w, groups()[gi])
    t0 = snap(t)
    try:
        r = promoted_type(t)
    except Exception as e:
        return "raises %r" % (e,)
    if snap(t) != t0:
        return "argument modified"
    if (r._signed, r._bit_width) != ref_promoted(s, w):
        return "promoted type: expected %s got %s" % (ref_promoted(s, w), (r._signed, r._bit_width))
    r2 = promoted_type(t)
    if (r2._signed, r2._bit_width) != ref_promoted(s, w):
        return "second call differs"
    # a changed result must not change the answer for an equal type later
    if r is not t:
        r._signed = not r._signed
        r._bit_width += 1
        r3 = promoted_type(ValueType(s, w, groups()[gi]))
        if (r3._signed, r3._bit_width) != ref_promoted(s, w):
            return "history-dependent: a result changed in place by a caller is returned again"
        if snap(t) != t0:
            return "result aliases the argument although its value differs"
    return None


def work(item):
    """One row: fixed (sa, wa, gi), all (sb, wb)."""
    sa, wa, gi, widths = item
    bad = []
    n = 0
    nontrivial = 0
    for wb in widths:
        for sb in (False, True):
            n += 1
            if (sa, wa) != (sb, wb):
                nontrivial += 1
            r = check_pair(sa, wa, sb, wb, gi)
            if r and len(bad) < 5:
                bad.append(((sa, wa, sb, wb, gi), r))
    r = check_promoted(sa, wa, gi)
    if r:
        bad.append(((sa, wa, None, None, gi), "promoted_type: " + r))
    return n, nontrivial, bad


def tname(s, w):
    return ("s" if s else "u") + str(w)


def run(ctx):
    if ctx.tier == "quick":
        widths = QUICK_WIDTHS
        ngroups = 1
    else:
        widths = list(range(1, 2049))
        ngroups = 1  # the full width square with the PURE group; the group dimension is covered on QUICK_WIDTHS below
    items = [(sa, wa, gi, widths) for wa in widths for sa in (False, True) for gi in range(ngroups)]
    items += [(sa, wa, gi, GROUP_WIDTHS) for wa in GROUP_WIDTHS for sa in (False, True) for gi in (1, 2, 3, 4, 5)]
    res = core.pmap(work, items, seed=ctx.seed)
    total = sum(r[0] for r in res)
    nontrivial = sum(r[1] for r in res)
    nbad = 0
    for (n, nt, bad) in res:
        for case, why in bad:
            nbad += 1
            sa, wa, sb, wb, gi = case
            ctx.report(
                {"kind": "c11_cast" if sb is not None else "promoted_type", "a": tname(sa, wa), "b": None if sb is None else tname(sb, wb), "group_index": gi, "why": why},
                what="%s(%s, %s): %s" % ("c11_cast" if sb is not None else "promoted_type", tname(sa, wa), None if sb is None else tname(sb, wb), why),
            )
    ctx.samples = [
        {"call": "c11_cast(s8, u32)", "expected": tname(*ref_common(True, 8, False, 32))},
        {"call": "c11_cast(s64, u32)", "expected": tname(*ref_common(True, 64, False, 32))},
        {"call": "c11_cast(u%d, s%d)" % (widths[-1], widths[-1]), "expected": tname(*ref_common(False, widths[-1], True, widths[-1]))},
        {"call": "promoted_type(u16)", "expected": tname(*ref_promoted(False, 16))},
    ]
    return ctx.finish(
        {
            "evaluations": total + len(items),
            "distinct_nontrivial": nontrivial,
            "rule": "every ordered pair ((signed,width),(signed,width)) with width in the tier's width set "
            "(quick: %d widths = 1..130 and the wide register/vector widths; thorough: all widths 1..2048; both tiers add the CONST, HYBRID_LVAR, BOOL, BOOL|CONST and ARCH_LONG group flags on 22 widths) "
            "through the real c11_cast, plus promoted_type on every single type; non-trivial = the two types differ; "
            "clauses: totality, table, both results equal, determinism, symmetry, arguments unchanged, no aliasing" % len(QUICK_WIDTHS),
            "exhaustive": True,
            "width_set": "1..2048" if ctx.tier == "thorough" else "1..130,256,512,1024,2048",
            "pairs": total,
            "promoted_type_calls": len(items),
        },
        assumptions=["rank = bit width (as the property states)", "group flags other than PURE/CONST/HYBRID_LVAR/BOOL/ARCH_LONG are not operand types of integer expressions"],
    )


def replay(ctx, path):
    case = json.load(open(path))

    def parse(t):
        return (t[0] == "s", int(t[1:]))

    sa, wa = parse(case["a"])
    if case["kind"] == "promoted_type":
        r = check_promoted(sa, wa, case["group_index"])
    else:
        sb, wb = parse(case["b"])
        r = check_pair(sa, wa, sb, wb, case["group_index"])
    if r:
        print("VIOLATION property=%s replay=%s" % (ctx.pid, path))
        print("  " + r)
        return 1
    print("replay: property holds on this case")
    return 0
