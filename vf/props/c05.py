"""C05  Statements take effect in source order under exactly C's conditions.

Space: statement skeletons enumerated completely up to a nesting depth: all 11 assignment
operators on local / register / register-pair targets, declarations with initialiser, empty
statements and blocks, if / if-else / else-if chains, for loops with constant and data-dependent
trip counts 0..8, nested loops, stores and jumps, x E5 states driving every branch and trip count.
"""
import re

from vf import core, deviations, drive, native, prog, vcheck

LEVEL = "exploration"
P = prog.ProgSpec

DECLS = [("int32_t", "a", "input"), ("uint32_t", "b", "input"), ("uint8_t", "n", "count"), ("int32_t", "x", "local"), ("uint64_t", "y", "local"), ("int32_t", "i", "local"), ("int32_t", "j", "local")]
PRE = "x = a; y = b;"
OBS = ["x", "y"]
ASSIGN_OPS = ["=", "+=", "-=", "*=", "/=", "%=", "<<=", ">>=", "&=", "^=", "|="]


def rhs_for(op, e):
    if op in ("<<=", ">>="):
        return "(%s & 7)" % e
    if op in ("/=", "%="):
        return "(%s | 1)" % e
    return e


def leaves(tier):
    out = []
    for op in ASSIGN_OPS:
        out.append("x %s %s;" % (op, rhs_for(op, "b")))
        out.append("y %s %s;" % (op, rhs_for(op, "b")))
        if tier == "thorough":
            out.append("x %s %s;" % (op, rhs_for(op, "y")))
            out.append("RxV %s %s;" % (op, rhs_for(op, "a")))
            out.append("RxxV %s %s;" % (op, rhs_for(op, "b")))
    if tier != "thorough":
        out += ["x /= (y | 1);", "x &= y;"]  # the right operand is wider than the target
    # chained assignments whose inner assignment is compound or reads its own target (the outer target gets the value the
    # inner assignment stored, computed once)
    out += ["y = x += b;", "x = y -= 1;", "RdV = RxV |= a;", "y = x = x << 1;", "x = y = y + x;", "RdV = x *= 3;", "x = RxV -= a;", "y = x <<= 2;", "y = x = RxV += 1;", "x = y >>= (a & 3);"]
    # statements only the bundled behaviours use otherwise
    out += ["STORE_SLOT_CANCELLED(pkt, slot);", "cancel_slot;", 'fatal("C is broken");', "x = get_npc(pkt);"]
    out += ["y |= 0x100000001ULL; x /= y;", "y |= 0x100000001ULL; x %= y;", "x += (a < b);", "x <<= (a < b);", "y >>= !a;", "x *= (a && b);"]
    out += ["x /= ((a & 15) | 1);", "x %= ((a & 15) | 1);", "x = x / -3;", "y /= ((b & 15) | 1);"]
    # declarations whose initialiser is wider / narrower / of other signedness than the declared type
    out += ["int32_t lo = y; x = lo;", "int8_t t8 = x; y = t8;", "uint16_t t16 = y >> 8; x = t16; y = t16;", "int64_t w64 = x; y = w64;", "uint64_t u64 = RssV; int32_t l32 = u64; x = l32;"]
    out += ["RdV = x;", "RyyV = y;", "PeV = x;", "mem_store_u32((a & 0xfc), y);", "JUMP(x);", "int32_t t = x + 1; x = t * 2;", ";", "{ }", "{ x = x + 1; y = y + (uint32_t)x; }", "RxV += a;", "x = y = a;", "x = RdV = y = b;", "RdV = RxV = x = a;", "x = RdV = i++;", "RdV = x = clz32(b);", "y = x = RxV = RdV = a;"]
    return out


SMALL = ["x += b;", "y ^= b;", "RdV = x;", "x = x * 3;", "mem_store_u16((a & 0xf0), x);", ";", "x++;", "y--;"]
CONDS = ["a", "a < b", "x & 1", "!b", "(a & 3) == 1"]
LOOPS = ["for (i = 0; i < 3; i++)", "for (i = 0; i < n; i++)", "for (i = n; i != 0; i--)", "for (i = 0; i < 0; i++)", "for (i = 0; i < (a & 3); i += 1)"]


COND_KINDS = [
    "(uint8_t)V", "(int16_t)V", "(uint16_t)(V >> 4)", "(int32_t)((uint64_t)(uint32_t)V << 4)", "(uint32_t)V", "(int64_t)V", "(uint8_t)(uint16_t)V",
    "-V", "~V", "(V - 1)", "((uint32_t)V * 16)", "(V >> 8)", "(V & 0xff00)", "(V ? b : 0)",
    "(int8_t)V", "(uint16_t)V", "(uint64_t)V", "((uint32_t)V << 8)", "(V ^ b)", "(x = V)", "(uint8_t)(V >> 28)", "(int32_t)(y + (uint32_t)V)", "(V | 0)", "((uint8_t)V + 0)",
]


def mk(stmts, tag):
    return P(DECLS, PRE + " " + stmts, OBS, tag=tag)


def space(tier):
    L = leaves(tier)
    out = []
    for s in L:
        out.append(mk(s, ("leaf", s)))
        if not re.match(r"u?int\d+_t ", s):
            out.append(mk(s + " " + s, ("twice", s)))
    # pairs in both orders (source order must be kept)
    base = L if tier == "thorough" else L[:8] + SMALL + [x for x in L if x.startswith(("STORE_SLOT", "cancel_slot", "fatal", "x = get_npc"))]
    for s in base:
        for t in SMALL:
            out.append(mk(s + " " + t, ("seq", s, t)))
            out.append(mk(t + " " + s, ("seq", t, s)))
    conds = CONDS if tier == "thorough" else CONDS[:3]
    for c in conds:
        for s in base:
            out.append(mk("if (%s) { %s }" % (c, s), ("if", c, s)))
            if not re.match(r"u?int\d+_t ", s) and s != ";":
                # `if (c) ;` is left out: the grammar reads it as a call of a function named `if` and the
                # compiler rejects it with an exception (a C17 matter; a rejection is not a wrong translation)
                out.append(mk("if (%s) %s" % (c, s), ("if-nobrace", c, s)))
        for s in SMALL:
            for t in SMALL:
                out.append(mk("if (%s) { %s } else { %s }" % (c, s, t), ("ifelse", c, s, t)))
                out.append(mk("x += 1; if (%s) { %s } else { %s } y += (uint32_t)x;" % (c, s, t), ("ifelse-ctx", c, s, t)))
                if s != ";" and t != ";":
                    out.append(mk("if (%s) %s else %s" % (c, s, t), ("ifelse-nobrace", c, s, t)))
        for c2 in conds:
            for s in SMALL[:3]:
                out.append(mk("if (%s) { %s } else if (%s) { y = 7; } else { x = 9; }" % (c, s, c2), ("elseif", c, c2, s)))
                out.append(mk("if (%s) { if (%s) { %s } else { y = 5; } } else { x = 3; }" % (c, c2, s), ("nested-if", c, c2, s)))
                out.append(mk("if (%s) { if (%s) { %s } } x += 2;" % (c, c2, s), ("nested-if2", c, c2, s)))
    for lp in LOOPS:
        for s in base:
            out.append(mk("%s { %s }" % (lp, s), ("for", lp, s)))
        for s in SMALL:
            for t in SMALL[:3]:
                out.append(mk("%s { %s %s } RdV = x;" % (lp, s, t), ("for2", lp, s, t)))
            for c in conds:
                out.append(mk("%s { if (%s) { %s } else { y += i; } }" % (lp, c, s), ("for-if", lp, c, s)))
                out.append(mk("if (%s) { %s { %s } } else { x = 1; }" % (c, lp, s), ("if-for", lp, c, s)))
        out.append(mk("%s { x += i; } %s { y += i; }" % (lp, lp), ("for-for-seq", lp)))
        out.append(mk("%s { for (j = 0; j < 2; j++) { x += i * j; } }" % lp, ("for-nest", lp)))
        out.append(mk("%s { for (j = 0; j < i; j++) { y += j; x ^= i; } }" % lp, ("for-nest2", lp)))
        out.append(mk("%s { RxxV += i; mem_store_u8(i, x); }" % lp, ("for-regmem", lp)))
    # empty statements, empty blocks and declarations between statements that use the loop variable
    USE_I = ["x += i;", "y += (uint32_t)i;", "RdV = i;", "mem_store_u8(i, x);"]
    NOPS = [";", "{ }", "{ ; }", "int32_t t = i;", "; ;"]
    for lp in LOOPS[:3]:
        for u1 in USE_I:
            for nop in NOPS:
                for u2 in USE_I[:3]:
                    out.append(mk("%s { %s %s %s }" % (lp, u1, nop, u2), ("for-nop", lp, u1, nop, u2)))
                out.append(mk("%s { %s %s }" % (lp, nop, u1), ("for-nop-first", lp, nop, u1)))
                out.append(mk("%s { for (j = 0; j < 2; j++) { %s x += i + j; } y += (uint32_t)i; }" % (lp, nop), ("for-nop-inner", lp, nop)))
    for c in conds:
        for nop in NOPS[:3]:
            out.append(mk("if (%s) { x += 1; %s y += (uint32_t)x; } else { %s x += 2; }" % (c, nop, nop), ("if-nop", c, nop)))
    if tier == "thorough":
        for c in CONDS:
            for lp in LOOPS:
                for s in SMALL:
                    for t in SMALL[:3]:
                        out.append(mk("%s { if (%s) { %s } else { for (j = 0; j < 2; j++) { %s } } }" % (lp, c, s, t), ("d4", lp, c, s, t)))
                        out.append(mk("if (%s) { %s { if (x & 1) { %s } else { %s } } }" % (c, lp, s, t), ("d4b", lp, c, s, t)))
    # unbraced nests: an else belongs to the nearest if that has none
    for c1 in conds[:2]:
        for c2 in ["b & 1", "x & 2"]:
            for s1, s2 in [("x = 1;", "x = 2;"), ("y += 1;", "RdV = x;")]:
                out.append(mk("if (%s) if (%s) %s else %s" % (c1, c2, s1, s2), ("dangling", c1, c2, s1)))
                out.append(mk("if (%s) if (%s) if (b & 4) %s else %s" % (c1, c2, s1, s2), ("dangling3", c1, c2, s1)))
                out.append(mk("if (%s) x = 7; else if (%s) if (b & 4) %s else %s" % (c1, c2, s1, s2), ("dangling-elseif", c1, c2, s1)))
                out.append(mk("if (%s) if (%s) %s else %s else x = 9;" % (c1, c2, s1, s2), ("paired", c1, c2, s1)))
                out.append(mk("for (i = 0; i < 2; i++) if (%s) if (%s) %s else %s" % (c1, c2, s1, s2), ("for-dangling", c1, c2, s1)))
                out.append(mk("if (%s) for (i = 0; i < 2; i++) if (%s) %s else %s" % (c1, c2, s1, s2), ("if-for-dangling", c1, c2, s1)))
                out.append(mk("if (%s) { if (%s) %s } else %s" % (c1, c2, s1, s2), ("braced-outer", c1, c2, s1)))
    # the controlling expression: every expression kind (V stands for the tested variable) in every
    # position that tests a value against zero
    kinds = COND_KINDS if tier == "thorough" else COND_KINDS[:14]
    for k in kinds:
        ca, ci = k.replace("V", "a"), k.replace("V", "i")
        for pos, st in [
            ("if", "if (%s) { x += 1; } else { x += 2; }" % ca),
            ("if-noelse", "if (%s) { y += 1; }" % ca),
            ("elseif", "if (b & 1) { x = 5; } else if (%s) { x = 6; } else { x = 7; }" % ca),
            ("for", "x = 0; for (i = a; %s; i = (i >> 3) & 0xfffffff) { x += 1; }" % ci),
            ("cond", "x = %s ? 3 : 4;" % ca),
            ("not", "x = !%s;" % ca),
            ("and", "x = %s && b;" % ca),
            ("or", "x = (b & 1) || %s;" % ca),
            ("nested", "if (b & 2) { if (%s) { x = 1; } else { x = 2; } }" % ca),
        ]:
            out.append(mk(st, ("condkind", pos, k)))
    seen = set()
    res = []
    for s in out:
        if s.text not in seen:
            seen.add(s.text)
            res.append(s)
    return res


def run(ctx):
    specs = space(ctx.tier)
    budget = 200 if ctx.tier == "quick" else 1000
    comp = drive.get_compiler()
    env = prog.Env(comp)
    results = vcheck.run_space(ctx, specs, "c05-" + ctx.tier, budget, compiler=comp, env=env)
    cov = vcheck.summarize(ctx, specs, results, deviations.FINDING_OF)
    cov.update(vcheck.check_rejections(ctx, specs, results, "c05"))
    for r in results[:2] + results[-2:]:
        ctx.sample({"program": r["text"], "status": r["status"], "states": r.get("n_states"), "explained_by": r.get("explained_by")})
    nat = specs if ctx.tier == "thorough" else specs[:600]
    cov["reference_vs_gcc_clang_comparisons"] = native.validate_space(ctx, nat, budget, env)
    return ctx.finish(
        dict(
            cov,
            evaluations=cov["states_compared"] + cov["ub_skipped"],
            distinct_nontrivial=len(specs),
            rule="all statement skeletons of the alphabet {11 assignment operators on int32/uint64 locals, Rx, Rxx; Rd/Rdd/Pd writes; store; jump; declaration with initialiser; empty; blocks; chained assignment} "
            "as single statements, ordered pairs, arms of if / if-else / else-if / nested if under 3-5 conditions, bodies of 5 for-loop headers (constant, zero-trip, data-dependent up/down counting), "
            "loops in branches and branches in loops, sequential and nested loops (thorough: depth 4); empty statements / blocks / declarations between uses of the loop variable; compound assignments with wider and boolean right operands; "
            "unbraced if nests (dangling else, 7 shapes); 14 (thorough 24) kinds of controlling expression (narrowing / widening / sign-changing casts, unary, wrapping arithmetic, shifts, ?:, assignment) in 9 controlling positions; "
            "the statements only bundled behaviours use otherwise (slot cancel, fatal, get_npc); every program on the complete E5 domain of (a, b, n in 0..8) and its registers, budget %d states; "
            "observed: x, y, all written registers, memory, jump" % budget,
            exhaustive=True,
            state_budget_per_program=budget,
        ),
        assumptions=["ILVM core-op semantics, REPEAT horizon 20000 steps (never hit on terminating C loops)", "cref(strict) cross-validated against gcc and clang in this run"],
    )


def replay(ctx, path):
    return vcheck.replay(ctx, path)
