"""C06  Value-producing side effects happen exactly once, in order, only when selected.

Space: all placements of 1..2 (thorough: ..3) operations from {v++, v--, call of a value-returning
sub-routine, call of a void sub-routine with a visible effect, statement-expression} into the
positions {initialiser, assignment rhs, if condition, for condition, for step, call argument,
?: condition / then / else, expression statement with unused value, if arm, loop body}, between a
preceding and a following statement that observe the touched variables, x states selecting every
arm and trip count.
"""
import itertools

from vf import core, deviations, drive, native, prog, vcheck

LEVEL = "exploration"
P = prog.ProgSpec

DECLS = [("int32_t", "a", "input"), ("uint8_t", "c", "input"), ("int32_t", "v", "local"), ("int32_t", "w", "local"), ("int64_t", "r", "local"), ("int64_t", "s", "local"), ("int32_t", "i", "local")]
PRE = "v = a; w = 5; r = 0; s = 0;"
POST = "s = s + v * 16 + w;"
OBS = ["v", "w", "r", "s"]
EXTRA = [("usr", 32, "input")]

# value-producing operations (each mentions the variable it touches)
OPS = {
    "inc": "v++",
    "dec": "v--",
    "incw": "w++",
    "call": "clz32(v)",
    "callw": "fbrev(w)",
    "gcc": "({ v = v + 3; v; })",
    "gccw": "({ w += 1; w * 2; })",
    "gcc2": "({ int32_t t = v; v = t + w; t; })",
}
VOID_OPS = {"void": "set_usr_field(bundle, HEX_REG_FIELD_USR_LPCFG, v)", "trap": "trap(v, 1)"}


def one_op_positions(e, name):
    """statements that contain the operation e once, in each position"""
    out = [
        ("init", "int32_t q = %s; r = q;" % e),
        ("rhs", "r = %s;" % e),
        ("rhs+", "r = %s + v;" % e),
        ("+rhs", "r = v + %s;" % e),
        ("ifcond", "if (%s) { r = 1; } else { r = 2; }" % e),
        ("ifcond<", "if (%s < 3) { r = 1; }" % e),
        ("forstep", "for (i = 0; i < 3; %s) { i = i + 1; r += v; }" % e),
        ("forcond", "for (i = 0; %s < 4 + a; i++) { r += 1; if (i > 5) { v = 100; } }" % e),
        ("arg", "r = clz32(%s);" % e),
        ("arg2", "r = extract32(%s, 0, 8);" % e),
        ("ccond", "r = %s ? 7 : 9;" % e),
        # the left operand of && / || is always evaluated, whatever the right operand is
        ("and0", "r = %s && 0;" % e), ("or1", "r = %s || 1;" % e), ("and1", "r = %s && 1;" % e), ("or0", "r = %s || 0;" % e), ("and0-if", "if (%s && 0) { r = 1; } else { r = 2; }" % e),
        ("or1-cond", "r = (%s || 1) ? 5 : 6;" % e), ("and-fold", "r = %s && (1 < 0);" % e), ("not-and0", "r = !(%s && 0);" % e),
        ("cthen", "r = c ? %s : 9;" % e),
        ("celse", "r = c ? 9 : %s;" % e),
        ("stmt", "%s;" % e),
        ("ifarm", "if (c) { %s; } else { r = 4; }" % e),
        ("ifarm-r", "if (c) { r = %s; }" % e),
        ("elsearm", "if (c) { r = 4; } else { r = %s; }" % e),
        ("loop", "for (i = 0; i < (c & 3); i++) { r += %s; }" % e),
        ("loop-stmt", "for (i = 0; i < (c & 3); i++) { %s; }" % e),
        ("store", "mem_store_u32(0x80, %s);" % e),
        ("regw", "RdV = %s;" % e),
        ("jump", "JUMP(%s);" % e),
        ("compound", "r += %s;" % e),
        ("cast", "r = (int8_t)%s;" % e),
        ("unary", "r = -%s;" % e),
        ("cmp", "r = %s == v;" % e) if name in ("call", "callw") else ("cmp", "r = %s == 3;" % e),
    ]
    return out


# statement contexts: every place a statement can stand in (S is a complete statement)
CONTEXTS = [
    ("plain", "%s"),
    ("seq", "r = 1; %s r += 2;"),
    ("block", "{ %s }"),
    ("block2", "{ { r = 1; %s } r += 2; }"),
    ("then", "if (c) { %s }"),
    ("then-nobrace", "if (c) %s"),
    ("else", "if (c) { r = 4; } else { %s }"),
    ("else-nobrace", "if (c) r = 4; else %s"),
    ("then-mid", "if (c) { r = 1; %s r += 2; } else { r = 9; }"),
    ("else-mid", "if (c) { r = 1; } else { r = 2; %s r += 3; }"),
    ("elseif", "if (c) { r = 4; } else if (a & 1) { %s } else { r = 6; }"),
    ("elseif-else", "if (c) { r = 4; } else if (a & 1) { r = 5; } else { %s }"),
    ("nested-then", "if (c) { if (a & 1) { %s } }"),
    ("nested-else", "if (c) { if (a & 1) { r = 1; } else { %s } } else { r = 3; }"),
    ("else-nested-then", "if (c) { r = 1; } else { if (a & 1) { %s } r += 3; }"),
    ("loop", "for (i = 0; i < (c & 3); i++) { %s }"),
    ("loop-then", "for (i = 0; i < (c & 3); i++) { if (i & 1) { %s } else { r += 1; } }"),
    ("loop-else", "for (i = 0; i < (c & 3); i++) { if (i & 1) { r += 1; } else { %s } }"),
    ("then-loop", "if (c & 4) { for (i = 0; i < (c & 3); i++) { %s } } else { r = 7; }"),
    ("else-loop", "if (c & 4) { r = 7; } else { for (i = 0; i < (c & 3); i++) { %s } }"),
]
STMT_FORMS = [("unused", "%s;"), ("assign", "r = %s;"), ("acc", "r += %s;")]


def two_op_statements(e1, e2):
    return [
        ("2:sum", "r = %s + %s;" % (e1, e2)),
        ("2:seq", "r = %s; s = %s;" % (e1, e2)),
        ("2:stmt-seq", "%s; %s;" % (e1, e2)),
        ("2:cond", "r = c ? %s : %s;" % (e1, e2)),
        ("2:cond-cond", "r = %s ? %s : 3;" % (e1, e2)),
        ("2:if", "if (%s) { r = %s; }" % (e1, e2)),
        ("2:arg", "r = clz32(%s) + %s;" % (e1, e2)),
        ("2:for", "for (i = 0; i < 2; %s) { i++; r += %s; }" % (e1, e2)),
        ("2:nested-arg", "r = clz32(clz32(%s) + %s);" % (e1, e2)),
        ("2:ifelse", "if (c) { r = %s; } else { r = %s; }" % (e1, e2)),
    ]


def conflicts(e1, e2):
    """Unsequenced modification of the same variable in one expression is undefined in C: the
    generator does not pair operations on the same variable inside one expression."""
    t1 = "w" if ("w" in e1 and "v" not in e1.replace("v;", "")) else "v"
    t2 = "w" if ("w" in e2 and "v" not in e2.replace("v;", "")) else "v"
    return t1 == t2


def mk(stmt, tag):
    return P(DECLS, "%s %s %s" % (PRE, stmt, POST), OBS, tag=tag)


def space(tier):
    out = []
    for name, e in OPS.items():
        for pos, st in one_op_positions(e, name):
            out.append(mk(st, (name, pos)))
    for name, e in VOID_OPS.items():
        for pos, st in [("stmt", "%s;" % e), ("ifarm", "if (c) { %s; }" % e), ("elsearm", "if (c) { r = 1; } else { %s; }" % e), ("loop", "for (i = 0; i < (c & 3); i++) { %s; v++; }" % e), ("seq", "v = v + 1; %s; v = v + 1;" % e),
                        ("gcc-arm", "r = c ? ({ %s; 5; }) : 6;" % e), ("gcc-arm2", "r = c ? 6 : ({ %s; v; });" % e), ("gcc", "r = ({ %s; v + 1; });" % e)]:
            out.append(mk(st, (name, pos)))
    ctx_ops = ["inc", "call", "gcc", "incw"] if tier == "quick" else list(OPS)
    for name in ctx_ops:
        for fn, form in STMT_FORMS:
            for cn, cx in CONTEXTS:
                out.append(mk(cx % (form % OPS[name]), (name, "ctx", fn, cn)))
    for name, e in VOID_OPS.items():
        for cn, cx in CONTEXTS:
            out.append(mk(cx % ("%s;" % e), (name, "ctx", "void", cn)))
    names = list(OPS)
    pairs = [(x, y) for x in names for y in names]
    if tier == "quick":
        pairs = [(x, y) for (x, y) in pairs if x in ("inc", "call", "gcc", "incw") and y in ("inc", "incw", "callw", "gccw", "dec")]
    for x, y in pairs:
        for pos, st in two_op_statements(OPS[x], OPS[y]):
            same = conflicts(OPS[x], OPS[y])
            if same and pos in ("2:sum", "2:arg", "2:nested-arg"):
                continue  # unsequenced modification and access of one object: undefined in C
            out.append(mk(st, (x, y, pos)))
    # "only when selected" with a condition the compiler folds: the arm that is not selected must not take effect
    # (the other arm has the type of the operation: the conversion of the arms of a folded ?: is C09's subject)
    for name, e in OPS.items():
        three, var = ("3U", "(uint32_t)v") if name in ("call", "callw") else ("3", "v")
        for k in ("1", "0", "(1 < 2)"):
            for pos, st in [("dead-or-live-then", "r = %s ? %s : %s;" % (k, e, three)), ("dead-or-live-else", "r = %s ? %s : %s;" % (k, three, e)), ("other-arm-var", "r = %s ? %s : %s;" % (k, var, e)),
                            ("other-arm-var2", "r = %s ? %s : %s;" % (k, e, var)), ("in-sum", "r = (%s ? %s : %s) + %s;" % (k, three, e, var)), ("if-const", "if (%s) { r = %s; } else { s = %s; }" % (k, e, e))]:
                out.append(mk(st, (name, "const-cond", k, pos)))
    for x, y in pairs:
        if conflicts(OPS[x], OPS[y]) or (x in ("call", "callw")) != (y in ("call", "callw")):
            continue
        for k in ("1", "0"):
            out.append(mk("r = %s ? %s : %s;" % (k, OPS[x], OPS[y]), (x, y, "const-cond-2", k)))
            out.append(mk("r = (%s ? 3 : %s) + %s;" % (k, OPS[x], OPS[y]), (x, y, "const-cond-sum", k)))
    if tier == "thorough":
        for x, y, z in itertools.product(["inc", "call", "gcc"], ["incw", "callw", "gccw"], ["inc", "dec", "call"]):
            out.append(mk("r = %s; s = %s; r += %s;" % (OPS[x], OPS[y], OPS[z]), (x, y, z, "3:seq")))
            out.append(mk("if (%s) { r = %s; } else { r = c ? %s : 1; }" % (OPS[x], OPS[y], OPS[z]), (x, y, z, "3:if")))
            out.append(mk("for (i = 0; i < (c & 3); i++) { r += %s; if (c & 4) { s += %s; } } %s;" % (OPS[x], OPS[y], OPS[z]), (x, y, z, "3:loop")))
    seen = set()
    res = []
    for s in out:
        if s.text not in seen:
            seen.add(s.text)
            res.append(s)
    return res


def run(ctx):
    specs = space(ctx.tier)
    budget = 160 if ctx.tier == "quick" else 800
    comp = drive.get_compiler()
    env = prog.Env(comp)
    results = vcheck.run_space(ctx, specs, "c06-" + ctx.tier, budget, compiler=comp, env=env, extra={"extra_slots": EXTRA})
    cov = vcheck.summarize(ctx, specs, results, deviations.FINDING_OF)
    cov.update(vcheck.check_rejections(ctx, specs, results, "c06"))
    for r in results[:2] + results[-2:]:
        ctx.sample({"program": r["text"], "status": r["status"], "states": r.get("n_states"), "explained_by": r.get("explained_by")})
    cov["reference_vs_gcc_clang_comparisons"] = native.validate_space(ctx, [s for s in specs if "trap(" not in s.stmts], budget, env, extra_slots=EXTRA)
    return ctx.finish(
        dict(
            cov,
            evaluations=cov["states_compared"] + cov["ub_skipped"],
            distinct_nontrivial=len(specs),
            rule="every operation of {v++, v--, w++, clz32(v), fbrev(w), three statement-expressions, two void calls} in each of 26 positions (initialiser, rhs, operands, if/for conditions, for step, call/macro argument, "
            "?: condition/then/else, unused expression statement, if/else arm, loop body, store data, register write, jump target, compound assignment, cast, unary, comparison), and all ordered pairs (thorough: selected triples) of operations "
            "in 10 two-operation shapes; every operation as unused / assigned / accumulated statement in 20 statement contexts (then / else arms braced and unbraced, else-if, nested arms, loop bodies, loops in arms, blocks, sequences); excluding only pairs that modify one object twice within one unsequenced expression (undefined in C); each program between a preceding and a following statement observing v and w, "
            "on the complete E5 domain of (a, c) and USR, budget %d states; the ILVM monitor for reads of never-written temporaries is part of the IL-side verdict" % budget,
            exhaustive=True,
            state_budget_per_program=budget,
        ),
        assumptions=["ILVM: lazy ITE, call-by-name callee instantiation in the caller's flat namespace", "cref(strict) counts evaluations exactly; cross-validated against gcc and clang in this run"],
    )


def replay(ctx, path):
    return vcheck.replay(ctx, path, extra={"extra_slots": EXTRA})
