"""C07  Operands are bound to the right architectural resource, width and .new flag.

Space: every operand spelling the grammar admits (register class x access letter x single/pair
x V/N, explicit registers with and without _NEW, every alias of patches_macros.h, every
immediate letter, every load/store width/sign, JUMP), each in four micro-programs (read,
write, read-write-read, write-read) x states in which every bank holds a distinct value.
Oracle: (static) every operand is resolved through the resolver, letter / class / number /
alias enum and .new flag that an independent architectural table prescribes; (dynamic) reads
return the committed / pending value C semantics requires and exactly the destination changes.
"""
import json
import os
import re

from vf import ceval, core, deviations, drive, il, ilvm, prog, vcheck

LEVEL = "exploration"
P = prog.ProgSpec

SINGLE = list("stuvwdexyz")
PAIRS = ["ss", "tt", "uu", "vv", "dd", "xx", "yy"]
REG_TYPES = list("CNPRMQVO")
EXPL_CLASS = {
    ("R", False): "HEX_REG_CLASS_INT_REGS", ("R", True): "HEX_REG_CLASS_DOUBLE_REGS",
    ("C", False): "HEX_REG_CLASS_CTR_REGS", ("C", True): "HEX_REG_CLASS_CTR_REGS64",
    ("P", False): "HEX_REG_CLASS_PRED_REGS", ("P", True): "HEX_REG_CLASS_PRED_REGS64",
    ("M", False): "HEX_REG_CLASS_MOD_REGS", ("M", True): "HEX_REG_CLASS_MOD_REGS64",
    ("V", False): "HEX_REG_CLASS_HVX_VR", ("V", True): "HEX_REG_CLASS_HVX_WR",
    ("Q", False): "HEX_REG_CLASS_HVX_QR",
    ("G", False): "HEX_REG_CLASS_GUEST_REGS", ("G", True): "HEX_REG_CLASS_GUEST_REGS64",
    ("S", False): "HEX_REG_CLASS_SYS_REGS", ("S", True): "HEX_REG_CLASS_SYS_REGS64",
}


def alias_names():
    txt = open(os.path.join(core.REPO, "Resources/Hexagon/Preprocessor/patches_macros.h")).read()
    names = set(re.findall(r"HEX_REG_ALIAS_([A-Z0-9]+?)(?:_NEW)?\b", txt))
    # plus the aliases of the architectural table that the bundled macros do not use (64-bit pairs)
    names |= set(drive.ALIAS64)
    return sorted(names)


def spellings():
    out = []
    for t in REG_TYPES:
        for l in SINGLE + PAIRS:
            for sfx in ("V", "N"):
                if t == "N" and (len(l) == 2 or sfx == "V"):
                    continue  # new-value operands exist only as single `NxN`; other N spellings have no documented meaning
                out.append(("reg", t + l + sfx))
    for t in "RCPVQMGS":
        for n in ("0", "3", "11", "31", "1"):
            out.append(("explicit", t + n))
            out.append(("explicit", t + n + "_NEW"))
    # pairs of P, M, V, Q, G, S have no class in the independent table (nothing documented): outside the alphabet
    for pair in ("R1:0", "R11:10", "R31:30", "C1:0", "C11:10"):
        out.append(("explicit", pair))
        out.append(("explicit", pair + "_NEW"))
    for a in alias_names():
        out.append(("alias", "HEX_REG_ALIAS_" + a))
        out.append(("alias", "HEX_REG_ALIAS_" + a + "_NEW"))
    for i in "rRsSuUmn":
        out.append(("imm", i + "iV"))
    return out


def programs(kind, sp):
    # locals are not named like immediate letters (r, s, u, m, n): the IL local variable space is flat
    a = [("int64_t", "va", "input")]
    r = [("int64_t", "res", "local")]
    s = [("int64_t", "res2", "local")]
    is_new = sp.endswith("N") and kind == "reg" or sp.endswith("_NEW")
    out = [("read", P(r, "res = %s;" % sp, ["res"], tag=(kind, sp, "read")))]
    out.append(("read2", P(r + s, "res = %s; res2 = %s + 1;" % (sp, sp), ["res", "res2"], tag=(kind, sp, "read2"))))
    if kind == "imm" or is_new or sp.startswith("HEX_REG_ALIAS_PC"):
        return out
    # source-letter operands are assigned in a few bundled behaviours (RtV = ..., RsV = 0): the write patterns apply to them too
    pre = "" if ":" not in sp else "res = 0; "  # an explicit pair as the first token of a statement parses as a label (C17)
    out.append(("write", P(a + r, "%s%s = va;" % (pre, sp), [], tag=(kind, sp, "write"))))
    out.append(("rwr", P(a + r + s, "res = %s; %s = va; res2 = %s;" % (sp, sp, sp), ["res", "res2"], tag=(kind, sp, "rwr"))))
    out.append(("wr", P(a + r, "%s%s = va; res = %s;" % (pre, sp, sp), ["res"], tag=(kind, sp, "wr"))))
    out.append(("wwr", P(a + r, "%s%s = va; %s = %s + 1; res = %s;" % (pre, sp, sp, sp, sp), ["res"], tag=(kind, sp, "wwr"))))
    return out


def memory_programs():
    out = []
    for sg in "su":
        for w in (8, 16, 32, 64):
            for t in ("uint32_t", "int32_t", "uint64_t"):
                out.append(P([(t, "a", "input"), ("int64_t", "r", "local")], "r = mem_load_%s%d(a);" % (sg, w), ["r"], tag=("load", sg, w, t)))
            out.append(P([("int64_t", "r", "local")], "EA = RsV + siV; r = mem_load_%s%d(EA);" % (sg, w), ["r"], tag=("load-ea", sg, w)))
            for t in ("uint32_t", "int64_t"):
                out.append(P([(t, "a", "input"), ("int64_t", "b", "input")], "mem_store_%s%d(a, b);" % (sg, w), [], tag=("store", sg, w, t)))
            out.append(P([("int64_t", "b", "input")], "EA = RsV; mem_store_%s%d(EA, b); mem_store_%s%d(EA + 8, RtV);" % (sg, w, sg, w), [], tag=("store-ea", sg, w)))
    for t in prog.TYPES:
        out.append(P([(t, "a", "input")], "JUMP(a);", [], tag=("jump", t)))
    out.append(P([], "JUMP(riV);", [], tag=("jump", "imm")))
    out.append(P([], "JUMP(RsV);", [], tag=("jump", "reg")))
    out.append(P([], "JUMP(HEX_REG_ALIAS_PC + riV);", [], tag=("jump", "pc-rel")))
    out.append(P([], "if (PuV & 1) { JUMP(riV); }", [], tag=("jump", "cond")))
    out.append(P([("int64_t", "r", "local")], "r = HEX_REG_ALIAS_PC;", ["r"], tag=("pc",)))
    return out


# ---- static binding check on the term DAG


def expected_resolver(o):
    """What the HexOp declaration of operand o must look like."""
    newf = "true" if o.new else "false"
    if o.kind == "reg":
        if o.cls == "N":
            return ("NREG2OP", ("bundle", "'%s'" % o.letter))
        return ("ISA2REG", ("hi", "'%s'" % o.letter, newf))
    if o.kind == "explicit":
        return ("EXPLICIT2OP", (str(o.number), EXPL_CLASS.get((o.cls, o.pair), "?"), newf))
    if o.kind == "alias":
        name = o.spelling[: -len("_NEW")] if o.spelling.endswith("_NEW") else o.spelling
        return ("ALIAS2OP", (name, newf))
    return None


def render(e):
    if e[0] == "id":
        return e[1]
    if e[0] == "num":
        return str(e[1])
    if e[0] == "chr":
        return "'%s'" % e[1]
    return repr(e)


def check_bindings(body, ops):
    errs = []
    got = []
    for d in body.decls:
        if d.kind == "op" and d.expr[0] == "call":
            got.append((d.expr[1], tuple(render(x) for x in d.expr[2]), d.name))
    used = set()
    for sp, o in sorted(ops.items()):
        exp = expected_resolver(o)
        if exp is None:
            continue
        m = [g for g in got if (g[0], g[1]) == exp]
        if not m:
            errs.append("%s: expected %s(%s), emitted resolvers: %s" % (sp, exp[0], ", ".join(exp[1]), "; ".join("%s(%s)" % (g[0], ", ".join(g[1])) for g in got) or "none"))
        else:
            used.update(g[2] for g in m)
    for g in got:
        if g[2] not in used:
            errs.append("resolver %s(%s) does not belong to any operand of the source" % (g[0], ", ".join(g[1])))
    # immediates
    for sp, o in ops.items():
        if o.kind == "imm":
            pat = ("call", "SN" if o.signed else "UN", (("num", 32), ("ccast", "st32" if o.signed else "ut32", ("call", "ISA2IMM", (("id", "hi"), ("chr", o.letter))))))
            if not any(d.expr == pat for d in body.decls):
                errs.append("%s: expected %s(32, (%s) ISA2IMM(hi, '%s'))" % (sp, pat[1], pat[2][1][1], o.letter))
    # READ_REG flags: a .new operand is read through `true`.  A plain operand with a read side (source letters
    # s t u v w and read-write letters x y z, single or pair) is read through `false`, whether or not this
    # instruction also assigns it; only operands without a read side (d, e, and explicit registers / aliases the
    # instruction wrote first) are re-read from the pending bank.
    var_of = {}
    for sp, o in ops.items():
        exp = expected_resolver(o)
        for g in got:
            if exp and (g[0], g[1]) == exp:
                var_of[g[2]] = (sp, o)
    for d in body.decls:
        if d.expr is None:
            continue
        for e in il.walk(d.expr):
            if e[0] == "call" and e[1] == "READ_REG" and len(e[2]) == 3:
                opv = e[2][1]
                opv = opv[1] if opv[0] == "addr" else opv
                hit = var_of.get(render(opv))
                if not hit:
                    continue
                sp, o = hit
                flag = render(e[2][2])
                if o.new and flag != "true":
                    errs.append("%s: a .new operand is read with flag %s" % (sp, flag))
                if not o.new and o.kind == "reg" and o.letter[0] in "stuvwxyz" and flag != "false":
                    errs.append("%s: a plain operand with a read side is read with the .new flag (%s)" % (sp, d.text.strip()[:120]))
    return errs


_JOB = {}


def work(item):
    kind, sp, variant, spec = item
    comp = _JOB["comp"]
    env = _JOB["env"]
    res = {"sp": sp, "kind": kind, "variant": variant, "text": spec.text}
    r = drive.compile_stmt_fresh(comp, spec.text)
    if r[0] != "ok":
        res.update(status="rejected", exc=r[1])
        return res
    try:
        cp = prog.Compiled(spec, r[1], env)
    except Exception as e:
        res.update(status="unreadable", detail=repr(e)[:200])
        return res
    ops = cp.ops
    if kind in ("reg", "explicit", "alias", "imm") and sp not in ops and not sp.startswith("HEX_REG_ALIAS_PC"):
        res.update(status="not-an-operand", detail="the independent scanner does not classify %s as an operand, but the compiler accepted it" % sp)
        return res
    res["bindings"] = check_bindings(cp.body, ops)
    st = cp.static_errors()
    res["static"] = {k: v[:2] for k, v in st.items() if v}
    slots, states = prog.states_for(spec, ops, _JOB["budget"])
    n = 0
    bad = []
    fresh_ok = True
    for vec in states:
        try:
            cobs = cp.run_c(slots, vec)
        except (ceval.CUndefined, ceval.CUnsupported) as e:
            res.setdefault("skipped", str(e)[:80])
            continue
        n += 1
        try:
            m = cp.run_il(slots, vec)
            d = prog.diff_obs(cobs, m.observation(spec.observe), dict(m.cur))
        except ilvm.ILError as e:
            d = ["IL error %s" % e]
        if d:
            bad.append((vec, d))
            # would the IL agree if every read of a register this instruction wrote returned the new value?
            try:
                m2 = prog.build_il_machine(spec, ops, slots, vec)
                m2.fresh_reads = True
                if cp.prog is None:
                    raise cp.il_error
                cp.prog.run(m2)
                if prog.diff_obs(cobs, m2.observation(spec.observe), dict(m2.cur)):
                    fresh_ok = False
            except ilvm.ILError:
                fresh_ok = False
    res["n_states"] = n
    if bad:
        res["status"] = "disagree"
        res["first_bad"] = {"state": dict(zip([s[0] for s in slots], bad[0][0])), "detail": "; ".join(bad[0][1][:2])[:300]}
        res["explained_by_fresh_reads"] = fresh_ok
        vres = None
        if not fresh_ok:
            # value rules of the conversion kind (e.g. signed -> wider unsigned) may explain it
            il_results = []
            for vec in states:
                try:
                    m = cp.run_il(slots, vec)
                    il_results.append(("ok", m.observation(spec.observe), dict(m.cur), {}))
                except ilvm.ILError as e:
                    il_results.append(("err", e.kind, e.msg))
            vres = vcheck.explain_values(cp, slots, states, il_results, deviations.triggered(cp.cast, ops, cp))
        if vres:
            res["explained_by"] = sorted(vres)
    else:
        res["status"] = "agree" if n else "no-comparable-state"
    return res


def warm_specs(tier):
    return [("c07", [p for (_k, _s, _v, p) in all_items()])]


def mixed_programs():
    """Two spellings that name the same register differently (plain / .new) or different registers with similar names,
    in one behaviour and in both orders: each must keep its own binding."""
    pairs = []
    for t, l in (("P", "v"), ("P", "u"), ("R", "s"), ("R", "t"), ("R", "x")):
        if not (t == "R" and l == "x"):
            pairs.append((t + l + "V", t + l + "N"))
    pairs += [("P0", "P0_NEW"), ("P3", "P3_NEW"), ("R0", "R0_NEW"), ("R31", "R31_NEW"), ("HEX_REG_ALIAS_LR", "HEX_REG_ALIAS_LR_NEW"), ("HEX_REG_ALIAS_USR", "HEX_REG_ALIAS_USR_NEW"),
              ("RsV", "RttV"), ("PuV", "RvV"), ("R1", "R11"), ("R1", "P1"), ("R3", "C3"), ("R1:0", "R1"), ("HEX_REG_ALIAS_SA0", "HEX_REG_ALIAS_SA1"), ("HEX_REG_ALIAS_LC0", "HEX_REG_ALIAS_LR"),
              ("siV", "SiV"), ("uiV", "UiV"), ("riV", "RsV")]
    r = [("int64_t", "res", "local"), ("int64_t", "res2", "local")]
    out = []
    for a, b in pairs:
        for x, y in ((a, b), (b, a)):
            out.append(P(r, "res = %s; res2 = %s;" % (x, y), ["res", "res2"], tag=("mix", x, y, "seq")))
            out.append(P(r, "res = %s + %s;" % (x, y), ["res"], tag=("mix", x, y, "sum")))
            out.append(P(r, "if (%s) { res = %s; } else { res2 = %s; }" % (x, y, x), ["res", "res2"], tag=("mix", x, y, "if")))
    return out


def all_items():
    items = []
    for spec in mixed_programs():
        items.append(("mix", "%s,%s" % (spec.tag[1], spec.tag[2]), spec.tag[3], spec))
    for kind, sp in spellings():
        for variant, spec in programs(kind, sp):
            items.append((kind, sp, variant, spec))
    for spec in memory_programs():
        items.append(("mem", spec.tag[0], "-".join(str(x) for x in spec.tag[1:]), spec))
    return items


BASELINE = os.path.join(core.VERIF, "baselines", "c07_accepted_spellings.json")


def run(ctx):
    comp = drive.get_compiler("stmt")
    env = prog.Env(comp)
    items = all_items()
    pc = drive.ParseCache("c07")
    pc.ensure([it[3].text for it in items], seed=ctx.seed)
    pc.save()
    drive.install_cache(comp, pc)
    _JOB.update(comp=comp, env=env, budget=64 if ctx.tier == "quick" else 512)
    res = core.pmap(work, items, seed=ctx.seed)
    accepted = {}
    n_states = 0
    counts = {"agree": 0, "disagree": 0, "rejected": 0}
    for it, r in zip(items, res):
        st = r["status"]
        n_states += r.get("n_states", 0)
        if st == "rejected":
            counts["rejected"] += 1
            accepted.setdefault(r["sp"], set())
            continue
        accepted.setdefault(r["sp"], set()).add(r["variant"])
        if st in ("unreadable", "not-an-operand"):
            ctx.report({"spelling": r["sp"], "program": r["text"], "why": r["detail"]}, None, what="%s: %s" % (r["sp"], r["detail"]))
            continue
        for b in r.get("bindings", []):
            ctx.report({"spelling": r["sp"], "program": r["text"], "binding": b}, None, what="wrong operand binding: %s" % b)
        if r.get("static"):
            r["static"].pop("linearity", None)  # ownership defects are owned by C12 (its generator contains these programs)
        if r.get("static"):
            ctx.report({"spelling": r["sp"], "program": r["text"], "static": r["static"]}, None, what="%s (%s): emitted text fails the static checks: %s" % (r["sp"], r["variant"], str(r["static"])[:200]))
        if st == "disagree":
            counts["disagree"] += 1
            fids = None
            if r.get("explained_by_fresh_reads"):
                fids = ["KF-reg-read-after-own-write-stale"]
            elif r.get("explained_by"):
                fids = sorted(set(deviations.FINDING_OF.get(x, x) for x in r["explained_by"]))
            ctx.report({"spelling": r["sp"], "variant": r["variant"], "program": r["text"], "first_bad": r["first_bad"]}, fids, what="%s (%s): %s" % (r["sp"], r["variant"], r["first_bad"]["detail"][:200]))
        elif st == "agree":
            counts["agree"] += 1
    # acceptance of spellings against the committed baseline: a spelling that was bound must not turn into a rejection
    now = {k: sorted(v) for k, v in sorted(accepted.items())}
    if os.environ.get("VERIF_MAKE_BASELINE") == "1":
        json.dump(now, open(BASELINE, "w"), indent=0, sort_keys=True)
    if not os.path.exists(BASELINE):
        raise core.HarnessError("missing baseline %s (VERIF_MAKE_BASELINE=1)" % BASELINE)
    base = json.load(open(BASELINE))
    newly = 0
    for sp, vs in base.items():
        for v in vs:
            if v not in now.get(sp, []):
                newly += 1
                ctx.report({"spelling": sp, "variant": v, "why": "was accepted (baseline), is rejected now"}, None, what="operand spelling %s (%s) is no longer accepted" % (sp, v))
    for it, r in list(zip(items, res))[:2] + list(zip(items, res))[-1:]:
        ctx.sample({"spelling": r["sp"], "variant": r["variant"], "program": r["text"], "status": r["status"]})
    return ctx.finish(
        dict(
            evaluations=n_states + len(items),
            distinct_nontrivial=len(set(it[3].text for it in items)),
            spellings=len(set((k, s) for k, s, _v, _p in items)),
            programs=len(items),
            programs_agree=counts["agree"],
            programs_disagree=counts["disagree"],
            programs_rejected=counts["rejected"],
            spellings_accepted=sum(1 for v in now.values() if v),
            newly_rejected=newly,
            rule="every spelling of REG_TYPE [CNPRMQVO] x access letters (10 single, 7 pair) x {V, N}; explicit registers [RCPVQMGS] x numbers {0,1,3,11,31} and pairs x {plain, _NEW}; every HEX_REG_ALIAS_* of patches_macros.h x {plain, _NEW}; the 8 immediate letters; "
            "loads and stores for s/u x 8/16/32/64 with 3 address types; JUMP with every target type; each register spelling in the micro-programs read, read twice, write, read-write-read, write-read, write-write-read; "
            "two related spellings in one behaviour in both orders (plain / .new of letter, explicit and alias registers, similar names, lower / upper-case immediates); "
            "static oracle: resolver/letter/class/number/alias/.new flag of each HexOp declaration against an independent table; dynamic oracle: cref on the complete E5 domain with distinct values in the committed and pending banks",
            exhaustive=True,
        ),
        assumptions=["register contract rules W/P/X (DESIGN.md 3/E2); explicit pairs and their halves are distinct registers", "the architectural table of vf/drive.py (QEMU naming scheme) and EXPL_CLASS above", "sub-byte load/store widths 1/2/4 admitted by the grammar have no documented C meaning and are outside the alphabet"],
    )


def replay(ctx, path):
    case = json.load(open(path))
    comp = drive.get_compiler("stmt")
    _JOB.update(comp=comp, env=prog.Env(comp), budget=512)
    for kind, sp, variant, spec in all_items():
        if spec.text == case.get("program"):
            r = work((kind, sp, variant, spec))
            print(json.dumps({k: v for k, v in r.items() if k != "text"}, indent=1, default=str)[:2500])
            bad = r["status"] in ("disagree", "unreadable", "not-an-operand") or r.get("bindings") or {k: v for k, v in (r.get("static") or {}).items() if k != "linearity"}
            if r["status"] == "disagree" and r.get("explained_by_fresh_reads") and "KF-reg-read-after-own-write-stale" in ctx.known and not r.get("bindings"):
                print("KNOWN-FINDING: property=%s KF-reg-read-after-own-write-stale" % ctx.pid)
                return 0
            if bad:
                print("VIOLATION property=%s replay=%s" % (ctx.pid, path))
                return 1
            return 0
    print("program not in the alphabet any more:", case.get("program"))
    return 0
