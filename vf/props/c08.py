"""C08  Sub-routine calls follow the C calling convention and isolate the callee.

Space: the bundled routines and routines registered through the public add_sub_routine
(parameter / return types over the 8 integer types; bodies from templates: identity, arithmetic
with locals, if/else with a return in each arm, early return, loop, postfix temporaries, nested
call, by-reference register operand, bundle/enum pass-through, void with effect)  x  call sites
with 1..4 calls per expression  x  argument values  x  temporary-numbering histories (the caller
is compiled after k = 0..3 other temporaries were numbered on the same instance, and on a second
compiler instance), each history in a forked child.
Oracle: caller-visible final state == cref(strict) with true C call semantics, plus the ILVM frame
monitor: no caller read of a local last written by a callee (other than ret_val).
"""
import itertools
import json

from vf import ceval, core, cparse, deviations, drive, il, ilvm, native, prog, vcheck

LEVEL = "exploration"
P = prog.ProgSpec
T8 = ["int8_t", "uint8_t", "int16_t", "uint16_t", "int32_t", "uint32_t", "int64_t", "uint64_t"]
EXTRA = [("usr", 32, "input")]


def R(name, ret, params, body):
    return (name, ret, params, body)


def short(t):
    return t.replace("int", "i").replace("_t", "").replace("u", "u")


def cases(tier):
    """-> list of (routines, caller ProgSpec, tag)"""
    out = []
    types = T8 if tier == "thorough" else ["int8_t", "uint8_t", "int32_t", "uint32_t", "uint64_t"]
    # identity: argument conversion to the parameter type, return conversion to the declared type
    for pt in types:
        for rt in types:
            n = "id_%s_%s" % (short(pt), short(rt))
            rts = [R(n, rt, ["%s x" % pt], "{ return x; }")]
            for at in (["int32_t", "uint64_t", "int8_t"] if tier == "quick" else T8):
                out.append((rts, P([(at, "a", "input"), ("int64_t", "r", "local")], "r = %s(a);" % n, ["r"]), ("identity", pt, rt, at)))
    # argument forms: an explicit cast (or another expression) as the argument is evaluated first, then converted to the parameter type
    ARGS = ["(int8_t)a", "(uint8_t)a", "(int16_t)a", "(uint16_t)a", "(uint32_t)a", "(int64_t)a", "(uint64_t)(int8_t)a", "(uint8_t)(a >> 4)", "a + 1", "-a", "(a < 3)", "5", "-5", "(a ? 1 : 2)", "(int8_t)a + (uint8_t)a"]
    for pt in (T8 if tier == "thorough" else ["int8_t", "uint16_t", "int32_t", "uint32_t", "int64_t", "uint64_t"]):
        n = "af_%s" % short(pt)
        rts = [R(n, "int64_t", ["%s x" % pt], "{ return x; }")]
        for ae in ARGS:
            out.append((rts, P([("int32_t", "a", "input"), ("int64_t", "r", "local")], "r = %s(%s);" % (n, ae), ["r"]), ("arg-form", pt, ae)))
    rts = [R("af2", "int64_t", ["int8_t x", "uint64_t y"], "{ return x + y; }")]
    for ae in ARGS[:8]:
        out.append((rts, P([("int32_t", "a", "input"), ("int64_t", "r", "local")], "r = af2(%s, %s);" % (ae, ae), ["r"]), ("arg-form2", ae)))
    # every spelling of an integer type a signature can use: as parameter (widened in the body) and as return type
    SPELLINGS = ["int", "unsigned", "size1s_t", "size1u_t", "size2s_t", "size2u_t", "size4s_t", "size4u_t", "size8s_t", "size8u_t"] + (T8 if tier == "thorough" else ["int16_t", "uint16_t"])
    for sp in SPELLINGS:
        tag = sp.replace(" ", "_")
        rts = [R("pw_%s" % tag, "int64_t", ["%s x" % sp], "{ return x; }"), R("rw_%s" % tag, sp, ["int64_t x"], "{ return x; }")]
        d64 = [("int64_t", "a", "input"), ("int64_t", "r", "local")]
        out.append((rts, P(d64, "r = pw_%s(a);" % tag, ["r"]), ("spelling-param", sp)))
        out.append((rts, P(d64, "r = rw_%s(a);" % tag, ["r"]), ("spelling-return", sp)))
        out.append((rts, P(d64, "r = pw_%s(rw_%s(a)) + 1;" % (tag, tag), ["r"]), ("spelling-both", sp)))
    rts = [R("ar2", "int32_t", ["int32_t x", "int32_t y"], "{ int32_t ar2_t = x * 2; ar2_t = ar2_t + y; return ar2_t; }")]
    d = [("int32_t", "a", "input"), ("int8_t", "b", "input"), ("int64_t", "r", "local")]
    for st in ["r = ar2(a, b);", "r = ar2(b, a);", "r = ar2(a, b) + ar2(b, a);", "r = ar2(ar2(a, b), b);", "r = ar2(a, ar2(b, 3)) + ar2(1, 2) + ar2(a, a);", "RdV = ar2(RsV, siV);", "for (i = 0; i < 3; i++) { r = r + ar2(i, a); }", "r = a; r = ar2(r, b); r = ar2(r, b);"]:
        pre = "r = 0; " if st.startswith("for") else ""
        dd = d + ([("int32_t", "i", "local")] if "for" in st else [])
        out.append((rts, P(dd, pre + st, ["r"]), ("arith", st)))
    rts = [R("absx", "int32_t", ["int32_t x"], "{ if (x > 0) { return x; } else { return -x; } }")]
    for st in ["r = absx(a);", "r = absx(a) + absx(b);", "r = absx(absx(a) - 5);"]:
        out.append((rts, P(d, st, ["r"]), ("if-else-return", st)))
    # calls next to a folded-away call (the temporaries of the remaining calls must stay distinct), in a caller and in a body
    for st in ["r = (0 ? absx(a) : absx(b)) + absx(a - b);", "r = (1 ? absx(a) : absx(b)) + absx(a - b) + absx(b);", "r = absx(a) + (0 ? absx(a) : clz32(b)) + absx(b);", "r = (0 ? clz32(a) : clo32(a)) + clz32(b);"]:
        out.append((rts, P(d, st, ["r"]), ("folded-call", st)))
    rts2 = [R("pick", "uint32_t", ["uint32_t x", "uint32_t y"], "{ return (0 ? clz32(x) : clo32(x)) + clz32(y); }")]
    for st in ["r = pick(a, b);", "r = pick(a, b) + pick(b, a);"]:
        out.append((rts2, P(d, st, ["r"]), ("folded-call-body", st)))
    # value-producing operations inside returned expressions, in arms and after loops
    rts_r = [R("pickr", "int32_t", ["int32_t x"], "{ int32_t pickr_n = x; if (x > 0) { return pickr_n++; } else { return pickr_n--; } }"),
             R("route", "uint32_t", ["uint32_t x"], "{ if (x == 0) { return 7; } else { return clz32(x); } }"),
             R("lsum", "uint32_t", ["uint32_t x"], "{ uint32_t lsum_s = 0; int32_t lsum_i; for (lsum_i = 0; lsum_i < 3; lsum_i++) { lsum_s += x; } return lsum_s + clo32(x); }"),
             R("rexp", "int32_t", ["int32_t x"], "{ if (x & 1) { return ({ int32_t rexp_t = x + 1; rexp_t; }); } else { return clz32(x) + clo32(x); } }")]
    rts_r += [R("inc1", "uint32_t", ["uint32_t x"], "{ return x + 1; }"), R("dbl", "uint32_t", ["uint32_t x"], "{ return x + x; }"),
              R("pick2", "uint32_t", ["uint32_t x"], "{ uint32_t pick2_t = inc1(x); if (pick2_t > 5) { return pick2_t; } else { return dbl(x); } }"),
              R("lead2", "uint32_t", ["uint32_t x"], "{ uint32_t lead2_t = clz32(x); return clo32(x) + lead2_t; }"),
              R("chain2", "uint32_t", ["uint32_t x"], "{ uint32_t chain2_t = dbl(x); return inc1(chain2_t); }")]
    for st in ["r = pick2(a);", "r = pick2(a) + pick2(b);", "r = lead2(a);", "r = chain2(a);", "r = chain2(pick2(a));"]:
        out.append((rts_r, P(d, st, ["r"]), ("return-call", st)))
    # a call in a condition reads what the statements in front of it computed (at a call site and inside a routine body)
    rts_c = rts_r + [R("condcall", "uint32_t", ["uint32_t x"], "{ uint32_t condcall_q = x + 7; if (inc1(condcall_q) > 9) { return 1; } else { return 2; } }"),
                     R("condcall1", "uint32_t", ["uint32_t x"], "{ uint32_t condcall1_q = x + 7; if (inc1(condcall1_q) > 9) { return 1; } return dbl(condcall1_q); }"),
                     R("loopcall", "uint32_t", ["uint32_t x"], "{ uint32_t loopcall_s = x; int32_t loopcall_i; for (loopcall_i = 0; loopcall_i < 2; loopcall_i++) { loopcall_s = inc1(loopcall_s); } return loopcall_s; }")]
    for st in ["r = a + 7; if (inc1(r) > 9) { r = 1; } else { r = 2; }", "r = a + 7; if (inc1(r) > 9) { r = 1; }", "r = a; r = dbl(r); if (inc1(r) > 9) { r = inc1(r); } else { r = dbl(r); }",
               "r = a + 7; r = (inc1(r) > 9) ? dbl(r) : 3;", "r = condcall(a);", "r = condcall1(a);", "r = loopcall(a);", "r = condcall(a) + condcall1(b);", "r = b; for (i = 0; i < 2; i++) { r = inc1(r); }",
               "r = a; if (b) { r = r + 7; if (inc1(r) > 9) { r = 1; } else { r = 2; } }"]:
        out.append((rts_c, P(d + [("int32_t", "i", "local")], st, ["r"]), ("cond-call", st)))
    for st in ["r = pickr(a);", "r = route(a);", "r = route(a) + route(b);", "r = lsum(a);", "r = rexp(a);", "r = pickr(a) + rexp(b);", "if (b) { r = route(a); } else { r = pickr(a); }"]:
        out.append((rts_r, P(d, st, ["r"]), ("return-hybrid", st)))
    rts = [R("early", "int32_t", ["int32_t x"], "{ if (x == 0) { return 77; } return x + 1; }")]
    for st in ["r = early(a);", "r = early(a) + early(b);"]:
        out.append((rts, P(d, st, ["r"]), ("early-return", st)))
    rts = [R("mulr", "int32_t", ["int32_t x", "uint8_t n"], "{ int32_t mulr_s = 0; int32_t mulr_i; for (mulr_i = 0; mulr_i < n; mulr_i++) { mulr_s += x; } return mulr_s; }")]
    dn = [("int32_t", "a", "input"), ("uint8_t", "n", "count"), ("int64_t", "r", "local")]
    for st in ["r = mulr(a, n);", "r = mulr(a, n) + mulr(n, 2);", "r = mulr(mulr(a, 2), n);"]:
        out.append((rts, P(dn, st, ["r"]), ("loop", st)))
    rts = [R("pinc", "int32_t", ["int32_t x"], "{ int32_t pinc_t = x; pinc_t++; return pinc_t + x; }")]
    for st in ["r = pinc(a);", "r = pinc(a) + pinc(b);", "r = pinc(a) + clz32(b) + pinc(b);", "r = clz32(a) + pinc(b);", "r = pinc(pinc(a));", "i = a; r = i++ + pinc(b);", "r = c8v++ + pinc(a) + c8v++;"]:
        dd = d + [("int32_t", "i", "local")]
        if "c8v" in st:
            dd = d + [("int32_t", "c8v", "input")]
        out.append((rts, P(dd, st, ["r"] + (["c8v"] if "c8v" in st else [])), ("postfix-temp", st)))
    rts = [R("inner", "uint32_t", ["uint32_t x"], "{ return clz32(x) + 1; }"), R("outer", "int64_t", ["int32_t x", "int32_t y"], "{ return inner(x) * 100 + inner(y) + clo32(x); }")]
    for st in ["r = outer(a, b);", "r = outer(a, b) + inner(a);", "r = outer(inner(a), b);", "r = inner(a) + outer(b, a) + inner(b);"]:
        out.append((rts, P(d, st, ["r"]), ("nested", st)))
    rts = [R("bump", "int32_t", ["HexInsnPktBundle *bundle", "const HexOp *RxV", "int32_t x"], "{ RxV = RxV + x; return RxV; }")]
    for st in ["r = bump(bundle, RxV, a);", "r = bump(bundle, RxV, a); RdV = RxV;", "r = bump(bundle, RxV, a) + bump(bundle, RxV, b);", "RxV = 5; r = bump(bundle, RxV, a);"]:
        out.append((rts, P(d, st, ["r"]), ("by-ref", st)))
    rts = [R("fld", "uint32_t", ["HexInsnPktBundle *bundle", "HexRegField field", "uint32_t v"], "{ set_usr_field(bundle, field, v); return get_usr_field(bundle, HEX_REG_FIELD_USR_LPCFG) + v; }")]
    for st in ["r = fld(bundle, HEX_REG_FIELD_USR_OVF, a);", "r = fld(bundle, HEX_REG_FIELD_USR_FPRND, a);"]:
        out.append((rts, P(d, st, ["r"]), ("enum-pass", st)))
    rts = [R("vset", "void", ["HexInsnPktBundle *bundle", "int32_t v"], "{ set_usr_field(bundle, HEX_REG_FIELD_USR_FPRND, v); }")]
    rts_v = rts + [R("absv", "int32_t", ["int32_t x"], "{ if (x > 0) { return x; } else { return -x; } }")]
    # (the field is observed through the final USR value: reading it back inside the same behaviour returns the committed
    # register in QEMU as well, so a read-back would test the helper model, not the call)
    for st in ["vset(bundle, absv(a)); r = a;", "i = a; vset(bundle, i++); r = i;", "vset(bundle, clz32(a) + clo32(b)); r = b;",
               "set_usr_field(bundle, HEX_REG_FIELD_USR_LPCFG, get_usr_field(bundle, HEX_REG_FIELD_USR_LPCFG) - 1); r = a;", "if (a) { vset(bundle, absv(b)); } r = b;",
               "set_usr_field(bundle, HEX_REG_FIELD_USR_OVF, clz32(a) & 1); r = a;", "trap(0, clz32(a)); r = a;", "vset(bundle, absv(absv(a) - 3)); r = a;"]:
        out.append((rts_v, P(d + [("int32_t", "i", "local")], st, ["r"]), ("void-hybrid-arg", st)))
    for st in ["vset(bundle, a); r = a;", "r = a; vset(bundle, a); vset(bundle, b);", "if (a) { vset(bundle, b); } r = b;"]:
        out.append((rts, P(d, st, ["r"]), ("void", st)))
    # caller locals named like callee locals / parameters must survive the call
    rts = [R("clob", "int32_t", ["int32_t x"], "{ int32_t t = x + 1; int32_t y = t * 2; return y; }")]
    dd = [("int32_t", "a", "input"), ("int32_t", "t", "local"), ("int32_t", "y", "local"), ("int32_t", "x", "local"), ("int64_t", "r", "local")]
    for st in ["t = 1; y = 2; x = 3; r = clob(a); r = r + t * 1000 + y * 100 + x * 10;"]:
        out.append((rts, P(dd, st, ["r", "t", "y", "x"]), ("name-clash", st)))
    # routine names are identifiers: upper-case letters, digits and underscores, and names that differ only in case
    rts = [R("fSatAdd8", "uint32_t", ["uint32_t x"], "{ return x + 8; }"), R("fsatadd8", "uint32_t", ["uint32_t x"], "{ return x + 100; }"),
           R("Twice_X9", "uint32_t", ["uint32_t x"], "{ return fSatAdd8(x) + fsatadd8(x) + clz32(x); }"), R("_q", "int32_t", ["int32_t x"], "{ return -x; }")]
    for st in ["r = fSatAdd8(a);", "r = fsatadd8(a);", "r = fSatAdd8(a) * 1000 + fsatadd8(a);", "r = Twice_X9(a);", "r = Twice_X9(fSatAdd8(a)) + _q(b);", "r = _q(_q(a) + 1);"]:
        out.append((rts, P(d, st, ["r"]), ("names", st)))
    # routine names that differ only by trailing digits, the shorter-named one with more than ten temporaries alive
    # when it calls the other (the temporaries of a routine are named after it and numbered: the two must not run together)
    dsum = " + ".join("dg(x + %d)" % k for k in range(11))
    rts = [R("dg", "uint32_t", ["uint32_t x"], "{ return x + 1; }"),
           R("df1", "uint32_t", ["uint32_t x"], "{ uint32_t df1_r = dg(x) + dg(x + 7); return df1_r + 2; }"),
           R("df", "uint32_t", ["uint32_t x"], "{ uint32_t df_r = " + dsum + " + df1(x + 100); return df_r; }")]
    for st in ["r = df(a);", "r = df(a) + df1(b);", "r = df1(a) + df(b);"]:
        out.append((rts, P(d, st, ["r"]), ("digit-names", st)))
    # bundled routines at call sites with several calls
    for st in ["r = clz32(a) + clz32(b);", "r = clo32(a) > clo32(~a) ? clo32(a) : clo32(~a);", "r = fbrev(a) + revbit32(b) + clz64(a);", "r = conv_round(a, 3) + conv_round(b, 1);", "r = clz32(clo32(a));", "r = clz32(a) + clz32(b) + clz32(a + b) + clz32(a - b);"]:
        out.append(([], P(d, st, ["r"]), ("bundled", st)))
    return out


WARMUP = "{ RdV = clz32(RsV); }"


def build(args):
    """In the forked child: register the routines, number k temporaries, compile the caller."""
    comps, rts, caller, k, inst = args
    a = comps["A"]
    for (n, ret, params, body) in rts:
        a.add_sub_routine(n, ret, params, body)
    c = comps[inst]
    for _ in range(k):
        c.compile_c_stmt(WARMUP)
    text = c.compile_c_stmt(caller)
    from rzilcompiler.Transformer.Hybrids.SubRoutine import SubRoutineInitType

    subs = {n: a.sub_routines[n].il_init(SubRoutineInitType.DEF) for (n, _r, _p, _b) in rts}
    return text, subs


_JOB = {}


def work(item):
    rts, spec, tag, k, inst = item
    comps = _JOB["comps"]
    base_env = _JOB["env"]
    res = {"text": spec.text, "tag": tag, "k": k, "inst": inst, "routines": [list(r) for r in rts]}
    r = core.fresh_call(build, (comps, rts, spec.text, k, inst))
    if r[0] != "ok":
        res.update(status="rejected", exc=r[1], msg=r[2][:200])
        return res
    text, subs = r[1]
    env = prog.Env.__new__(prog.Env)
    env.il_subs = dict(base_env.il_subs)
    env.c_routines = dict(base_env.c_routines)
    env.sub_sorts = dict(base_env.sub_sorts)
    env.sub_src = dict(base_env.sub_src)
    for (n, ret, params, body) in rts:
        env.add_routine(n, ret, params, body)
        env.il_subs[n] = il.parse_body(subs[n], is_sub=True)
        if n not in env.c_routines:
            res.update(status="harness", detail="reference cannot parse routine %s" % n)
            return res
    cp = prog.Compiled(spec, text, env)
    st = cp.static_errors()
    sub_static = {}
    for (n, ret, params, body) in rts:
        b = env.il_subs[n]
        errs = il.check_wellformed(b, allow_free=()) + il.check_linearity(b)
        if errs:
            sub_static[n] = errs[:3]
    res["static"] = {k_: v[:2] for k_, v in st.items() if v}
    if sub_static:
        res["static"]["sub"] = sub_static
    slots, states = prog.states_for(spec, cp.ops, _JOB["budget"], EXTRA)
    n_cmp = n_ub = 0
    bad = []
    il_results = []
    leaks = set()
    for vec in states:
        try:
            cobs = cp.run_c(slots, vec)
        except ceval.CUndefined:
            n_ub += 1
            il_results.append(None)
            continue
        except ceval.CUnsupported as e:
            res.setdefault("unsupported", str(e)[:100])
            il_results.append(None)
            continue
        try:
            m = cp.run_il(slots, vec, monitor_frames=True)
            ires = ("ok", m.observation(spec.observe), dict(m.cur), {})
            leaks.update(m.leaks)
        except ilvm.HelperUB:
            n_ub += 1
            il_results.append(None)
            continue
        except ilvm.ILError as e:
            ires = ("err", e.kind, e.msg)
        il_results.append(ires)
        n_cmp += 1
        if ires[0] == "err":
            bad.append((vec, "il-error", "%s: %s" % (ires[1], ires[2])))
        else:
            dd = prog.diff_obs(cobs, ires[1], ires[2])
            if dd:
                bad.append((vec, "mismatch", "; ".join(dd[:3])))
    res.update(n_states=len(states), n_compared=n_cmp, n_ub=n_ub, leaks=sorted(leaks))
    if not bad:
        res["status"] = "agree"
        return res
    res["status"] = "disagree"
    res["n_bad"] = len(bad)
    res["first_bad"] = {"state": dict(zip([s[0] for s in slots], bad[0][0])), "kind": bad[0][1], "detail": bad[0][2][:300]}
    cands = deviations.triggered(cp.cast, cp.ops, cp)
    # the routine bodies take part in the deviation triggers
    for (n, ret, params, body) in rts:
        try:
            cands += [x for x in deviations.triggered(cparse.parse_behaviour(body), cp.ops, cp) if x not in cands]
        except cparse.CSyntaxError:
            pass
    if all(b[1] == "mismatch" or b[2].startswith("horizon") for b in bad):
        expl = vcheck.explain_values(cp, slots, states, il_results, cands)
        if expl is not None:
            res["explained_by"] = sorted(expl)
        else:
            # would the IL agree with C if the locals a callee declares were private to its activation?
            ok = True
            for vec in states:
                try:
                    cobs = cp.run_c(slots, vec)
                except (ceval.CUndefined, ceval.CUnsupported):
                    continue
                try:
                    m = prog.build_il_machine(spec, cp.ops, slots, vec)
                    m.isolate_callee_locals = True
                    cp.prog.run(m)
                    if prog.diff_obs(cobs, m.observation(spec.observe), dict(m.cur)):
                        ok = False
                        break
                except ilvm.ILError:
                    ok = False
                    break
            if ok:
                res["explained_by"] = ["callee-locals-share-namespace"]
    return res


def all_items(tier):
    cs = cases(tier)
    ks = [0, 1, 2] if tier == "quick" else [0, 1, 2, 3, 4]
    items = []
    for rts, spec, tag in cs:
        for k in ks:
            items.append((rts, spec, tag, k, "A"))
        items.append((rts, spec, tag, 0, "B"))
        if tier == "thorough":
            items.append((rts, spec, tag, 2, "B"))
    return cs, items


def warm_specs(tier):
    cs, _items = all_items(tier)
    specs = [spec for _r, spec, _t in cs]
    bodies = [P([], "", [])]
    texts = sorted(set(b for rts, _s, _t in cs for (_n, _r, _p, b) in rts)) + [WARMUP]

    class T:
        def __init__(self, t):
            self.text = t

    return [("c08", specs + [T(t) for t in texts])]


def run(ctx):
    comps = {"A": drive.get_compiler("stmt"), "B": drive.get_compiler("stmt", fresh=True)}
    env = prog.Env(comps["A"])
    cs, items = all_items(ctx.tier)
    pc = drive.ParseCache("c08")
    texts = [spec.text for _r, spec, _t in cs] + [b for rts, _s, _t in cs for (_n, _r, _p, b) in rts] + [WARMUP]
    pc.ensure(texts, seed=ctx.seed)
    pc.save()
    for c in comps.values():
        drive.install_cache(c, pc)
    _JOB.update(comps=comps, env=env, budget=96 if ctx.tier == "quick" else 512)
    res = core.pmap(work, items, seed=ctx.seed)
    cov = {"cases": len(items), "agree": 0, "disagree_explained": 0, "rejected": 0, "states_compared": 0, "ub_skipped": 0}
    # the same (routines, caller) must give the same outcome for every k and instance
    by_prog = {}
    for it, r in zip(items, res):
        if r["status"] == "harness":
            raise core.HarnessError(r["detail"])
        cov["states_compared"] += r.get("n_compared", 0)
        cov["ub_skipped"] += r.get("n_ub", 0)
        by_prog.setdefault(r["text"], []).append((r["k"], r["inst"], r["status"], r.get("explained_by")))
        case = {"routines": r["routines"], "caller": r["text"], "k_temporaries_before": r["k"], "instance": r["inst"], "first_bad": r.get("first_bad"), "tag": list(r["tag"])}
        if r["status"] == "rejected":
            cov["rejected"] += 1
            ctx.report(dict(case, rejected_with=r["exc"], msg=r["msg"]), deviations.rejection_finding(r), what="call of a registered routine rejected (k=%d, %s): %s: %s" % (r["k"], r["inst"], r["text"][-100:], r["exc"]))
            continue
        if r.get("leaks"):
            ctx.report(dict(case, leaks=r["leaks"]), ["KF-callee-locals-share-namespace"] if r.get("explained_by") == ["callee-locals-share-namespace"] else None, what="caller reads local(s) %s last written by a callee (k=%d): %s" % (r["leaks"], r["k"], r["text"][-100:]))
        if r.get("static"):
            ctx.report(dict(case, static=r["static"]), static_finding(r), what="emitted text fails the static checks (k=%d): %s: %s" % (r["k"], r["text"][-100:], str(r["static"])[:200]))
        if r["status"] == "agree":
            cov["agree"] += 1
            continue
        fids = None
        if r.get("explained_by"):
            fids = sorted(set(deviations.FINDING_OF.get(x, x) for x in r["explained_by"]))
        if not ctx.report(dict(case, explained_by=r.get("explained_by")), fids, what="k=%d %s: %s  [%s]" % (r["k"], r["inst"], r["text"][-110:], r["first_bad"]["detail"][:160])):
            cov["disagree_explained"] += 1
    n_hist_dep = 0
    for text, outs in by_prog.items():
        sts = set((s, tuple(e or ())) for (_k, _i, s, e) in outs)
        if len(sts) > 1:
            n_hist_dep += 1
            ctx.report({"caller": text, "outcomes_by_history": [list(map(str, o)) for o in outs]}, None, what="outcome depends on the temporary-numbering history: %s -> %s" % (text[-100:], sorted(sts)))
    for it, r in list(zip(items, res))[:2] + list(zip(items, res))[-1:]:
        ctx.sample({"routines": r["routines"], "caller": r["text"], "k": r["k"], "instance": r["inst"], "status": r["status"]})
    specs = [spec for _r, spec, _t in cs]
    return ctx.finish(
        dict(
            cov,
            evaluations=cov["states_compared"] + cov["ub_skipped"],
            distinct_nontrivial=len(cs),
            programs=len(cs),
            history_dependent_programs=n_hist_dep,
            rule="%d (routine set, call site) programs: identity routines for every (parameter, return) type pair called with 3 (thorough 8) argument types; arithmetic, if/else-return, early-return, loop, postfix-temporary, nested, by-reference, "
            "every integer type spelling of a signature (int, unsigned, sizeN[su]_t, [u]intN_t) as parameter and as return type; 15 argument forms (explicit casts, casts of casts, arithmetic, comparison, literals, ?:) x parameter types; calls next to a folded-away call in a caller and in a body; "
            "enum/bundle pass-through, void and name-clash routines at call sites with 1..4 calls per expression; bundled routines at multi-call sites; each compiled after k = 0..2 (thorough 0..4) temporaries were numbered on the same instance "
            "and on a second instance, each history in a forked child; run on the complete E5 domain of the arguments and USR (budget per program in `state_budget`); oracle: cref with true C call semantics + frame monitor" % len(cs),
            exhaustive=True,
            state_budget=_JOB["budget"],
        ),
        assumptions=["ILVM: hex_<routine>(args) is call-by-name in the caller's flat local namespace; by-reference operands resolve through the instruction's operand letters", "for k above the number of temporaries a callee uses no name can collide, so larger k are equivalent"],
    )


def static_finding(r):
    return None


def replay(ctx, path):
    case = json.load(open(path))
    comps = {"A": drive.get_compiler("stmt"), "B": drive.get_compiler("stmt", fresh=True)}
    _JOB.update(comps=comps, env=prog.Env(comps["A"]), budget=512)
    cs, items = all_items("thorough")
    for it in items:
        if it[1].text == case.get("caller") and it[3] == case.get("k_temporaries_before") and it[4] == case.get("instance"):
            r = work(it)
            r2 = work(it)
            if (r["status"], r.get("first_bad")) != (r2["status"], r2.get("first_bad")):
                raise core.HarnessError("replaying the same case twice gave different observations")
            print(json.dumps({k: v for k, v in r.items() if k != "routines"}, indent=1, default=str)[:2500])
            fids = sorted(set(deviations.FINDING_OF.get(x, x) for x in (r.get("explained_by") or [])))
            if r["status"] == "agree" and not r.get("leaks") and not r.get("static"):
                return 0
            if r["status"] == "disagree" and fids and all(f in ctx.known for f in fids) and not r.get("static"):
                print("KNOWN-FINDING: property=%s %s" % (ctx.pid, " ".join(fids)))
                return 0
            print("VIOLATION property=%s replay=%s" % (ctx.pid, path))
            return 1
    print("case not in the space any more")
    return 0
