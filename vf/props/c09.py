"""C09  Compile-time evaluation agrees with run-time evaluation.

Space: literal spellings (decimal/hex x suffixes x boundary values) alone, under the unary
operators, in all foldable binary operators and comparisons (literal x literal), next to
variables (not foldable: the metamorphic partner), as constant ?: conditions, sizeof of every
operand kind, and constant ?: whose dead arm mentions operands that live code uses.
Oracle: the observed 64-bit result == cref(strict) with C11 6.4.4.1 literal typing; literal
division by zero and literals above 2^64-1 must be rejected.
"""
from vf import core, cparse, deviations, drive, native, prog, staticprops, vcheck

LEVEL = "exploration"
P = prog.ProgSpec

KS = (7, 8, 15, 16, 31, 32, 63)
VALUES = sorted(set([0, 1] + [x for k in KS for x in ((1 << k) - 1, 1 << k, (1 << k) + 1)] + [(1 << 64) - 1]))
SUFFIXES = ["", "U", "u", "LL", "ll", "ULL", "ull"]
T8 = ["int8_t", "uint8_t", "int16_t", "uint16_t", "int32_t", "uint32_t", "int64_t", "uint64_t"]


def valid_literal(text):
    try:
        e = cparse.parse_expression(text)
    except cparse.CSyntaxError:
        return False
    return e[0] == "num"


def literals(tier):
    out = []
    for v in VALUES:
        for base in ("dec", "hex"):
            for suf in SUFFIXES:
                t = (("%d" % v) if base == "dec" else ("0x%x" % v)) + suf
                if valid_literal(t):
                    out.append(t)
        # the other spellings of a hexadecimal constant the grammar admits (prefix and digits in upper case)
        for fmt in ("0X%x", "0x%X", "0X%X"):
            for suf in ("", "U", "ll"):
                t = (fmt % v) + suf
                if valid_literal(t) and t not in out:
                    out.append(t)
    return out


def small_literal_set(tier):
    if tier == "thorough":
        vals = [0, 1, 127, 255, 256, 65535, 2147483647, 2147483648, 4294967295, 4294967296, (1 << 63) - 1, 1 << 63, (1 << 64) - 1]
        forms = [("%d", ""), ("%d", "U"), ("%d", "LL"), ("%d", "ULL"), ("0x%x", ""), ("0x%x", "U"), ("0x%x", "LL")]
    else:
        vals = [0, 1, 255, 2147483647, 2147483648, 4294967295, 4294967296, (1 << 63) - 1, (1 << 64) - 1]
        forms = [("%d", ""), ("%d", "U"), ("0x%x", ""), ("%d", "LL")]
    out = []
    for v in vals:
        for f, s in forms:
            t = (f % v) + s
            if valid_literal(t) and t not in out:
                out.append(t)
    if tier == "quick":
        out = [t for i, t in enumerate(out) if i % 2 == 0 or t in ("2147483648", "4294967296", "0xffffffff", "4294967295U")]
    return out


R64 = [("int64_t", "r", "local")]
RU64 = [("uint64_t", "r", "local")]
BINOPS = ["+", "-", "*", "/", "<", ">", "<=", ">=", "==", "!="]


def space(tier):
    out = []
    L = literals(tier)
    for l in L:
        out.append(P(R64, "r = %s;" % l, ["r"], tag=("lit", l)))
        out.append(P(RU64, "r = %s;" % l, ["r"], tag=("lit-u", l)))
        for u in ("-", "~", "+"):
            out.append(P(R64, "r = %s%s;" % (u, l), ["r"], tag=("un", u, l)))
        out.append(P(R64, "r = -(-%s);" % l, ["r"], tag=("un2", l)))
        # next to a variable: not folded (the run-time partner of the folded forms)
        d = [("int32_t", "a", "input")] + R64
        out.append(P(d, "r = a + %s;" % l, ["r"], tag=("var+", l)))
        out.append(P(d, "r = a < %s;" % l, ["r"], tag=("var<", l)))
        out.append(P(d, "r = %s > a;" % l, ["r"], tag=("lit>var", l)))
        out.append(P(d, "r = (%s >> (a & 7)) + (a & %s);" % (l, l), ["r"], tag=("var-mix", l)))
        out.append(P(d, "r = %s ? a : 7;" % l, ["r"], tag=("ccond", l)))
        out.append(P(d, "if (%s) { r = a; } else { r = 3; }" % l, ["r"], tag=("if-lit", l)))
        out.append(P([("uint64_t", "b", "input")] + R64, "r = b == %s;" % l, ["r"], tag=("var==", l)))
    S = small_literal_set(tier)
    for x in S:
        for y in S:
            for op in BINOPS:
                out.append(P(R64, "r = %s %s %s;" % (x, op, y), ["r"], tag=("fold", x, op, y)))
            out.append(P([("int32_t", "a", "input")] + R64, "r = (%s < %s) ? a : (a + 1);" % (x, y), ["r"], tag=("fold-cond", x, y)))
    # folds of folds: a folded unary / binary result as an operand of another fold
    S2 = [t for t in S if t in ("0", "1", "0U", "1U", "4294967295U", "0xffffffff", "2147483647", "4294967295", "0LL", "18446744073709551615U", "0xffffffffffffffff")] or S[:6]
    if tier == "thorough":
        S2 = S[::4]
    S2 = S2 + [t for t in ("2", "2U", "6", "4LL") if t not in S2]  # values with exact quotients other than by 1
    for x in S2:
        for y in S2:
            for u in ("~", "-"):
                for op in ("<", ">", "==", "!=", "+", "*", "-", "/", "%", "<=", ">="):
                    out.append(P(R64, "r = %s%s %s %s;" % (u, x, op, y), ["r"], tag=("fold2-un", u, x, op, y)))
                    out.append(P(R64, "r = %s %s %s%s;" % (y, op, u, x), ["r"], tag=("fold2-un-r", u, x, op, y)))
            for z in S2[::2]:
                for o1 in ("+", "-", "*"):
                    for o2 in ("<", "==", ">=", "+"):
                        out.append(P(R64, "r = (%s %s %s) %s %s;" % (x, o1, y, o2, z), ["r"], tag=("fold2-bin", x, o1, y, o2, z)))
            out.append(P([("int32_t", "a", "input")] + R64, "r = (~%s > %s) ? a : (a + 1);" % (x, y), ["r"], tag=("fold2-cond", x, y)))
            out.append(P([("int32_t", "a", "input")] + R64, "r = ((%s + %s) == 0U) ? a : (a + 1);" % (x, y), ["r"], tag=("fold2-cond2", x, y)))
    # truth values the compiler computed (folded comparisons, !, && and || of literals) as operands of further folds:
    # a truth value is an int (C11 6.5.8p6, 6.5.3.3p5), so (1 < 2) + (2 < 3) is 2 and -(1 < 2) is -1
    BOOLS = ["(1 < 2)", "(2 < 1)", "(1 == 1)", "(0U >= 1)", "!0", "!5", "(1 && 2)", "(0 || 0)", "(4294967295U > -1)"]
    for x in BOOLS:
        for u in ("-", "~", "!", "+"):
            out.append(P(R64, "r = %s%s;" % (u, x), ["r"], tag=("fold-bool-un", u, x)))
        for y in BOOLS + ["1", "2U", "-1", "3LL"]:
            for op in ("+", "-", "*", "<", ">", "==", "!=", "<=", ">=", "&&", "||"):  # (run-time / is C02's subject: ! is not folded)
                out.append(P(R64, "r = %s %s %s;" % (x, op, y), ["r"], tag=("fold-bool", x, op, y)))
                if y not in BOOLS:
                    out.append(P(R64, "r = %s %s %s;" % (y, op, x), ["r"], tag=("fold-bool-r", x, op, y)))
        out.append(P([("int32_t", "a", "input")] + R64, "r = (%s + %s) ? a : (a + 1);" % (x, BOOLS[0]), ["r"], tag=("fold-bool-cond", x)))
        out.append(P([("int32_t", "a", "input")] + R64, "r = a + %s + %s;" % (x, x), ["r"], tag=("fold-bool-var", x)))
        out.append(P([("int32_t", "a", "input")] + R64, "r = a + (%s + %s);" % (x, x), ["r"], tag=("fold-bool-var2", x)))
    # constant conditions that are not 0 or 1: any non-zero value selects the first arm (negative values come out of folds)
    for k in ["-1", "~0", "(0 - 1)", "(1 - 2)", "-1LL", "~0U", "(-5 + 2)", "(0 - 1LL)", "2", "-2", "(3 - 3)", "~0xffffffffU", "(2 * -1)", "-0", "4294967296", "(0U - 1)"]:
        da = [("int32_t", "a", "input"), ("int32_t", "b", "input")] + R64
        out.append(P(da, "r = %s ? a : b;" % k, ["r"], tag=("cond-value", k, "cond")))
        out.append(P(da, "if (%s) { r = a; } else { r = b; }" % k, ["r"], tag=("cond-value", k, "if")))
        out.append(P(da, "r = (%s ? a : b) + (%s ? 1 : 2);" % (k, k), ["r"], tag=("cond-value", k, "sum")))
        out.append(P(da, "r = !%s; r = r * 2 + (%s && a);" % (k, k), ["r"], tag=("cond-value", k, "logic")))
    # metamorphic partners of the folded pairs: same expression over typed variables
    for x in S[:: (1 if tier == "thorough" else 3)]:
        for y in S[:: (1 if tier == "thorough" else 3)]:
            ex, ey = cparse.parse_expression(x), cparse.parse_expression(y)
            tx, ty = prog.TNAME[ex[2]], prog.TNAME[ey[2]]
            for op in BINOPS:
                out.append(P(R64, "%s p = %s; %s q = %s; r = p %s q;" % (tx, x, ty, y, op), ["r"], tag=("unfolded", x, op, y)))
    # sizeof
    for t in T8:
        d = [(t, "v", "input")] + R64
        out.append(P(d, "r = sizeof(v);", ["r"], tag=("sizeof", t)))
        out.append(P(d, "r = sizeof(v) * 8 - 1;", ["r"], tag=("sizeof-arith", t)))
        out.append(P(d, "r = -1 < sizeof(v);", ["r"], tag=("sizeof-cmp", t)))
        out.append(P(d, "r = v >> (sizeof(v) * 8 - 1);", ["r"], tag=("sizeof-shift", t)))
    for opd in ("RsV", "RssV", "PuV", "siV", "5", "5LL", "HEX_REG_ALIAS_LR"):
        out.append(P(R64, "r = sizeof(%s);" % opd, ["r"], tag=("sizeof-op", opd)))
    # dead operands of constant conditions
    out += [s for s in staticprops.gen_folding() if s.tag[0].startswith("cfold")]
    for s in out:
        if not s.observe and "r" in [d[1] for d in s.decls]:
            s.observe = ["r"]
    seen = set()
    res = []
    for s in out:
        if s.text not in seen:
            seen.add(s.text)
            res.append(s)
    return res


MUST_REJECT = [
    "r = 1 / 0;", "r = 0 / 0;", "r = 5LL / 0;", "r = 7U / 0x0;",
    "r = 18446744073709551616;", "r = 0x10000000000000000;", "r = 18446744073709551617ULL;", "r = 340282366920938463463374607431768211456;",
]


def warm_specs(tier):
    return [("c09-" + tier, space(tier) + [P(R64, m, ["r"]) for m in MUST_REJECT])]


def run(ctx):
    specs = space(ctx.tier)
    must = [P(R64, m, ["r"], tag=("must-reject", m)) for m in MUST_REJECT]
    for m in must:
        m.invalid_c = True
    budget = 64 if ctx.tier == "quick" else 256
    comp = drive.get_compiler()
    env = prog.Env(comp)
    results = vcheck.run_space(ctx, specs + must, "c09-" + ctx.tier, budget, compiler=comp, env=env)
    mres = results[len(specs):]
    results = results[: len(specs)]
    cov = vcheck.summarize(ctx, specs, results, deviations.FINDING_OF)
    cov.update(vcheck.check_rejections(ctx, specs, results, "c09"))
    n_must = 0
    for s, r in zip(must, mres):
        n_must += 1
        if r["status"] != "rejected":
            ctx.report({"program": r["text"], "spec": r.get("spec"), "why": "must be rejected (not exactly foldable / no C type), but code was returned", "status": r["status"]}, deviations.must_reject_finding(r), what="accepted although it cannot be folded exactly: %s" % s.stmts)
    for r in results[:2] + results[-2:]:
        ctx.sample({"program": r["text"], "status": r["status"], "states": r.get("n_states"), "explained_by": r.get("explained_by")})
    nat = [s for s in specs if "HEX_REG_ALIAS" not in s.stmts]
    nat = nat if ctx.tier == "thorough" else nat[:1500]
    cov["reference_vs_gcc_clang_comparisons"] = native.validate_space(ctx, nat, budget, env)
    return ctx.finish(
        dict(
            cov,
            evaluations=cov["states_compared"] + cov["ub_skipped"] + n_must,
            distinct_nontrivial=len(specs),
            rule="every valid literal spelling {decimal, hex} x {none,U,u,LL,ll,ULL,ull} x values {0,1,2^k-1,2^k,2^k+1 for k in 7,8,15,16,31,32,63, 2^64-1} alone, under + - ~, next to variables (unfoldable partner), as ?: and if condition; "
            "all ordered pairs of a %d-literal boundary set under + - * / and the six comparisons, folded and as typed-variable (unfolded) partners; folds of folds (a folded unary / binary / conditional result as operand of + - * / %% and the six comparisons); sizeof of the 8 types and of every operand kind; constant ?: with dead arms that mention live operands, contain value-producing operations, stand next to further such operations, or are conditional code themselves; "
            "%d programs that must be rejected (literal division by zero, literals above 2^64-1)" % (len(small_literal_set(ctx.tier)), len(MUST_REJECT)),
            exhaustive=True,
            must_reject_programs=n_must,
            state_budget_per_program=budget,
        ),
        assumptions=["literal typing per C11 6.4.4.1 on LP64 (int 32, long = long long 64)", "cref(strict) cross-validated against gcc and clang in this run"],
    )


def replay(ctx, path):
    return vcheck.replay(ctx, path)
