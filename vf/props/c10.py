"""C10  Emitted effects are well-sorted under RzIL typing, on every path (static all-paths
sort check of every emitted text: corpus in both layouts, sub-routines, generated programs)."""
from vf import staticprops

LEVEL = "exploration"


def run(ctx):
    return staticprops.run(ctx, "sorts")


def replay(ctx, path):
    return staticprops.replay(ctx, path, "sorts")
