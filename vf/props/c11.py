"""C11  Emitted text is a well-formed C body with sound companion metadata."""
from vf import staticprops

LEVEL = "exploration"


def run(ctx):
    return staticprops.run(ctx, "wellformed")


def replay(ctx, path):
    return staticprops.replay(ctx, path, "wellformed")
