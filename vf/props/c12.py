"""C12  IL node ownership is linear: one consuming use, DUP for the rest (static check of every
emitted text: corpus in both layouts, sub-routines, generated programs with heavy re-use)."""
from vf import staticprops

LEVEL = "exploration"


def run(ctx):
    return staticprops.run(ctx, "linearity")


def replay(ctx, path):
    return staticprops.replay(ctx, path, "linearity")
