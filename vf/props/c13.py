"""C13  Reported instruction attributes are exactly those of the instruction itself.

(i) every accepted corpus part compiled from a fresh state: attribute list == the set computed
from the part's own text by an independent AST walk (vf.attrs); no-op list -> NONE,
unimplemented -> INVALID.  (ii) explicit-state search over compile histories (E6): events =
transform_insn of attribute-relevant behaviours on instance A or B; on every transition the
attributes of the last event must be exactly those of its own text.
"""
import json

from vf import attrs, core, corpus, drive, hist

LEVEL = "model_checking"

BEHAVIOURS = {
    "none": ["{ RdV = RsV + RtV; }"],
    "cond": ["{ if (RsV) { RdV = RtV; } }"],
    "new-letter": ["{ RdV = PuN & 1; }"],
    "new-explicit": ["{ RdV = P0_NEW; }"],
    "new-alias": ["{ RdV = HEX_REG_ALIAS_LR_NEW; }"],
    "load": ["{ RdV = mem_load_u8(RsV); }"],
    "store": ["{ mem_store_u16(RsV, RtV); }"],
    "jump": ["{ JUMP(RsV); }"],
    "wpred-letter": ["{ PdV = RsV; }"],
    "wpred-p0": ["{ P0 = RsV; }"],
    "wpred-p1p3": ["{ P1 = RsV; P3 = RtV; }"],
    "all": ["{ if (PuN) { P2 = mem_load_s8(RsV); mem_store_u8(RsV, RtV); JUMP(riV); } }"],
    "two-part": ["{ P0 = (RsV > siV) ? 0xff : 0x00; }", "{ if (P0_NEW & 1) { JUMP(riV); } }"],
    "failing": ["{ RdV = RsV; P3 = 1; while (RsV) { } }"],
    # rejected although nothing was registered yet: the attribute-relevant construct itself fails first
    "jump-failing": ["{ JUMP(next_pc); }"],
    "load-failing": ["{ mem_load_u32(addr); }"],
    "store-failing": ["{ mem_store_u8(addr, 1); }"],
    "new-failing": ["{ nosuch = PuN; }"],
    "pred-failing": ["{ P1 = nosuch; }"],
    "cond-failing": ["{ if (RsV) { nosuch(1); } }"],
    "ternary-no-cond": ["{ RdV = RsV ? RtV : (int32_t)mem_load_s16(RtV); }"],
}
NOPED_NAME = "Y4_l2fetch"


def expected_meta(texts):
    return [attrs.attributes(t) for t in texts]


def check_meta(meta, texts):
    """-> None | why"""
    exp = expected_meta(texts)
    if len(meta) != len(exp):
        return "number of attribute lists %d != number of parts %d" % (len(meta), len(exp))
    for i, (m, e) in enumerate(zip(meta, exp)):
        if len(set(m)) != len(m):
            return "part %d: duplicate attribute in %s" % (i, m)
        if set(m) != e:
            return "part %d: reported %s, own text implies %s" % (i, sorted(m), sorted(e))
    return None


_JOB = {}


def corpus_work(name):
    v = _JOB["res"][name]
    texts = _JOB["beh"][name]
    if v[0] != "ok":
        return "rejected"
    if name in _JOB["noped"]:
        if any(m != ["HEX_IL_INSN_ATTR_NONE"] for m in v[1]["meta"]):
            return "no-op listed instruction reports %s" % v[1]["meta"]
        return "noped-ok"
    try:
        return check_meta(v[1]["meta"], texts)
    except Exception as e:
        raise core.HarnessError("attribute oracle failed on %s: %r" % (name, e))


# ---- (iii) generated parts: every attribute-relevant construct in every spelling
DESTS = ["RdV", "ReV", "RxV", "RyV", "RddV", "RxxV", "PdV", "PeV", "PxV", "CdV", "MxV", "R0", "R31", "R1:0", "P0", "P1", "P2", "P3", "C4", "M0"] + [
    "HEX_REG_ALIAS_" + a for a in ("PC", "PKTCOUNT", "PKTCNTLO", "LR", "SP", "FP", "SA0", "LC0", "USR", "GP", "UGP", "M0", "CS0", "UPCYCLE", "FRAMEKEY", "UTIMER")
]
ASSIGN_FORMS = ["%s = RsV;", "%s = %s + 1;", "%s |= RsV;", "%s = mem_load_u8(RsV);", "RdV = (%s = RsV);"]
NEW_SRCS = ["PuN", "PtN", "NsN", "P0_NEW", "P3_NEW", "R0_NEW", "R31_NEW", "HEX_REG_ALIAS_LR_NEW", "HEX_REG_ALIAS_PC_NEW", "HEX_REG_ALIAS_USR_NEW"]
PLAIN = ["RdV = RsV;", "int32_t p = RsV; p = p + 1; RdV = p;", "int32_t Pq = RsV; Pq = 3; RdV = Pq;", "RdV = RsV ? RtV : 1;", "for (i = 0; i < 2; i++) { RdV = i; }", "RdV = clz32(RsV);", "RdV = PuV;", "RdV = P0;", "RdV = HEX_REG_ALIAS_PC;", ";"]
MEM = ["RdV = mem_load_%s%d(RsV);" % (sg, w) for sg in "su" for w in (8, 16, 32, 64)] + ["mem_store_u%d(RsV, RtV);" % w for w in (8, 16, 32, 64)] + ["RdV = mem_load_u8(mem_load_u32(RsV));", "mem_store_u8(RsV, mem_load_u8(RtV));"]
JUMPS = ["JUMP(RsV);", "JUMP(riV);", "JUMP(HEX_REG_ALIAS_LR);", "JUMP(RsV ? riV : RtV);"]
PART_CONTEXTS = [("top", "{ %s }"), ("if", "{ if (RsV) { %s } }"), ("else", "{ if (RsV) { RdV = 1; } else { %s } }"), ("for", "{ for (i = 0; i < 2; i++) { %s } }"), ("block", "{ RdV = 0; { %s } }"), ("after", "{ RdV = RtV; %s }")]


def part_features(tier):
    fs = []
    for d in DESTS:
        for f in (ASSIGN_FORMS if tier == "thorough" else ASSIGN_FORMS[:3]):
            fs.append(("w:" + d, f.replace("%s", d)))
    for n in NEW_SRCS:
        fs.append(("new:" + n, "RdV = %s;" % n))
        fs.append(("new-cond:" + n, "RdV = (%s & 1) ? RsV : RtV;" % n))
    for i, x in enumerate(PLAIN):
        fs.append(("plain:%d" % i, x))
    for x in MEM:
        fs.append(("mem:" + x.split("(")[0][-12:], x))
    for x in JUMPS:
        fs.append(("jump", x))
    return fs


def part_space(tier):
    fs = part_features(tier)
    out = []
    for tag, f in fs:
        for cn, cx in PART_CONTEXTS:
            out.append(((tag, cn), cx % f))
    # ordered pairs of one representative per construct class
    reps = [f for f in fs if f[0] in ("w:RdV", "w:PdV", "w:P1", "w:P3", "w:HEX_REG_ALIAS_PKTCOUNT", "w:HEX_REG_ALIAS_LR", "new:PuN", "new:P0_NEW", "plain:0", "plain:3", "jump") or f[0].startswith("mem:")]
    seen_cls = set()
    reps2 = []
    for tag, f in reps:
        key = (tag, f.split("=")[0] if tag.startswith("w:") else f[:14])
        if tag in seen_cls and not tag.startswith("mem:"):
            continue
        seen_cls.add(tag)
        reps2.append((tag, f))
    if tier != "thorough":
        reps2 = [r for r in reps2 if not r[0].startswith("mem:")] + [r for r in reps2 if r[0].startswith("mem:")][:2]
    for t1, f1 in reps2:
        for t2, f2 in reps2:
            out.append(((t1, t2, "pair"), "{ %s %s }" % (f1, f2)))
            out.append(((t1, t2, "pair-if"), "{ if (RtV) { %s } else { %s } }" % (f1, f2)))
    # loads and stores in every order (the attributes of a part do not depend on the order of its statements)
    for li, l in enumerate(("RdV = mem_load_u8(RsV);", "ReV = mem_load_s32(RtV);", "RdV = RsV + mem_load_u16(RtV);")):
        for si, st in enumerate(("mem_store_u8(RsV, RtV);", "mem_store_u32(RtV, RsV);")):
            for on, form in (("ls", "{ %(l)s %(s)s }"), ("sl", "{ %(s)s %(l)s }"), ("s-if-l", "{ %(s)s if (RsV) { %(l)s } }"), ("if-s-l", "{ if (RsV) { %(s)s } %(l)s }"), ("ssl", "{ %(s)s %(s)s %(l)s }"),
                             ("lsl", "{ %(l)s %(s)s %(l)s }"), ("s-jump-l", "{ %(s)s JUMP(riV); %(l)s }"), ("s-new-l", "{ %(s)s if (PuN) { %(l)s } }"), ("for-s-l", "{ for (i = 0; i < 2; i++) { %(s)s } %(l)s }")):
                out.append((("mem-order", li, si, on), form % {"l": l, "s": st}))
    seen = set()
    res = []
    for tag, t in out:
        if t not in seen:
            seen.add(t)
            res.append((tag, t))
    return res


def part_work(item):
    tag, text = item
    comp = _JOB["comp"]
    pc = _JOB["pc"]
    r = pc.get(text)
    if r[0] != "ok":
        return ("parse-rejected",)
    v = drive.transform_fresh(comp, "V13_gen", [r[1]], [text])
    if v[0] != "ok":
        return ("rejected", v[1])
    try:
        bad = check_meta(v[1]["meta"], [text])
    except cparse_errors() as e:
        return ("oracle-cannot-read", repr(e))
    return ("ok", v[1]["meta"][0], bad)


def cparse_errors():
    from vf import cparse

    return (cparse.CSyntaxError,)


def alphabet():
    evs = []
    for n, texts in BEHAVIOURS.items():
        for inst in ("A", "B"):
            evs.append(hist.Event("transform", inst, "V13_" + n.replace("-", "_"), texts))
    evs.append(hist.Event("transform", "A", NOPED_NAME, ["{ RdV = mem_load_u8(RsV); P0 = 1; }"]))
    evs.append(hist.Event("stmt", "A", "V13_stmt_p2", ["{ P2 = RsV; }"]))
    # one instruction name (and names the extension folds onto it) used with different behaviours
    for inst in ("A", "B"):
        for i, (nm, beh) in enumerate([("V13_shared", "none"), ("V13_shared", "all"), ("dep_V13_shared", "wpred-p1p3"), ("V13_shared_undocumented", "load"), ("IMPORTED_V13_shared", "two-part")]):
            evs.append(hist.Event("transform", inst, nm, BEHAVIOURS[beh], variant="v%d" % i))
    return evs


def run(ctx):
    # ---- (i) corpus from a fresh state
    res = corpus.compile_corpus("stmt", ctx.seed)
    beh, pc0 = corpus.parsed_corpus(ctx.seed)
    comp = drive.get_compiler("stmt")
    _JOB.update(res=res, beh=beh, noped=set(comp.noped_insns))
    names = sorted(res)
    out = core.pmap(corpus_work, names, seed=ctx.seed)
    n_parts = 0
    n_nontrivial = 0
    for n, r in zip(names, out):
        if r == "rejected":
            continue
        n_parts += len(beh[n])
        if r == "noped-ok":
            continue
        if any(m != ["HEX_IL_INSN_ATTR_NONE"] for m in res[n][1]["meta"]):
            n_nontrivial += 1
        if r:
            ctx.report({"insn": n, "texts": beh[n], "meta": res[n][1]["meta"], "why": r}, None, what="%s: %s" % (n, r))
    from rzilcompiler.Compiler import RZILInstruction

    u = RZILInstruction.get_unimplemented_rzil_instr("X")
    if u.meta != [["HEX_IL_INSN_ATTR_INVALID"]]:
        ctx.report({"why": "unimplemented instruction does not report INVALID", "meta": u.meta}, None, what="get_unimplemented_rzil_instr: %s" % u.meta)
    # ---- (iii) generated parts from a fresh state
    pitems = part_space(ctx.tier)
    ppc = drive.ParseCache("c13-parts")
    ppc.ensure([t for _g, t in pitems], seed=ctx.seed)
    ppc.save()
    _JOB.update(comp=comp, pc=ppc)
    pres = core.pmap(part_work, pitems, seed=ctx.seed)
    n_gen_ok = n_gen_rej = 0
    gen_attr_sets = set()
    for (tag, text), r in zip(pitems, pres):
        if r[0] == "oracle-cannot-read":
            raise core.HarnessError("attribute oracle cannot read generated part %r: %s" % (text, r[1]))
        if r[0] != "ok":
            n_gen_rej += 1
            continue
        n_gen_ok += 1
        gen_attr_sets.add(tuple(sorted(r[1])))
        if r[2]:
            ctx.report({"part": text, "tag": list(tag), "meta": r[1], "why": r[2]}, None, what="generated part %s: %s" % (text, r[2]))
    ctx.log("generated parts: %d accepted, %d rejected, %d distinct attribute sets" % (n_gen_ok, n_gen_rej, len(gen_attr_sets)))
    # ---- (ii) histories
    depth = 3 if ctx.tier == "quick" else 4
    comps = {"A": comp, "B": drive.get_compiler("stmt", fresh=True)}
    alpha = alphabet()
    pc = drive.ParseCache("c13")
    pc.ensure([t for ev in alpha for t in ev.texts], seed=ctx.seed)
    pc.save()
    hist.setup(comps, pc)
    drop = ("hybrid_op_count", "missing_fcns")

    def check(h, ev, obs):
        if ev.kind != "transform":
            return None
        if obs[0] != "ok":
            if ev.name.endswith("failing"):
                return None
            return "rejected: %s" % (obs[1],)
        if ev.name == NOPED_NAME:
            return None if obs[2] == [["HEX_IL_INSN_ATTR_NONE"]] else "no-op listed instruction reports %s" % obs[2]
        return check_meta(obs[2], ev.texts)

    sr = hist.search(ctx, alpha, depth, check, drop=drop)
    pairs = hist.all_pairs(ctx, alpha, check, drop=drop)
    seen_v = set((tuple(e.label() for e in h), ev.label()) for h, ev, _o, _b in sr["violations"])
    for v in pairs["violations"]:
        if (tuple(e.label() for e in v[0]), v[1].label()) not in seen_v:
            sr["violations"].append(v)
    sr["transitions"] += pairs["pair_transitions"]
    for h, ev, obs, bad in sr["violations"]:
        ctx.report({"history": [e.label() for e in h], "history_texts": [e.texts for e in h], "event": ev.label(), "texts": ev.texts, "why": bad}, None, what="after [%s]: %s: %s" % (", ".join(e.label() for e in h), ev.label(), bad))
    ctx.sample({"history": [alpha[18].label(), alpha[20].label()], "event": alpha[16].label(), "invariant": "attributes == those implied by the event's own text"})
    ctx.sample({"corpus_part": names[0], "meta": res[names[0]][1]["meta"] if res[names[0]][0] == "ok" else None})
    return ctx.finish(
        dict(
            states=sr["states"],
            transitions=sr["transitions"],
            traces_validated_against_impl=sr["transitions"],
            depth_completed=len(sr["levels"]),
            fixpoint_reached=(sr["frontier_left"] == 0),
            levels=sr["levels"],
            events=len(alpha),
            unmerged_length2_histories=pairs["pair_transitions"],
            generated_parts_checked=n_gen_ok,
            generated_parts_rejected=n_gen_rej,
            generated_parts_distinct_attribute_sets=len(gen_attr_sets),
            corpus_parts_checked=n_parts,
            corpus_instructions_with_attributes=n_nontrivial,
            explanation="every transition is a real transform_insn call replayed from S0 in a forked child; besides the search with state merging, every history of length 2 is run without merging (it does not rely on the state digest); "
            "the alphabet includes one instruction name (and the names the extension folds onto it) used with different behaviours; the corpus half compiles every accepted instruction from the same fresh state; "
            "the generated half compiles parts with every destination spelling (operand letters, explicit registers, pairs, 16 aliases) x assignment form, every .new spelling, all load / store helpers, jumps and plain parts in 6 contexts, and ordered pairs of class representatives",
        ),
        assumptions=["the attribute function of vf/attrs.py is the property's definition (COND iff an if statement, NEW iff a .new operand occurs, MEM_READ/WRITE iff mem_load/mem_store, BRANCH iff JUMP, WPRED iff a predicate register is assigned, WRITE_Pn for explicitly numbered ones)"],
    )


def replay(ctx, path):
    case = json.load(open(path))
    if "history" not in case:
        name = case["insn"]
        res = corpus.compile_corpus("stmt", ctx.seed, names=[name])
        beh, _ = corpus.parsed_corpus(ctx.seed)
        if res[name][0] != "ok":
            print("now rejected")
            return 0
        bad = check_meta(res[name][1]["meta"], beh[name])
        print(name, res[name][1]["meta"], "->", bad or "ok")
        if bad:
            print("VIOLATION property=%s replay=%s" % (ctx.pid, path))
            return 1
        return 0
    comps = {"A": drive.get_compiler("stmt"), "B": drive.get_compiler("stmt", fresh=True)}
    alpha = alphabet()
    by = {e.label(): e for e in alpha}
    pc = drive.ParseCache("c13")
    pc.ensure([t for ev in alpha for t in ev.texts])
    hist.setup(comps, pc)
    h = [by[x] for x in case["history"]]
    ev = by[case["event"]]
    o1 = hist.run_history(h + [ev])[0][-1]
    o2 = hist.run_history(h + [ev])[0][-1]
    if o1 != o2:
        raise core.HarnessError("replaying the same history twice gave different observations")
    bad = None
    if o1[0] == "ok":
        bad = check_meta(o1[2], ev.texts) if ev.name != NOPED_NAME else (None if o1[2] == [["HEX_IL_INSN_ATTR_NONE"]] else "noped reports %s" % o1[2])
    print("history:", case["history"], "event:", case["event"], "->", o1[2] if o1[0] == "ok" else o1, bad or "ok")
    if bad:
        print("VIOLATION property=%s replay=%s" % (ctx.pid, path))
        return 1
    return 0
