"""C14  Compilation results do not depend on history or on earlier failures.

Explicit-state search (E6): events = (entry point, compiler instance, behaviour); every history
up to a depth is replayed from S0 in a forked child; states are deduplicated by a canonical
digest of all persistent compiler state.  Invariant on every transition (differential, no
hand-written expectation): the observation of the last event equals the observation of the same
behaviour compiled as the only event of a fresh process - emitted text modulo comments and a
consistent renaming of temporaries, attribute lists, accepted/rejected.
"""
import json

from vf import core, corpus, drive, hist

LEVEL = "model_checking"

# every item of persistent state is written by some element
BEHAVIOURS = {
    "plain": "{ RdV = RsV + RtV; }",
    "tmp-call": "{ RdV = clz32(RsV) + clz32(RtV); }",
    "tmp-postfix": "{ int32_t i; for (i = 0; i < 2; i++) { RxV += i; } }",
    "pred-explicit": "{ P0 = RsV; P2 = RtV; }",
    "pred-letter": "{ PdV = (RsV == RtV) ? 0xff : 0x00; }",
    "imm": "{ RdV = RsV + siV; mem_store_u32(RsV, uiV); }",
    "unsigned-const": "{ unsigned int u = 3; const int32_t c = 5; RdV = u + c; }",
    "stmtexpr": "{ RdV = (RsV > 0) ? ({ set_usr_field(bundle, HEX_REG_FIELD_USR_OVF, 1); 7; }) : RtV; }",
    "new-load-jump": "{ if (PuN & 1) { RdV = mem_load_s16(RsV); JUMP(riV); } }",
    "parse-error": "{ RdV = ; }",
    "late-unsupported": "{ RdV = RsV; EA = RtV + siV; while (RsV) { RdV = 1; } }",
    "type-error": "{ const int32_t c = 1; RdV = RsV + siV; c = 2; }",
    "unknown-call": "{ RdV = RsV + clz32(RtV); RdV = no_such_function(RsV); }",
    # literals whose type objects may be shared (negation of a constant mutates the type it was given)
    "neg-big-literal": "{ RdV = ((RsV == -0x80000000) ? RtV : RsV); RddV = -0x8000000000000000LL; }",
    "big-hex-literals": "{ RddV = 0x80000000; RdV = 0xffffffff + RsV; PdV = (RsV < 0xf0000000) ? 0xff : 0x00; }",
    "dec-literals": "{ RddV = 2147483648; RdV = -1; RxV = -5 + RsV; RyyV = 4294967296 + RssV; }",
    # failures while a value-producing operation is still waiting for its consumer
    "fail-pending-call": "{ RdV = clz32(RsV) + no_such_function(RtV); }",
    "fail-pending-postfix": "{ int32_t i = 0; RdV = i++ + no_such_function(RtV); }",
    "fail-pending-stmtexpr": "{ RdV = ({ RxV = RsV; RxV; }) + no_such_function(RtV); }",
    "fail-pending-imm": "{ RdV = siV + no_such_function(uiV); }",
    # failures before anything was registered (the failing construct itself sets per-behaviour flags first)
    "fail-jump-first": "{ JUMP(next_pc); }",
    "fail-load-first": "{ mem_load_u32(addr); }",
    "fail-pred-first": "{ P1 = nosuch; }",
    # every operand kind written only / read only / plain and .new (objects that describe an operand carry an access
    # mode and a read counter: they must not outlive the behaviour that created them)
    "alias-write": "{ HEX_REG_ALIAS_LR = RsV; HEX_REG_ALIAS_SA0 = RtV; }",
    "alias-read": "{ RdV = HEX_REG_ALIAS_LR + HEX_REG_ALIAS_SA0; }",
    "explicit-write": "{ R31 = RsV; P1 = RtV; }",
    "explicit-read": "{ RdV = R31 + P1; }",
    "letter-write": "{ RxV = RsV; PeV = RtV; }",
    "letter-read": "{ RdV = RxV + PeV; }",
    "letter-new": "{ RdV = PuN + NsN; }",
    "letter-plain": "{ RdV = PuV + RsV; }",
    # the plain C type names (their type objects must not be shared between declarations: a declaration changes them in place)
    "c-int-widen": "{ int n = RsV; RddV = n; RxV = ((int)RtV) >> 4; }",
    "c-unsigned-int": "{ unsigned int u = RsV; RddV = u; }",
    "c-unsigned": "{ unsigned w = RsV; RddV = w; RxV = w >> 4; }",
    "c-cast-unsigned-int": "{ RddV = (unsigned int)RsV; RxV = (int)RtV; }",
    "c-int64": "{ int64_t q = RsV; uint64_t p = RtV; RddV = q + p; }",
    # ... and the same names with a qualifier (the qualifier is or-ed into the type object of the declaration), and
    # declared first, assigned later (the assignment looks at the qualifier of the declared type)
    "c-const-unsigned": "{ const unsigned b = 5; RdV = b; }",
    "c-const-unsigned-int": "{ const unsigned int b = RsV; RdV = b + 1; }",
    "c-const-int": "{ const int n = 5; RdV = n + RsV; }",
    "c-unsigned-assign": "{ unsigned a; a = 7; RdV = (a >> 1); }",
    "c-unsigned-int-assign": "{ unsigned int a; a = RsV; RdV = a; }",
    "c-int-assign": "{ int a; a = RsV; a += 1; RdV = a; }",
    # typed constants: folds that change the type of a constant, and later uses of constants with the same suffix
    "k-neg-u": "{ RdV = -1U; }",
    "k-neg-ull-fail": "{ RddV = -3ULL; goto out; }",
    "k-not-ll": "{ RddV = ~5LL + -7; }",
    "k-cmp-u": "{ RdV = (RsV < 2U) ? 1 : 0; RxV = RsV >> 1U; }",
    "k-cmp-ull": "{ RddV = (RssV < 2ULL) ? 1 : 0; }",
    "k-cmp-plain": "{ RdV = (RsV < 2) + (RssV > 3LL); }",
    # several value-producing operations consumed by one statement (their order is part of the meaning)
    "tmp-three": "{ int32_t i = 0; RdV = clz32(RsV) + i++ + clo32(RtV); }",
    "tmp-sat-chain": "{ RdV = (clz32(RsV) > 3) ? ({ set_usr_field(bundle, HEX_REG_FIELD_USR_OVF, 1); clo32(RtV); }) : fbrev(RsV); }",
}
SUB = ("c14_twice", "int32_t", ["int32_t x"], "{ int32_t t = x; t++; return t + x; }")
SUBCALL = "{ RdV = c14_twice(RsV) + c14_twice(RtV); }"


NOPED_NAMES = ["Y4_l2fetch", "Y5_l2fetch", "R6_release_at_vi"]


def alphabet(tier):
    evs = []
    names = list(BEHAVIOURS)
    for n in names:
        for inst in ("A", "B"):
            evs.append(hist.Event("transform", inst, "V14_" + n.replace("-", "_"), [BEHAVIOURS[n]]))
            evs.append(hist.Event("stmt", inst, "V14_" + n.replace("-", "_"), [BEHAVIOURS[n]]))
    for n in ("plain", "tmp-call", "pred-explicit"):
        evs.append(hist.Event("insn", "A", "V14_" + n.replace("-", "_"), [BEHAVIOURS[n]]))
    for inst in ("A", "B"):
        evs.append(hist.Event("subcall", inst, "V14_subcall", [SUBCALL], sub=SUB))
    # instructions of the bundled no-op list: always `return NOP();`, whatever was compiled before
    for inst in ("A", "B"):
        for nm in NOPED_NAMES:
            evs.append(hist.Event("transform", inst, nm, ["{ RdV = mem_load_u8(RsV); P0 = 1; }"]))
    # one instruction name (and the names the extension folds onto it) used with different behaviours
    for inst in ("A", "B"):
        for i, (nm, beh) in enumerate([("V14_shared", "plain"), ("V14_shared", "new-load-jump"), ("dep_V14_shared", "pred-explicit"), ("V14_shared_undocumented", "tmp-call"), ("IMPORTED_V14_shared", "late-unsupported")]):
            evs.append(hist.Event("transform", inst, nm, [BEHAVIOURS[beh]], variant="v%d" % i))
    return evs


# The state digest drops the never-reset counter of value-producing operations (it only numbers the
# temporaries, and observations are compared modulo a renaming of temporaries).  That abstraction is
# checked against the code instead of assumed: the counter is driven to every value of COUNTS by real
# compile calls (a statement with exactly one such operation), and every event of the alphabet must still
# give its fresh-state observation from there.  COUNTS brackets the points where the decimal length of a
# temporary's number changes.
PUMP = "{ RdV = clz32(RsV); }"
COUNTS_QUICK = list(range(0, 13))
COUNTS_THOROUGH = list(range(0, 25)) + list(range(95, 104))


def _counter(inst):
    return hist._CTX["comp"][inst].transformer.il_ops_holder.hybrid_op_count


def _pumped(k, ev, failing):
    """k pump events on ev's instance (every `failing`-th one followed by a failing compilation), then ev."""
    pump = hist.Event("stmt", ev.inst, "V14_pump", [PUMP])
    fail = hist.Event("stmt", ev.inst, "V14_pump_fail", [BEHAVIOURS["fail-pending-call"]])
    n = 0
    while _counter(ev.inst) < k:
        hist.do_event(pump if not (failing and n % 2) else fail)
        n += 1
        if n > 4 * k + 8:
            # on a compiler without memory of earlier compilations every compilation of the pump statement creates one
            # temporary; a pump that stops doing so is a compilation whose result depends on the ones before it
            return _counter(ev.inst), ("pump-stalled", n)
    c = _counter(ev.inst)
    return c, hist.do_event(ev)


def _pump_work(item):
    k, ev, failing = item
    r = core.fresh_call(_pumped, k, ev, failing)
    if r[0] != "ok":
        raise core.HarnessError("pump history failed: %s" % (r[1:],))
    return r[1]


def counter_sweep(ctx, alpha, base, counts):
    items = [(k, ev, f) for k in counts for ev in alpha for f in (False, True) if not (f and k == 0)]
    res = core.pmap(_pump_work, items, seed=ctx.seed, chunk=8)
    reached = set()
    n = stalled = 0
    for (k, ev, f), (c, obs) in zip(items, res):
        n += 1
        reached.add(c)
        if obs[0] == "pump-stalled":
            stalled += 1
            if stalled <= 3:
                ctx.report({"history": ["%d x stmt@%s(pump%s)" % (obs[1], ev.inst, "+failures" if f else "")], "counter_reached": c, "counter_wanted": k, "pump": PUMP, "kind": "pump"}, None,
                           what="compiling `%s` %d times on one compiler creates only %d temporaries: a later compilation of the same statement does not do what the first one did" % (PUMP, obs[1], c))
            continue
        bad = same(base[ev.key()], obs)
        if bad:
            ctx.report({"history": ["%d x stmt@%s(pump%s)" % (k, ev.inst, "+failures" if f else "")], "counter_before_event": c, "event": ev.label(), "behaviour": ev.texts[0], "why": bad, "pump": PUMP},
                       None, what="with the temporaries counter at %d the event %s gives a different result: %s" % (c, ev.label(), bad))
    return {"counter_sweep_transitions": n, "counter_values_reached": sorted(reached)}


def same(o1, o2):
    """Equality of observations across entry points: accepted/rejected, texts, attributes."""
    r1, r2 = o1[0] == "ok", o2[0] == "ok"
    if r1 != r2:
        return "one is accepted, the other rejected (%s vs %s)" % (o1[:2] if not r1 else "ok", o2[:2] if not r2 else "ok")
    if not r1:
        return None
    if o1[1][0] != o2[1][0]:
        return "emitted code differs"
    if o1[2] is not None and o2[2] is not None and o1[2] != o2[2]:
        return "attribute lists differ: %s vs %s" % (o1[2], o2[2])
    return None


def run(ctx):
    depth = 4 if ctx.tier == "quick" else 8  # the search stops earlier when no new state appears (fixpoint)
    comps = {"A": drive.get_compiler("stmt"), "B": drive.get_compiler("stmt", fresh=True)}
    alpha = alphabet(ctx.tier)
    pc = drive.ParseCache("c14")
    texts = [t for ev in alpha for t in ev.texts] + [SUB[3], PUMP]
    pc.ensure(texts, seed=ctx.seed)
    pc.save()
    hist.setup(comps, pc, parsed_insns={ev.name: ev.texts for ev in alpha if ev.kind == "insn"})
    drop = ("hybrid_op_count", "missing_fcns")  # missing_fcns: diagnostic counter only read by report_missing_fcns; C14 compares modulo renaming of temporaries: states differing only in the counter have equal futures
    # baseline: each event as the only event from S0
    base = {}
    for ev in alpha:
        obs, _ = hist.run_history([ev], drop)
        base[ev.key()] = obs[0]
    ref = {}
    n_base_bad = 0
    for ev in alpha:
        k = ev.base_key()[1:]
        if ev.kind == "subcall":
            continue
        if k not in ref:
            ref[k] = (ev, base[ev.key()])
        else:
            bad = same(ref[k][1], base[ev.key()])
            if bad:
                n_base_bad += 1
                ctx.report({"behaviour": ev.texts[0], "event_1": ref[k][0].label(), "event_2": ev.label(), "why": bad, "history": []}, None, what="from a fresh state %s and %s disagree: %s" % (ref[k][0].label(), ev.label(), bad))

    def check(h, ev, obs):
        return same(base[ev.key()], obs)

    res = hist.search(ctx, alpha, depth, check, drop=drop)
    pairs = hist.all_pairs(ctx, alpha, check, drop=drop)
    ctx.log("all histories of length 2: %d" % pairs["pair_transitions"])
    seen_v = set((tuple(e.label() for e in h), ev.label()) for h, ev, _o, _b in res["violations"])
    for v in pairs["violations"]:
        if (tuple(e.label() for e in v[0]), v[1].label()) not in seen_v:
            res["violations"].append(v)
    for h, ev, obs, bad in res["violations"]:
        case = {"history": [e.label() for e in h], "event": ev.label(), "behaviour": ev.texts[0], "why": bad, "history_texts": [e.texts[0] for e in h], "observed": repr(obs)[:600], "fresh": repr(base[ev.key()])[:600]}
        ctx.report(case, attribute(h, ev, bad), what="after [%s] the event %s gives a different result: %s" % (", ".join(e.label() for e in h), ev.label(), bad))
    # thorough: every ordered pair of a slice of the corpus through transform_insn on one instance
    extra = {}
    if ctx.tier == "thorough":
        extra = corpus_pairs(ctx, comps, drop)
        hist.setup(comps, pc, parsed_insns={ev.name: ev.texts for ev in alpha if ev.kind == "insn"})
    extra.update(counter_sweep(ctx, alpha, base, COUNTS_QUICK if ctx.tier == "quick" else COUNTS_THOROUGH))
    ctx.sample({"history": [alpha[0].label(), alpha[5].label()], "event": alpha[2].label(), "invariant": "observation equals the fresh-process observation of the same behaviour"})
    ctx.sample({"events": [e.label() for e in alpha[:6]]})
    return ctx.finish(
        dict(
            states=res["states"],
            transitions=res["transitions"] + pairs["pair_transitions"] + extra.get("corpus_pair_transitions", 0) + extra.get("counter_sweep_transitions", 0),
            traces_validated_against_impl=res["transitions"] + pairs["pair_transitions"] + extra.get("corpus_pair_transitions", 0) + extra.get("counter_sweep_transitions", 0),
            unmerged_length2_histories=pairs["pair_transitions"],
            depth_completed=len(res["levels"]),
            fixpoint_reached=(res["frontier_left"] == 0),
            levels=res["levels"],
            events=len(alpha),
            behaviours=len(BEHAVIOURS) + 1,
            max_distinct_outcomes_per_event=res["max_distinct_outcomes_per_event"],
            explanation="the search runs the real compiler objects (no model): every transition is a real call replayed from S0 in a forked child, so every explored trace is an implementation trace; "
            "what the state digest leaves out is covered separately: every history of length 2 is run without state merging, and the temporaries counter is driven to every value of a range that brackets the changes of its decimal length by real compilations (with and without interleaved failures) before every event; "
            "the alphabet has a behaviour for every item of persistent state, failures with pending value-producing operations, write-only / read-only / .new / plain use of every operand kind, and one instruction name (and folded alias names) used with different behaviours",
            **extra
        ),
        assumptions=["parsing is a pure function of grammar and text (established separately by C17); events are handed pre-parsed trees / a memoised Lark.parse", "state digest drops Compiler.compiled_insns/parsed_insns and, for C14 only, the temporaries counter; both abstractions are validated by the unmerged length-2 layer and the counter sweep on every run"],
    )


def attribute(h, ev, bad):
    return None


def corpus_pairs(ctx, comps, drop):
    """All ordered pairs (x, y) of a 200-instruction slice of the corpus: y after x == y alone."""
    beh, pc = corpus.parsed_corpus(ctx.seed)
    names = [n for n in sorted(beh) if all(pc.get(p)[0] == "ok" for p in beh[n])]
    step = max(1, len(names) // 200)
    sl = names[::step][:200]
    hist.setup(comps, pc)
    evs = {n: hist.Event("transform", "A", n, beh[n]) for n in sl}
    base = {n: hist.run_history([evs[n]], drop)[0][0] for n in sl}
    items = [([evs[x]], evs[y], tuple(drop)) for x in sl for y in sl]
    res = core.pmap(hist._expand, items, seed=ctx.seed, chunk=16)
    n = 0
    for (h, ev, _d), (obs, _dig) in zip(items, res):
        n += 1
        bad = same(base[ev.name], obs)
        if bad:
            ctx.report({"history": [h[0].label()], "event": ev.label(), "why": bad}, None, what="corpus pair: %s after %s differs: %s" % (ev.name, h[0].name, bad))
    return {"corpus_pair_transitions": n, "corpus_slice": len(sl)}


def replay(ctx, path):
    case = json.load(open(path))
    comps = {"A": drive.get_compiler("stmt"), "B": drive.get_compiler("stmt", fresh=True)}
    alpha = alphabet("thorough")
    by = {e.label(): e for e in alpha}
    pc = drive.ParseCache("c14")
    pc.ensure([t for ev in alpha for t in ev.texts] + [SUB[3], PUMP])
    hist.setup(comps, pc, parsed_insns={ev.name: ev.texts for ev in alpha if ev.kind == "insn"})
    drop = ("hybrid_op_count", "missing_fcns")
    if case.get("kind") == "pump":
        ev = alpha[0]
        o1 = _pump_work((case["counter_wanted"], ev, "+failures" in case["history"][0]))
        stalled = o1[1][0] == "pump-stalled"
        print("pump driven towards %d temporaries: %s" % (case["counter_wanted"], "stalls at %d" % o1[0] if stalled else "reached"))
        if stalled:
            print("VIOLATION property=%s replay=%s" % (ctx.pid, path))
            return 1
        return 0
    if case["event"] not in by:
        print("event not in the alphabet (corpus pair): re-run the thorough tier")
        return 0
    if "counter_before_event" in case:
        ev = by[case["event"]]
        k = case["counter_before_event"]
        failing = "+failures" in case["history"][0]
        o1 = _pump_work((k, ev, failing))
        o2 = _pump_work((k, ev, failing))
        if o1 != o2:
            raise core.HarnessError("replaying the same history twice gave different observations")
        fresh = hist.run_history([ev], drop)[0][0]
        bad = same(fresh, o1[1])
        print("counter driven to %d by real compilations, then %s: %s" % (o1[0], case["event"], bad or "equal to the fresh-state observation"))
        if bad:
            print("VIOLATION property=%s replay=%s" % (ctx.pid, path))
            return 1
        return 0
    h = [by[x] for x in case["history"]]
    ev = by[case["event"]]
    o1 = hist.run_history(h + [ev], drop)[0][-1]
    o2 = hist.run_history(h + [ev], drop)[0][-1]
    if o1 != o2:
        raise core.HarnessError("replaying the same history twice gave different observations")
    fresh = hist.run_history([ev], drop)[0][0]
    bad = same(fresh, o1)
    print("history:", case["history"], "event:", case["event"])
    print("result :", bad or "equal to the fresh-state observation")
    if bad:
        print("VIOLATION property=%s replay=%s" % (ctx.pid, path))
        return 1
    return 0
