"""C15  Nothing in the source is silently dropped: translate it or raise.

Space: every unsupported construct {break, continue, goto + label, label, case / default label,
comma expression, while, do, switch, unknown function with / without arguments, *p, &x, a[i],
s.m, p->m, prefix ++/--, compound literal, multiple declarators, sizeof(type), a registered void
macro used as a statement} at every position {first / middle / last statement, inside an if arm,
inside a for body, assignment rhs, condition, call argument} around supported code.
Oracle: the compile call raises.  If text is returned instead the construct was dropped (or
emitted as code that is never sequenced) - a violation; the replay records what is missing.
"""
import json
import os
import re

from vf import core, cparse, drive, il, prog

LEVEL = "exploration"

# statement-level constructs (each is a complete statement with an effect or a control transfer)
STMTS = {
    "break": "break;",
    "continue": "continue;",
    "goto": "goto out;",
    "label": "out: RdV = 1;",
    "label-empty": "out: ;",
    "case": "case 1: RdV = 1;",
    "default": "default: RdV = 1;",
    "while": "while (RsV) { RdV = 1; }",
    "do": "do { RdV = 1; } while (RsV);",
    "switch": "switch (RsV) { case 1: RdV = 1; }",
    "switch-nolabel": "switch (RsV) { RdV = 1; }",
    "switch-nobrace": "switch (RsV) RdV = 1;",
    "switch-default": "switch (RsV) { default: RdV = 1; }",
    "switch-nested-if": "switch (RsV) { if (RtV) { RdV = 1; } }",
    "while-nobrace": "while (RsV) RdV = 1;",
    "while-const": "while (1) { RdV = 1; }",
    "do-nobrace": "do RdV = 1; while (RsV);",
    "do-once": "do { RdV = 1; } while (0);",
    "comma-for-init": "for (i = 0, RxV = 1; i < 2; i++) { RdV = i; }",
    "comma-for-step": "for (i = 0; i < 2; i++, RxV = 1) { RdV = i; }",
    "prefix-dec-stmt": "--RxV;",
    "goto-back": "again: RdV = 1; goto again;",
    "void-ternary-same": "RtV ? trap(0, 0) : trap(1, 1);",
    "void-ternary-paren": "(RtV ? trap(0, 0) : trap(1, 1));",
    "void-ternary-diff": "RtV ? trap(0, 0) : set_usr_field(bundle, HEX_REG_FIELD_USR_OVF, 1);",
    "void-ternary-usr": "RtV ? set_usr_field(bundle, HEX_REG_FIELD_USR_OVF, 1) : set_usr_field(bundle, HEX_REG_FIELD_USR_OVF, 0);",
    "void-in-arith": "RdV = trap(0, 0) + 1;",
    "void-as-arg": "RdV = clz32(trap(0, 0));",
    "comma-stmt": "RdV = 1, RxV = 2;",
    "unknown-call-args": "frobnicate(RsV);",
    "unknown-call-noargs": "frobnicate();",
    "void-macro-stmt": "HEX_SETROUND(hi, HEX_GET_INSN_RMODE(hi));",
    "multi-declarator": "int32_t p = 1, q = 2;",
    "return-void": "return;",
    "prefix-inc-stmt": "++RxV;",
    "deref-assign": "*RsV = 1;",
    "index-assign": "RsV[1] = 2;",
    "member-assign": "RsV.x = 2;",
    "arrow-assign": "RsV->x = 2;",
}
# expression-level constructs (used as rhs, condition, argument)
EXPRS = {
    "comma": "(RsV, RtV)",
    "unknown-call-args": "frobnicate(RsV)",
    "unknown-call-noargs": "frobnicate()",
    "deref": "*RsV",
    "addr": "&RsV",
    "index": "RsV[1]",
    "member": "RsV.x",
    "arrow": "RsV->x",
    "prefix-inc": "++RxV",
    "prefix-dec": "--RxV",
    "complit": "(int32_t){ 1 }",
    "sizeof-type": "sizeof(int32_t)",
    "alignof": "_Alignof(int32_t)",
    "generic": "_Generic(RsV, int: 1, default: 2)",
}
PRE = "RdV = RsV;"
POST = "RddV = RttV;"


def stmt_positions(s):
    return [
        ("first", "{ %s %s %s }" % (s, PRE, POST)),
        ("middle", "{ %s %s %s }" % (PRE, s, POST)),
        ("last", "{ %s %s %s }" % (PRE, POST, s)),
        ("only", "{ %s }" % s),
        ("if-arm", "{ %s if (RtV) { %s } %s }" % (PRE, s, POST)),
        ("else-arm", "{ %s if (RtV) { RdV = 2; } else { %s } %s }" % (PRE, s, POST)),
        ("for-body", "{ %s for (i = 0; i < 2; i++) { %s } %s }" % (PRE, s, POST)),
        ("for-body-mid", "{ for (i = 0; i < 2; i++) { %s %s %s } }" % (PRE, s, POST)),
        ("nested-block", "{ %s { %s } %s }" % (PRE, s, POST)),
        ("stmt-expr", "{ RdV = ({ %s RtV; }); }" % s),
    ]


def expr_positions(e):
    return [
        ("rhs", "{ %s RdV = %s; %s }" % (PRE, e, POST)),
        ("rhs-arith", "{ %s RdV = RtV + %s; %s }" % (PRE, e, POST)),
        ("if-cond", "{ %s if (%s) { RdV = 2; } %s }" % (PRE, e, POST)),
        ("for-cond", "{ for (i = 0; %s; i++) { RdV = i; } }" % e),
        ("for-step", "{ for (i = 0; i < 2; %s) { RdV = i; i++; } }" % e),
        ("for-step2", "{ for (i = 0; i < 2; %s) { RdV = i; i += 1; } }" % e),
        ("call-arg", "{ %s RdV = clz32(%s); %s }" % (PRE, e, POST)),
        ("cond-arm", "{ RdV = RtV ? %s : 3; }" % e),
        ("store-data", "{ mem_store_u32(RsV, %s); }" % e),
        ("expr-stmt", "{ %s %s; %s }" % (PRE, e, POST)),
        ("init", "{ int32_t q = %s; RdV = q; }" % e),
    ]


# constructs that have neither an effect nor transfer control when their value is unused: accepting
# them silently is what a C compiler does too
NO_EFFECT_AS_STATEMENT = {"sizeof-type", "alignof", "generic", "addr", "deref", "index", "member", "arrow", "complit"}


# names of functions that do not exist: short ones, and ones that are a prefix / substring / extension of a name the
# compiler does know (a lookup that is not an exact match would swallow them)
UNKNOWN_NAMES = ["f", "a", "t", "l", "fa", "fat", "fata", "atal", "fatal2", "xfatal", "fatal_", "clz3", "clz320", "xclz32", "mem_loa", "mem_load_", "mem_store_u", "JUM", "JUMPS", "get_np", "get_npcx", "set_usr_fiel", "trapx", "tra",
                 "sizeo", "MEM_STORE", "MEM_STORE00", "WRITE_PRE", "STORE_SLOT_CANCELLE", "extract6", "extract640", "fcirc_ad", "conv_roun", "REGFIEL", "bswap3", "deposit3"]


def space():
    out = []
    for n in UNKNOWN_NAMES:
        for pos, text in [("first", "{ %s(RtV); %s %s }" % (n, PRE, POST)), ("middle", "{ %s %s(RtV); %s }" % (PRE, n, POST)), ("if-arm", "{ %s if (RtV) { %s(RsV); } %s }" % (PRE, n, POST)),
                          ("for-body", "{ for (i = 0; i < 2; i++) { %s(RsV); } }" % n), ("two-args", "{ %s %s(RsV, RtV); %s }" % (PRE, n, POST)),
                          ("rhs", "{ %s RdV = %s(RtV); %s }" % (PRE, n, POST)), ("call-arg", "{ RdV = clz32(%s(RsV)); }" % n)]:
            out.append((("stmt" if pos in ("first", "middle", "if-arm", "for-body", "two-args") else "expr", "unknown-name:" + n, pos), text))
    for k, s in STMTS.items():
        for pos, text in stmt_positions(s):
            out.append((("stmt", k, pos), text))
    for k, e in EXPRS.items():
        for pos, text in expr_positions(e):
            if pos in ("expr-stmt", "for-step", "for-step2") and k in NO_EFFECT_AS_STATEMENT:
                continue  # (the value of the step expression of a for loop is unused as well)
            out.append((("expr", k, pos), text))
    return out


# second half of the property: if code is returned, every statement and side-effecting
# sub-expression is represented in the returned sequence.  Supported (or possibly rejected) forms
# in which an inner effect could be emitted but left out of the sequence:
SEQUENCED = [
    "{ RdV = RxV = RsV; }", "{ RdV = RxV = RyV = RsV; }", "{ RdV = RxV = RyV = ReV = RsV; }", "{ RdV = RxV = i++; }", "{ RdV = RxV = clz32(RsV); }",
    "{ RdV = RxV = get_npc(pkt); }", "{ RdV = RxV = ({ RyV = RsV; RyV + 1; }); }", "{ RdV = (RxV = RsV) + 1; }", "{ if (RsV) { RdV = RxV = RyV = 1; } }",
    "{ for (i = 0; i < 2; i++) { RdV = RxV = i; } }", "{ RdV = RsV; { RxV = RtV; { RyV = RsV; } } }", "{ RdV = RsV ? ({ RxV = 1; 2; }) : ({ RyV = 3; 4; }); }",
    "{ RdV = clz32(RsV) + clz32(RtV) + clz32(RsV + RtV); }", "{ i = 0; i++; i++; RdV = i; }", "{ mem_store_u8(RsV, RtV); mem_store_u8(RsV + 1, RtV); }",
    "{ if (RsV) { JUMP(RtV); } else { JUMP(RsV); } }", "{ set_usr_field(bundle, HEX_REG_FIELD_USR_OVF, 1); RdV = get_usr_field(bundle, HEX_REG_FIELD_USR_OVF); }",
    "{ RdV = ({ RxV = 1; RxV; }); }", "{ RdV = ({ RxV = 1; RyV = 2; RxV; }); }", "{ RdV = ({ RxV = 1; RyV = 2; ReV = 3; RxV; }); }", "{ RdV = ({ RxV = 1; RyV = 2; ReV = 3; RzV = 4; RxV; }); }",
    "{ RdV = RsV ? ({ RxV = 1; RyV = 2; ReV = 3; RxV; }) : 5; }", "{ RdV = ({ RxV = 1; if (RsV) { RyV = 2; } ReV = 3; RxV; }); }", "{ ({ RdV = 1; RxV = 2; RyV = 3; }); }", "{ ({ RdV = 1; RxV = 2; }); ReV = 3; }",
    "{ RdV = 1; ; ; RxV = 2; }", "{ int32_t t = RsV; int32_t u = t + 1; RdV = u; }", "{ RxV += RsV; RxV -= RtV; RxV <<= 1; }",
]
# every kind of expression as the step (and as the initialiser) of a for loop, in several positions
STEPS = ["i++", "i--", "i += 2", "i = i + 1", "i <<= 1", "i = RsV", "RxV = i", "i -= 1", "i = clz32(i)", "i = ({ RyV = i; i + 1; })"]
for _st in STEPS:
    SEQUENCED += ["{ for (i = 1; i < 4; %s) { RdV = i; } }" % _st, "{ if (RsV) { for (i = 1; i < 4; %s) RdV = i; } else { RdV = 0; } }" % _st,
                  "{ for (i = 1; i < 8; %s) { for (j = 0; j < 2; j++) { ReV = i; } } RdV = i; }" % _st, "{ for (%s; i < 4; i++) { RdV = i; } }" % _st.replace("i++", "i = 0").replace("i--", "i = 3")]
# the left operand of && / || is always evaluated: its side effect stays, whatever the right operand is
for _l in ["i++", "i--", "clz32(RsV)", "(RxV = 1)", "({ RyV = 2; RyV; })", "(i += 2)"]:
    for _r in ["&& 0", "|| 1", "&& 1", "|| 0", "&& (1 < 0)", "|| RtV"]:
        SEQUENCED += ["{ RdV = %s %s; }" % (_l, _r), "{ if (%s %s) { RdV = 1; } }" % (_l, _r), "{ RdV = (%s %s) ? RsV : RtV; }" % (_l, _r)]


def seq_work(text):
    comp = _JOB["comp"]
    r = drive.compile_stmt_fresh(comp, text)
    if r[0] != "ok":
        return ("raised", r[1])
    try:
        b = il.parse_body(r[1])
        lin = [e for e in il.check_linearity(b) if "never sequenced" in e]
    except Exception as e:
        lin = ["unreadable: %r" % (e,)]
    # every assignment / store / jump / call of the source must have a counterpart effect
    n_src = len([1 for _ in re.finditer(r"(?<![=!<>+\-*/&|^])=(?!=)|\+\+|--|mem_store_|JUMP\(|set_usr_field\(", text)])
    n_eff = len([d for d in b.decls if d.kind == "effect" and d.expr[0] == "call" and (d.expr[1] in ("SETL", "WRITE_REG", "STOREW", "SEQ2") or d.expr[1].startswith("hex_") or d.expr[1].startswith("HEX_"))])
    return ("accepted", lin[:3], n_src, n_eff, r[1][-500:])


# known findings: (finding id, set of construct keys)
KNOWN = [
    ("KF-argless-call-dropped", {"stmt:unknown-call-noargs", "expr:unknown-call-noargs"}),
    ("KF-void-macro-statement-dropped", {"stmt:void-macro-stmt"}),
]

_JOB = {}


def work(item):
    tag, text = item
    comp = _JOB["comp"]
    r = drive.compile_stmt_fresh(comp, text)
    if r[0] != "ok":
        return ("raised", r[1])
    # text was returned: which declared effects are never sequenced?
    out = r[1]
    try:
        b = il.parse_body(out)
        lin = il.check_linearity(b)
    except Exception as e:
        lin = ["unreadable: %r" % (e,)]
    return ("accepted", out, lin[:3])


def run(ctx):
    comp = drive.get_compiler("stmt")
    items = space()
    pc = drive.ParseCache("c15")
    pc.ensure([t for _tag, t in items] + SEQUENCED, seed=ctx.seed)
    pc.save()
    drive.install_cache(comp, pc)
    _JOB["comp"] = comp
    res = core.pmap(work, items, seed=ctx.seed)
    n_raised = n_parse_rej = 0
    per_construct = {}
    for (tag, text), r in zip(items, res):
        c = per_construct.setdefault(tag[0] + ":" + tag[1], [0, 0])
        if r[0] == "raised":
            n_raised += 1
            c[0] += 1
            continue
        c[1] += 1
        fids = None
        for fid, keys in KNOWN:
            if (tag[0] + ":" + tag[1]) in keys:
                fids = [fid]
        ctx.report(
            {"construct": tag[1], "kind": tag[0], "position": tag[2], "source": text, "returned_text_tail": r[1][-600:], "unsequenced_or_leaked": r[2]},
            fids,
            what="%s `%s` at %s compiled without an error: %s" % (tag[0], tag[1], tag[2], text),
        )
    sres = core.pmap(seq_work, SEQUENCED, seed=ctx.seed)
    n_seq_ok = 0
    for text, r in zip(SEQUENCED, sres):
        if r[0] == "raised":
            continue
        if r[1]:
            ctx.report({"source": text, "unsequenced": r[1], "returned_text_tail": r[4]}, None, what="code returned but an effect is emitted and never sequenced: %s: %s" % (text, r[1][0]))
        elif r[3] < r[2]:
            ctx.report({"source": text, "source_side_effects": r[2], "emitted_effects": r[3], "returned_text_tail": r[4]}, None, what="code returned with fewer effects (%d) than the source has side effects (%d): %s" % (r[3], r[2], text))
        else:
            n_seq_ok += 1
    for (tag, text), r in list(zip(items, res))[:3]:
        ctx.sample({"construct": tag[1], "position": tag[2], "source": text, "outcome": r[0] if r[0] != "raised" else "raised " + r[1]})
    return ctx.finish(
        dict(
            evaluations=len(items),
            distinct_nontrivial=len(set(t for _g, t in items)),
            raised=n_raised,
            sequencing_programs=len(SEQUENCED),
            sequencing_programs_fully_represented=n_seq_ok,
            accepted_silently=len(items) - n_raised,
            per_construct_raised_accepted={k: v for k, v in sorted(per_construct.items())},
            rule="complete cross product of %d unsupported statement forms x 10 statement positions and %d unsupported expression forms x 10 expression positions "
            "(constructs without effect are not placed as statements with unused value); %d unknown function names that are prefixes / substrings / extensions of names the compiler knows x 7 positions; "
            "20 supported programs in which every statement and side-effecting sub-expression must be represented in the returned sequence; each compiled from a fresh state through compile_c_stmt; the call must raise; "
            "every source text is distinct and non-trivial (contains one unsupported construct between supported statements)" % (len(STMTS), len(EXPRS), len(UNKNOWN_NAMES)),
            exhaustive=True,
        ),
        assumptions=["a construct counts as unsupported if the compiler has no translation for it (the property's list)", "constructs without any effect (e.g. a bare sizeof) may be accepted silently, as in C"],
    )


def replay(ctx, path):
    case = json.load(open(path))
    comp = drive.get_compiler("stmt")
    _JOB["comp"] = comp
    r = work((("?", case["construct"], case["position"]), case["source"]))
    print(case["source"], "->", r[0], r[1] if r[0] == "raised" else "")
    if r[0] != "raised":
        print(r[1][-800:])
        print("VIOLATION property=%s replay=%s" % (ctx.pid, path))
        return 1
    return 0
