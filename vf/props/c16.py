"""C16  Both output layouts denote the same effect.

Differential, no reference model: for every accepted corpus part and for the C05/C06 program
spaces, the texts emitted under CodeFormat.READ_STATEMENTS and CodeFormat.EXEC_CLASSES must both
be well-formed, linear and well-sorted, must execute on ILVM to identical final machine states
(registers, memory, jump, slot cancel, every local variable) from every initial state of the E5
domain, and the attribute lists must be equal.
"""
import json

from vf import core, corpus, drive, il, ilvm, prog, sweep, vcheck
from vf.props import c01, c03, c05, c06

LEVEL = "exploration"
EXTRA = c01.EXTRA
_JOB = {}


def final_state(m):
    obs = m.observation()
    obs["locals"] = {k: m.loc[k] for k in sorted(m.loc)}
    return obs


def compare(spec, texts, envs, budget, extra_slots):
    """texts: {'stmt': text, 'exec': text}.  -> dict"""
    out = {"n_states": 0}
    cps = {}
    for f in ("stmt", "exec"):
        try:
            cps[f] = prog.Compiled(spec, texts[f], envs[f])
        except Exception as e:
            out.update(status="unreadable", detail="%s: %r" % (f, e))
            return out
        st = cps[f].static_errors()
        bad = {k: v[:2] for k, v in st.items() if v}
        if bad:
            out.setdefault("static", {})[f] = bad
    slots, states = prog.states_for(spec, cps["stmt"].ops, budget, extra_slots)
    out["n_states"] = len(states)
    ndiff = 0
    nub = 0
    for vec in states:
        res = {}
        for f in ("stmt", "exec"):
            try:
                res[f] = ("ok", final_state(cps[f].run_il(slots, vec)))
            except ilvm.HelperUB:
                res[f] = ("ub",)
            except ilvm.ILError as e:
                res[f] = ("err", e.kind)
        if res["stmt"][0] == "ub" and res["exec"][0] == "ub":
            nub += 1
            continue
        if res["stmt"] != res["exec"]:
            ndiff += 1
            if "first" not in out:
                a, b = res["stmt"], res["exec"]
                d = "stmt %s / exec %s" % (a[0], b[0])
                if a[0] == "ok" and b[0] == "ok":
                    keys = [k for k in a[1] if a[1][k] != b[1][k]]
                    d = "differs in %s: stmt %s / exec %s" % (keys, str({k: a[1][k] for k in keys})[:200], str({k: b[1][k] for k in keys})[:200])
                out["first"] = {"state": dict(zip([s[0] for s in slots], vec)), "detail": d}
    out["n_diff"] = ndiff
    out["n_ub"] = nub
    out["status"] = "differ" if ndiff else "equal"
    return out


def corpus_work(item):
    name, pi, part, ts, ms = item
    spec = c01.BehSpec(name, pi, part)
    r = compare(spec, ts, _JOB["envs"], _JOB["budget"], EXTRA)
    r["id"] = "%s#%d" % (name, pi)
    if ms["stmt"] != ms["exec"]:
        r["meta_differs"] = ms
    return r


def prog_work(spec):
    comps = _JOB["comps"]
    ts = {}
    for f in ("stmt", "exec"):
        r = drive.compile_stmt_fresh(comps[f], spec.text)
        ts[f] = r
    if ts["stmt"][0] != ts["exec"][0]:
        return {"status": "acceptance-differs", "detail": "stmt %s / exec %s" % (ts["stmt"][:2], ts["exec"][:2]), "text": spec.text}
    if ts["stmt"][0] != "ok":
        return {"status": "rejected", "text": spec.text}
    r = compare(spec, {f: ts[f][1] for f in ts}, _JOB["envs"], _JOB["budget"], _JOB["extra_slots"])
    r["text"] = spec.text
    return r


META_FOLDS = [
    "{ EA = RsV; RdV = (1 ? RtV : mem_load_s32(EA)); }", "{ RdV = 0 ? mem_load_u8(RsV) : RtV; }", "{ RdV = 1 ? RtV : PuN; }", "{ RdV = 0 ? P0_NEW : RtV; }", "{ RdV = 1 ? RtV : mem_load_u8(RsV) + mem_load_u8(RtV); }",
    "{ RdV = mem_load_u8(RsV); RxV = 1 ? RtV : mem_load_u8(RtV); }", "{ RdV = sizeof(mem_load_u32(RsV)); }", "{ RdV = 1 ? RtV : ({ mem_store_u8(RsV, RtV); 3; }); }", "{ RdV = 0 ? ({ JUMP(riV); 1; }) : RtV; }",
    "{ PdV = 1 ? RsV : RtV; }", "{ RdV = 1 ? RsV : (P0 = RtV); }", "{ if (1 < 2) { RdV = RsV; } }", "{ if (2 < 1) { JUMP(riV); } }",
]


def meta_work(text):
    """Attribute lists of one generated part under both layouts (through transform_insn, from a fresh state)."""
    out = {}
    pc = _JOB["meta_pc"]
    r = pc.get(text)
    if r[0] != "ok":
        return ("parse-rejected",)
    for f in ("stmt", "exec"):
        v = drive.transform_fresh(_JOB["comps"][f], "V16_meta", [r[1]], [text])
        out[f] = ("ok", v[1]["meta"], v[1]["needs_hi"], v[1]["needs_pkt"]) if v[0] == "ok" else ("exc", v[1])
    return ("done", out)


def space(tier):
    sp = c05.space("quick") + c06.space("quick") + [s for s in c03.space("quick") if s.tag[0] in ("init", "binit", "bassign", "bcast", "breg", "bstore", "chain-assign", "store", "reg")]
    if tier == "thorough":
        sp = c05.space("thorough") + c06.space("thorough") + c03.space("quick")
    # calls with every kind of argument expression in every statement context (void calls; thorough: all)
    from vf import staticprops

    calls = staticprops.gen_calls(staticprops.CALL_ARGS[:6] if tier == "quick" else staticprops.CALL_ARGS)
    sp = sp + [s for s in calls if tier == "thorough" or s.tag[0] == "vcall" or (s.tag[3] in ("unused", "unused-after", "rhs") and s.tag[2] in staticprops.CALL_ARGS[:4])]
    # every assignment operator on narrow / wide local, register, pair and predicate targets
    sp = sp + staticprops.gen_assignments(["int8_t", "uint16_t", "int32_t", "uint64_t"] if tier == "quick" else staticprops.T8, ["int8_t", "uint8_t", "int32_t", "uint64_t"] if tier == "quick" else staticprops.T8)
    # folded-away conditional arms (the two layouts collect the remaining operations differently)
    fold = [s for s in staticprops.gen_folding() if s.tag[0].startswith("cfold")]
    sp = sp + [s for s in fold if tier == "thorough" or s.tag[0] in ("cfold4", "cfold5", "cfold6", "cfold7", "cfold8") or s.tag[1] in ("0", "1")]
    # every way to update a register-like target next to reads of it (the layouts emit reads and writes in different orders)
    sp = sp + staticprops.gen_reg_updates()
    return sp


def warm_specs(tier):
    return []


def run(ctx):
    budget = 24 if ctx.tier == "quick" else 256
    comps = {f: drive.get_compiler(f) for f in ("stmt", "exec")}
    envs = {f: prog.Env(comps[f]) for f in comps}
    _JOB.update(comps=comps, envs=envs, budget=budget, extra_slots=[("usr", 32, "input")])
    beh, _pc = corpus.parsed_corpus(ctx.seed)
    rs = corpus.compile_corpus("stmt", ctx.seed)
    re_ = corpus.compile_corpus("exec", ctx.seed)
    items = []
    n_acc_diff = 0
    for name in sorted(rs):
        a, b = rs[name], re_[name]
        if (a[0] == "ok") != (b[0] == "ok"):
            n_acc_diff += 1
            ctx.report({"insn": name, "stmt": a[:2] if a[0] != "ok" else "ok", "exec": b[:2] if b[0] != "ok" else "ok"}, None, what="%s is accepted in one layout only" % name)
            continue
        if a[0] != "ok":
            continue
        for pi, part in enumerate(beh[name]):
            items.append((name, pi, part, {"stmt": a[1]["rzil"][pi], "exec": b[1]["rzil"][pi]}, {"stmt": a[1]["meta"][pi], "exec": b[1]["meta"][pi]}))
    out = core.pmap(corpus_work, items, seed=ctx.seed)
    n_states = 0
    n_equal = 0
    for it, r in zip(items, out):
        n_states += r.get("n_states", 0)
        if r.get("meta_differs"):
            ctx.report({"part": r["id"], "meta": r["meta_differs"]}, None, what="%s: attribute lists differ between layouts: %s" % (r["id"], r["meta_differs"]))
        if r.get("static"):
            ctx.report({"part": r["id"], "static": r["static"]}, None, what="%s: a layout is not well-formed/linear/well-sorted: %s" % (r["id"], str(r["static"])[:200]))
        if r["status"] == "equal":
            n_equal += 1
        else:
            ctx.report({"part": r["id"], "behaviour": it[2][:1000], "first": r.get("first"), "detail": r.get("detail")}, None, what="%s: layouts differ: %s" % (r["id"], str(r.get("first") or r.get("detail"))[:300]))
    ctx.log("corpus: %d parts, %d equal" % (len(items), n_equal))
    # generated programs
    specs = space(ctx.tier)
    pc = drive.ParseCache(("c05-%s" % ctx.tier))
    for other in ("c06-%s" % ctx.tier, "c03-quick", "static-%s" % ctx.tier):
        pc.z.update(drive.ParseCache(other).z)
    pc.ensure([s.text for s in specs], seed=ctx.seed)
    for f in comps:
        drive.install_cache(comps[f], pc)
    _JOB["budget"] = 48 if ctx.tier == "quick" else 200
    pres = core.pmap(prog_work, specs, seed=ctx.seed)
    n_prog_equal = n_rej = 0
    known_static = 0
    for s, r in zip(specs, pres):
        n_states += r.get("n_states", 0)
        if r["status"] == "rejected":
            n_rej += 1
        elif r["status"] == "equal":
            n_prog_equal += 1
            if r.get("static"):
                # static defects of generated programs are owned by C10-C12 (same in both layouts or not):
                # here only a defect present in ONE layout is a C16 matter
                fs = r["static"]
                if set(fs) != {"stmt", "exec"} or fs["stmt"].keys() != fs["exec"].keys():
                    # a defect of one layout only: known if every message is explained by a listed static finding
                    from vf import staticprops as _sp

                    fids = set()
                    unexplained = False
                    for f_, cols in fs.items():
                        for col, msgs in cols.items():
                            for m_ in msgs:
                                fid = _sp.attribute(col, m_, s.text)
                                if fid:
                                    fids.add(fid)
                                else:
                                    unexplained = True
                    ctx.report({"program": r["text"], "static": fs}, None if unexplained else sorted(fids), what="only one layout is well-formed: %s: %s" % (r["text"][-100:], str(fs)[:200]))
                else:
                    known_static += 1
        else:
            ctx.report({"program": r["text"], "status": r["status"], "first": r.get("first"), "detail": r.get("detail")}, None, what="layouts differ for %s: %s" % (r["text"][-120:], str(r.get("first") or r.get("detail"))[:300]))
    # attribute lists and companion flags of generated parts (every attribute-relevant construct and spelling, and
    # constructs inside folded-away arms) must be the same in both layouts
    from vf.props import c13

    mtexts = [t for _g, t in c13.part_space(ctx.tier)] + META_FOLDS
    mpc = drive.ParseCache("c13-parts")
    mpc.ensure(mtexts, seed=ctx.seed)
    _JOB["meta_pc"] = mpc
    n_meta = n_meta_rej = 0
    for t, r in zip(mtexts, core.pmap(meta_work, mtexts, seed=ctx.seed)):
        if r[0] != "done":
            continue
        a, b = r[1]["stmt"], r[1]["exec"]
        if a[0] != b[0]:
            ctx.report({"part": t, "stmt": a[:2], "exec": b[:2]}, None, what="generated part %s is accepted in one layout only" % t)
        elif a[0] == "ok":
            n_meta += 1
            if a[1:] != b[1:]:
                ctx.report({"part": t, "meta_stmt": a[1], "meta_exec": b[1], "flags_stmt": a[2:], "flags_exec": b[2:]}, None, what="generated part %s: attributes / flags differ between layouts: %s vs %s" % (t, a[1:], b[1:]))
        else:
            n_meta_rej += 1
    ctx.sample({"part": out[0]["id"], "states": out[0]["n_states"], "status": out[0]["status"]})
    ctx.sample({"program": pres[0]["text"], "status": pres[0]["status"], "states": pres[0].get("n_states")})
    return ctx.finish(
        dict(
            evaluations=n_states,
            distinct_nontrivial=n_equal + n_prog_equal,
            rule="every accepted corpus part (both layouts must accept the same definitions) and every program of the C05, C06 and C03 (declaration / boolean / store / register) spaces, void and value calls x argument kinds x statement contexts, all assignment operators on narrow / wide targets and folded conditionals compiled under both CodeFormat values from a fresh state; both texts statically checked; "
            "both executed by ILVM on the complete E5 domain of the operands (corpus %d, programs %d states each); compared: pending registers, memory, jump, slot cancel and every local variable; attribute lists compared per part; "
            "distinct_nontrivial = parts/programs with equal non-empty behaviour in both layouts" % (budget, _JOB["budget"]),
            exhaustive=True,
            corpus_parts=len(items),
            corpus_parts_equal=n_equal,
            acceptance_differences=n_acc_diff,
            programs=len(specs),
            programs_equal=n_prog_equal,
            programs_rejected_in_both=n_rej,
            programs_with_same_static_defect_in_both_layouts=known_static,
            generated_parts_attributes_compared=n_meta,
            generated_parts_rejected_in_both=n_meta_rej,
        ),
        assumptions=["ILVM semantics (both layouts are executed by the same model, so only the emitted structure is compared)"],
    )


def replay(ctx, path):
    case = json.load(open(path))
    comps = {f: drive.get_compiler(f) for f in ("stmt", "exec")}
    envs = {f: prog.Env(comps[f]) for f in comps}
    _JOB.update(comps=comps, envs=envs, budget=256, extra_slots=[("usr", 32, "input")])
    if "program" in case:
        for s_ in space("thorough"):
            if s_.text == case["program"]:
                r = prog_work(s_)
                print(json.dumps(r, indent=1, default=str)[:2500])
                if r["status"] in ("differ", "acceptance-differs", "unreadable"):
                    print("VIOLATION property=%s replay=%s" % (ctx.pid, path))
                    return 1
                return 0
        print("program not in the space any more")
        return 0
    name = case.get("part", case.get("insn", "")).split("#")[0]
    pi = int(case["part"].split("#")[1]) if "part" in case else 0
    beh, _pc = corpus.parsed_corpus(ctx.seed)
    a = corpus.compile_corpus("stmt", ctx.seed, names=[name])[name]
    b = corpus.compile_corpus("exec", ctx.seed, names=[name])[name]
    if a[0] != "ok" or b[0] != "ok":
        print("acceptance:", a[:2], b[:2])
        if (a[0] == "ok") != (b[0] == "ok"):
            print("VIOLATION property=%s replay=%s" % (ctx.pid, path))
            return 1
        return 0
    r = corpus_work((name, pi, beh[name][pi], {"stmt": a[1]["rzil"][pi], "exec": b[1]["rzil"][pi]}, {"stmt": a[1]["meta"][pi], "exec": b[1]["meta"][pi]}))
    print(json.dumps(r, indent=1, default=str)[:2500])
    if r["status"] != "equal" or r.get("meta_differs") or r.get("static"):
        print("VIOLATION property=%s replay=%s" % (ctx.pid, path))
        return 1
    return 0
