"""C17  The grammar parses with C structure, deterministically.

(A) generated token-level strings (families below, enumerated completely), (B) every corpus part the
real parser accepts: normalised Lark tree == normalised reference AST (vf.cparse, written from the C11
grammar) - same structure, same operator at every node, same class for every leaf (register / .new
register / explicit register / alias / immediate / number / identifier; the expected class comes from
drive.scan_operands).  (C) determinism: digests of the raw trees are identical under PYTHONHASHSEED
in {0,1,2,3,12345} (separate interpreter processes, parser built by the real Compiler.set_lark_parser),
for one parser object parsing the list forwards and then backwards, for a fresh parser per string, for
Compiler.parser.parse and for rzilcompiler.Parser.parse_single.

A mismatch is attributed to a recorded finding only if the Lark tree is EXACTLY what the finding's
rule predicts: every rule is a transformation of the text (K_PTR, K_KWSPLIT, K_INCSPLIT, K_CASTID), of the choice
of else binding (K_ELSE) or of the reference AST (K_ARGLESS, K_KWID, K_JUMPELSE, K_PAIR) such that the
reference parse of the transformed input equals the Lark tree (explain()).  Any other mis-parse of the same
construct is a VIOLATION.  Proposed known-finding entries: vf/props/c17.findings.json.

Outside the dialect on purpose (never generated; if met they would be reported): top-level
declarations without braces (fbody: stmt*), integer suffixes other than LL ULL U u ull ll, octal and
character literals, brace initialisers in declarations, declarations without a type specifier and struct /
union / enum types, calls through a parenthesised callee `(f)(x)` (sub_routine: identifier "(" ..), a
statement-expression whose last item is not an expression statement, `a & &b`, strings that are not C (e.g. `a--b`).
"""
import itertools
import json
import os
import re
import subprocess
import sys
import hashlib

from vf import core, cparse, drive
from vf import larknorm as N

LEVEL = "exploration"

HASH_SEEDS = [0, 1, 2, 3, 12345]

K_PTR = "KF-C17-ptr-terminal-swallows-neighbours"
K_ARGLESS = "KF-C17-argless-call-is-identifier"  # the parse half of KF-argless-call-dropped (C15)
K_PAIR = "KF-C17-explicit-pair-at-statement-start-is-label"
K_KWID = "KF-C17-keyword-read-as-identifier"
K_KWSPLIT = "KF-C17-keyword-prefix-splits-identifier"
K_INCSPLIT = "KF-C17-incdec-read-as-two-operators"
K_ELSE = "KF-C17-dangling-else-binds-outermost-if"
K_JUMPELSE = "KF-C17-jump-before-else-is-sub-routine"
K_CASTID = "KF-C17-cast-read-as-parenthesised-identifier"

# ---------------------------------------------------------------------------------------
# (A) the string space

BINOPS = ["*", "/", "%", "+", "-", "<<", ">>", "<", ">", "<=", ">=", "==", "!=", "&", "^", "|", "&&", "||"]
LEVEL_OF = {"*": 0, "/": 0, "%": 0, "+": 1, "-": 1, "<<": 2, ">>": 2, "<": 3, ">": 3, "<=": 3, ">=": 3, "==": 4, "!=": 4, "&": 5, "^": 6, "|": 7, "&&": 8, "||": 9}
ASSIGN = ["=", "*=", "/=", "%=", "+=", "-=", "<<=", ">>=", "&=", "^=", "|="]
PREFIX = ["-", "~", "!", "+", "(int32_t)", "(uint8_t)"]
CAST_TYPES = ["int32_t", "uint8_t", "int64_t", "uint64_t", "size4u_t", "size8s_t", "int", "unsigned", "long long", "unsigned int"]
DECL_TYPES = ["int32_t", "uint8_t", "int16_t", "uint64_t", "size1s_t", "size2u_t", "size8u_t", "int", "unsigned", "long long", "const int32_t"]


def W(e):
    return "{ r = %s; }" % e


def adjacent(o1, o2):
    return abs(LEVEL_OF[o1] - LEVEL_OF[o2]) <= 1


def fam_binary(tier):
    out = []
    for o1 in BINOPS:
        for o2 in BINOPS:
            out.append(("bin-pair", W("a %s b %s c" % (o1, o2))))
    for o1 in BINOPS:
        for o2 in BINOPS:
            for o3 in BINOPS:
                if tier == "thorough" or (adjacent(o1, o2) and adjacent(o2, o3)):
                    out.append(("bin-triple", W("a %s b %s c %s d" % (o1, o2, o3))))
    return out


def fam_prefix(tier):
    out = []
    for o in BINOPS:
        for p in PREFIX:
            out.append(("prefix-bin", W("%sa %s b" % (p, o))))
            out.append(("prefix-bin", W("a %s %sb" % (o, p))))
    for o1 in BINOPS:
        for o2 in BINOPS:
            if tier != "thorough" and not adjacent(o1, o2):
                continue
            for p in ["-", "!", "(int32_t)", "(uint8_t)"] if tier == "thorough" else ["-"]:
                out.append(("prefix-pair", W("%sa %s b %s c" % (p, o1, o2))))
                out.append(("prefix-pair", W("a %s %sb %s c" % (o1, p, o2))))
                out.append(("prefix-pair", W("a %s b %s %sc" % (o1, o2, p))))
    for p in PREFIX:
        for q in PREFIX:
            out.append(("prefix-stack", W("%s%sa" % (p, q))))
            out.append(("prefix-stack", W("%s %sa" % (p, q))))
            out.append(("prefix-stack", W("%s%sa * b" % (p, q))))
            if tier == "thorough":
                out.append(("prefix-stack", W("b - %s%sa" % (p, q))))
                for s in PREFIX:
                    out.append(("prefix-stack", W("%s %s %sa" % (p, q, s))))
    return out


def cond_shapes(d):
    """texts of ?: nests: arms are leaves or nests, depth <= d; placeholders C and X"""
    if d == 0:
        return ["X"]
    sub = cond_shapes(d - 1)
    out = ["X"]
    for a in sub:
        for b in sub:
            out.append("C ? %s : %s" % (a, b))
    return out


def number_placeholders(s):
    n = {"C": 0, "X": 0}

    def rep(m):
        k = m.group(0)
        n[k] += 1
        return "%s%d" % (k.lower(), n[k])

    return re.sub(r"\b[CX]\b", rep, s)


def fam_cond(tier):
    out = []
    for s in sorted(set(cond_shapes(3))):
        if s != "X":
            out.append(("cond-nest", W(number_placeholders(s))))
    for o in BINOPS:
        out.append(("cond-bin", W("a %s b ? c : d" % o)))
        out.append(("cond-bin", W("a ? b %s c : d" % o)))
        out.append(("cond-bin", W("a ? b : c %s d" % o)))
        out.append(("cond-bin", W("a ? b : c ? d : e %s f" % o)))
    for p in PREFIX:
        out.append(("cond-prefix", W("%sa ? b : c" % p)))
        out.append(("cond-prefix", W("a ? %sb : %sc" % (p, p))))
    out += [
        ("cond-misc", W("a ? b, c : d")),
        ("cond-misc", W("a ? b = c : d")),
        ("cond-misc", W("a ? (b = c) : (d = e)")),
        ("cond-misc", W("(a ? b : c) ? d : e")),
        ("cond-misc", W("a ? (b ? c : d) : e")),
        ("cond-misc", W("a ? b : (c ? d : e)")),
        ("cond-misc", "{ a ? b : c; }"),
        ("cond-misc", "{ x = a ? b : c ? d : e; y = f; }"),
    ]
    return out


def fam_assign(tier):
    out = []
    for o1 in ASSIGN:
        for o2 in ASSIGN:
            out.append(("assign-nest", "{ a %s b %s c; }" % (o1, o2)))
    for o1 in ASSIGN:
        for o in BINOPS:
            out.append(("assign-bin", "{ a %s b %s c; }" % (o1, o)))
        out.append(("assign-cond", "{ a %s b ? c : d; }" % o1))
        out.append(("assign-cond", "{ a %s b ? c : (d %s e); }" % (o1, o1)))
        out.append(("assign-nest", "{ a %s b %s c %s d; }" % (o1, o1, o1)))
        out.append(("assign-nest", "{ a = b %s c = d; }" % o1))
        out.append(("assign-lhs", "{ RdV %s a; }" % o1))
        out.append(("assign-lhs", "{ a %s b, c %s d; }" % (o1, o1)))
    return out


def fam_cast(tier):
    out = []
    for T in CAST_TYPES if tier == "thorough" else CAST_TYPES[:3] + CAST_TYPES[6:9]:
        forms = [
            "(%s)x", "(%s)+y", "(%s)-x", "(%s)(x)", "(%s)(x)+y", "(%s)x+y", "(%s)(x+y)", "((%s)x)", "(%s)~x", "(%s)!x", "(%s)x++",
            "(%s)x * y", "(%s)x << 2", "-(%s)x", "~(%s)x", "(%s)(x) * (y)", "(%s)(x, y)", "(%s)f(x)", "(%s)x ? y : z", "(%s)(uint16_t)x", "sizeof(%s)", "sizeof(%s) + 1",
            "(%s)RsV", "(%s)siV", "(%s)0x10", "(%s)({ a; b; })", "b - (%s)-x", "b - (%s)+x", "b + (%s)-x", "b * (%s)-x", "b - (%s)*x", "b - (%s)~x", "b - (%s)x - y", "b << (%s)-x",
        ]
        for f in forms:
            out.append(("cast-vs-paren", W(f % T)))
    for e in ["(x)", "(x)+y", "(x)-y", "(x)*y", "(x) * y", "((x))", "(x) + (y)", "((x)+y)", "-(x)", "~(x)", "!(x)", "(x)++", "(x) ? (y) : (z)", "(a + b) * c", "a * (b + c)", "(a, b)",
              "(a = b)", "(a) << (b)", "(RsV)", "(siV) + (RtV)", "(0x10)", "f((x))", "f((x), (y))", "sizeof(x)", "sizeof x", "sizeof (x) + 1", "sizeof x + 1", "sizeof -x"]:  # `(f)(x)` is out: calls are by name (sub_routine: identifier "(" ..)
        out.append(("cast-vs-paren", W(e)))
    out.append(("cast-vs-paren", "{ (x) = y; }"))
    out.append(("cast-vs-paren", "{ (int32_t)x; }"))
    out.append(("cast-vs-paren", "{ r = (const int32_t)x; }"))
    out.append(("cast-vs-paren", "{ r = (int32_t *)x; }"))
    return out


def fam_amp(tier):
    out = []
    pairs = [("a", "b"), ("aa", "bb"), ("a", "bb"), ("aa", "b"), ("1", "xy"), ("x", "0xff"), ("xx", "0xff"), ("a", "10"), ("RsV", "1"), ("1", "RsV"), ("RsV", "RtV"), ("a", "f(x)"), ("1", "f(x)"),
             ("1", "ctpop64(x)"), ("f(x)", "1"), ("a", "(b)"), ("(a)", "b"), ("(a)", "(b)"), ("a", "-b"), ("a", "~b"), ("a", "!b"), ("a", "(int32_t)b"), ("a", "b++"), ("a++", "b"), ("siV", "UiV")]
    for (x, y) in pairs:
        for amp in ["&", "&&"]:
            for l, r in [("", ""), (" ", " "), (" ", ""), ("", " ")]:
                out.append(("amp-blanks", W("%s%s%s%s%s" % (x, l, amp, r, y))))
    ctx = ["%s | c", "c == %s", "c + %s", "%s + c", "c && %s", "%s && c", "c & %s", "%s & c", "c&%s", "%s&c", "c&&%s", "%s&&c", "(%s)", "f(%s)", "c ? %s : d", "-%s"]
    for c in ctx:
        for e in ["a&b", "a & b", "a&&b", "a && b", "aa&bb"]:
            out.append(("amp-context", W(c % e)))
    for e in ["a&b&c", "a & b & c", "a&b&&c", "a&&b&c", "a & b && c", "a && b & c", "a&&b&&c", "aa&bb&cc", "aa&&bb&cc", "a &= b", "a &= b & c", "a &= b && c", "a&=b", "a &=b", "a&= b"]:
        out.append(("amp-chain", W(e) if "=" not in e else "{ %s; }" % e))
    for e in ["f( & a)", "f(&a)", "f( &a)", "f(& a)", " & a", "&a", "b + & a", "* p", "*p", "a * *p", "a * * p", "a**p", "f(*p)", "f( * p)"]:
        out.append(("amp-unary", W(e)))
    out.append(("amp-unary", "{ *p = 1; }"))
    out.append(("amp-unary", "{ * p = a & b; }"))
    return out


def fam_postfix(tier):
    es = ["a++ + b", "a+++b", "a + ++b", "a++ - b", "a---b", "a-- - b", "a - --b", "a++ * b", "-a++", "~a--", "!a++", "(int32_t)a++", "a+ +b", "a- -b", "a - -b", "a + +b", "a + -b", "a - +b", "a+-b", "a-+b",
          "++a", "--a", "++a + b", "a + b++", "a++ + ++b", "a++ + b++", "- -a", "-(-a)", "a++ ? b-- : --c", "a[i]++", "a[i++]", "a[i] + b[j]", "a[i][j]", "p->q++", "++p->q", "p->q + s.t", "-p->q", "(int32_t)p->q", "f(x) + a++"]
    out = [("postfix", W(e)) for e in es]
    out += [("postfix", "{ a++; }"), ("postfix", "{ ++a; }"), ("postfix", "{ a--; b++; }"), ("postfix", "{ a = b++; }"), ("postfix", "{ RxV++; }"), ("postfix", "{ a++, b--; }")]
    return out


def if_shapes(d):
    if d == 0:
        return ["X;"]
    sub = if_shapes(d - 1)
    out = ["X;"]
    for a in sub:
        out.append("if (C) %s" % a)
        for b in sub:
            out.append("if (C) %s else %s" % (a, b))
    return out


def fam_else(tier):
    out = []
    for s in sorted(set(if_shapes(3))):
        if s != "X;":
            out.append(("dangling-else", "{ %s }" % number_placeholders(s)))
    hand = [
        "{ if (c1) { if (c2) x1; } else x2; }",
        "{ if (c1) { if (c2) x1; else x2; } }",
        "{ if (c1) if (c2) { x1; } else { x2; } }",
        "{ if (c1) { x1; } else if (c2) { x2; } else { x3; } }",
        "{ if (c1) { x1; } else { if (c2) { x2; } else { x3; } } }",
        "{ if (c1) x1; else if (c2) x2; else if (c3) x3; else x4; }",
        "{ if (c1) for (;;) if (c2) x1; else x2; }",
        "{ if (c1) for (;;) if (c2) x1; else x2; else x3; }",
        "{ if (c1) while (c2) if (c3) x1; else x2; else x3; }",
        "{ for (;;) if (c1) x1; else x2; }",
        "{ while (c1) if (c2) if (c3) x1; else x2; }",
        "{ if (c1) x1; x2; }",
        "{ if (c1) x1; else x2; x3; }",
        "{ if (c1) if (c2) x1; else x2; x3; }",
        "{ if (c1) ; else x1; }",
        "{ if (c1) x1; else ; }",
        "{ if (c1) { } else { } }",
        "{ if (c1) { } else x1; }",
        "{ if (a && b || c) x1; else x2; }",
        "{ if (a = b) x1; }",
        "{ if (a, b) x1; }",
        "{ if (RsV & 1) RdV = 1; else RdV = 0; }",
        "{ if (c1) r = ({ if (c2) x1; else x2; v; }); else x3; }",
        "{ if (c1) do if (c2) x1; else x2; while (c3); else x3; }",
        "{ if (c1) switch (s) { case 1: if (c2) x1; else x2; } else x3; }",
        "{ if (c1) L: if (c2) x1; else x2; }",
    ]
    out += [("else-hand", h) for h in hand]
    return out


def nest_text(kinds, variant):
    def build(i):
        if i == len(kinds):
            return "x%d = %d;" % (i, i)
        inner = build(i + 1)
        pre = "p%d; " % i if variant & 1 else ""
        post = " q%d;" % i if variant & 2 else ""
        if kinds[i] == "B":
            return "{ %s%s%s }" % (pre, inner, post)
        return "v%d = ({ %s%s%s t%d; });" % (i, pre, inner, post, i)

    s = build(0)
    return s if kinds[0] == "B" else "{ %s }" % s


def fam_nest(tier):
    out = []
    for d in range(1, 7):
        if tier == "thorough" or d <= 3:
            kss = ["".join(k) for k in itertools.product("BE", repeat=d)]
        else:
            kss = ["B" * d, "E" * d, ("BE" * d)[:d], ("EB" * d)[:d]]
        for ks in kss:
            if ks[0] == "E" and d == 6:
                ks = ks[:5]  # the wrapping braces are the sixth level
            for v in range(4):
                out.append(("nest", nest_text(ks, v)))
    hand = [
        "{ }", "{ { } }", "{ ; }", "{ x; }", "{ x; };", "{ x; y; };", "{ { x; }; y; }", "{ { x; y; }; z; }", "{ x; { } y; }", "{ x; ; y; }", "{ x; { y; } { z; } }", "x;", "x; y;", "{ x; } { y; }", "{ x; } y;",
        W("a + ({ b; c; }) * d"), W("c ? ({ a; b; }) : ({ d; e; })"), W("f(({ a; b; }), c)"), "{ if (({ a; b; })) x; }", W("({ int32_t t = x; t; })"), W("({ int32_t t; t = x; t + 1; })"),
        W("({ a; })"), W("(({ a; b; }))"), W("({ a; b; }) + ({ c; d; })"), W("-({ a; b; })"), W("(int32_t)({ a; b; })"), W("({ a; ({ b; c; }); })"), W("({ if (c) x; else y; z; })"),
        W("({ for (i = 0; i < 2; i++) { x; } z; })"), "{ ({ a; b; }); }", "{ ({ a; b; }); c; }", "{ r = ({ a; b; }); s = ({ c; d; }); }",
    ]
    out += [("nest-hand", h) for h in hand]
    return out


def fam_loops(tier):
    out = []
    inits = ["", "i = 0", "int32_t i = 0", "int i", "i = 0, j = 1"]
    conds = ["", "i < 4", "i < 4 && j"]
    steps = ["", "i++", "i++, j--", "i += 1"]
    bodies = ["x;", "{ x; }", ";", "{ }", "{ x; y; }"]
    for i in inits:
        for c in conds:
            for s in steps:
                for b in bodies if tier == "thorough" else bodies[:1]:
                    out.append(("for-header", "{ for (%s; %s; %s) %s }" % (i, c, s, b)))
    for b in bodies[2:]:
        out.append(("for-header", "{ for (;;) %s }" % b))
        out.append(("for-header", "{ for (i = 0; i < 4; i++) %s }" % b))
    out += [("loops", t) for t in [
        "{ while (c) x; }", "{ while (c) { x; y; } }", "{ while (a < b && c) x; }", "{ do x; while (c); }", "{ do { x; y; } while (c); }", "{ do x; while (c); y; }",
        "{ for (i = 0; i < 2; i++) for (j = 0; j < 2; j++) x; }", "{ for (i = 0; i < 2; i++) { for (j = 0; j < 2; j++) { x; } y; } }", "{ while (a) while (b) x; }", "{ while (c) { break; } }", "{ while (c) { continue; } }",
        "{ while (c) break; }", "{ for (;;) { if (c) break; x; } }", "{ do do x; while (a); while (b); }", "{ while (c) ; }", "{ for (i = 0; i < 2; i++) ; x; }",
    ]]
    return out


def fam_decl(tier):
    out = []
    for T in DECL_TYPES if tier == "thorough" else DECL_TYPES[::2]:
        for d in ["x", "x = 1", "x = a + b", "x = (int32_t)a", "x, y", "x = 1, y", "x, y = 2", "x = a ? b : c", "x = RsV", "x = f(a, b)", "x = ({ a; b; })"]:
            out.append(("declaration", "{ %s %s; }" % (T, d)))
    out += [("declaration", t) for t in ["{ int32_t x; x = 1; }", "{ int32_t x; int32_t y; y = x; }", "{ x = 1; int32_t y; }", "{ int32_t x = 1; { int32_t y = x; } }", "{ if (c) { int32_t x; x = 1; } }", "{ for (int32_t i = 0; i < 2; i++) { uint8_t t = i; } }",
                                    "{ int32_t *p; }", "{ int32_t *p = q; }", "{ unsigned long long x; }", "{ long x; }", "{ short x; char y; }", "{ signed char x; }"]]
    return out


REG_CLASSES = "CNPRMQVO"
REG_LETTERS = ["s", "t", "u", "v", "w", "d", "e", "x", "y", "z", "ss", "tt", "uu", "vv", "dd", "xx", "yy"]
IMM_LETTERS = "rRsSuUmn"
EXPL_CLASSES = "RCPVQMGS"
ALIASES = ["LR", "PC", "SP", "FP", "GP", "UGP", "USR", "SA0", "LC0", "SA1", "LC1", "M0", "M1", "CS0", "CS1", "UPCYCLE", "PKTCOUNT", "UTIMER", "P3"]
LOOKALIKES = [
    "RdVal", "Rs", "RsVV", "RsV2", "xRsV", "_RsV", "Rsv", "rsV", "RaV", "RssVx", "RsssV", "Rst", "RsV_", "RsNN", "RsNx", "R", "V", "N", "RV", "RsVN", "Rss", "Rsss", "Rdd", "LsV", "Rs_V",
    "siV2", "si", "siVx", "iV", "xiV", "siv", "siN", "ssiV", "s", "u", "siV_", "aiV", "SiV", "UiVx",
    "P0x", "P", "P4", "R32", "R44", "R0_NEWx", "R0_NE", "R0_new", "xP0", "_P0", "P0_", "R1_0", "L0", "r0", "P00x", "R333", "P0N", "P0V",
    "HEX_REG_ALIAS", "HEX_REG_ALIAS_", "HEX_REG_ALIAS_lr", "HEX_REG_ALIAS_LR_NEWx", "HEX_REG_ALIAS_LR_", "HEX_REG_ALIA_LR", "HEX_REG_ALIAS_P3_0", "hex_reg_alias_LR", "XHEX_REG_ALIAS_LR",
    "EA", "tmp", "i", "pkt", "hi", "bundle", "fSF_BIAS", "HEX_EXCP", "x0", "x_1", "_", "__x", "a1b2",
]
KEYWORDISH = ["returnx", "sizeofx", "elsex", "gotox", "intx", "forx", "iffy", "dox", "done", "breakx", "whilex", "casex", "defaultx", "longx", "int32_tx", "uint8_tx", "size4u_tx", "voidx", "unsignedx",
              "format", "interval", "double_x", "floaty", "shorty", "charx", "switchx", "continuex", "return1", "int3", "mem_load_s16x", "mem_store_u8x", "JUMPx", "JUMP_x", "__NOPx", "cancel_slotx", "extract32x", "FLOATx", "REGFIELDx", "WRITE_PREDx", "WRITE_PRED"]


def operand_tokens():
    toks = []
    for c in REG_CLASSES:
        for l in REG_LETTERS:
            toks.append(c + l + "V")
            toks.append(c + l + "N")
    for l in IMM_LETTERS:
        toks.append(l + "iV")
    for c in EXPL_CLASSES:
        for n in ["0", "1", "3", "10", "31", "33"]:
            toks.append(c + n)
            toks.append(c + n + "_NEW")
        for p in ["1:0", "3:2", "11:10", "31:30"]:
            toks.append(c + p)
    toks.append("R11:10_NEW")
    for a in ALIASES:
        toks.append("HEX_REG_ALIAS_" + a)
        toks.append("HEX_REG_ALIAS_" + a + "_NEW")
    return toks


NUMBERS = ["0", "7", "10", "255", "0x0", "0x1f", "0XFF", "0xdeadBEEF", "0xffffffffULL", "1LL", "1ULL", "1U", "10u", "1ull", "1ll", "0x10LL", "0U", "1.5", "0.25"]


def fam_operands(tier):
    out = []
    toks = operand_tokens()
    for t in toks + LOOKALIKES + NUMBERS:
        if tier == "thorough" or not re.match(r"^[A-Z]([de]|[xyz]|dd|xx|yy|vv|uu)N$", t):  # quick: .new spellings of the source letters only
            out.append(("operand-class", W(t)))
    for t in KEYWORDISH:
        out.append(("keyword-lookalike", W(t)))
        out.append(("keyword-lookalike", "{ %s; }" % t))
        out.append(("keyword-lookalike", "{ if (c) a; %s; }" % t))
    sub = toks if tier == "thorough" else [t for i, t in enumerate(toks) if i % 17 == 0 or ":" in t or t.startswith("HEX_REG_ALIAS_L")]
    for t in sub + (LOOKALIKES if tier == "thorough" else LOOKALIKES[::4]):
        out.append(("operand-context", "{ %s = r; }" % t))
        out.append(("operand-context", W("1 + %s" % t)))
        out.append(("operand-context", W("f(-%s, (int32_t)%s)" % (t, t))))
        out.append(("operand-context", "{ if (c) x; else %s = c ? %s : %s; }" % (t, t, t)))
    out += [("operand-mix", t) for t in [
        W("RsV + RdVal + PuN + P0 + HEX_REG_ALIAS_LR + siV + R11:10"), "{ RdV = RsV + siV; }", "{ RddV = RssV; RxV = RxV + 1; }", "{ PdV = PuN & PtV; }", "{ R31 = HEX_REG_ALIAS_PC + riV; }", "{ x = 1; R11:10 = y; }",
        "{ if (c) R11:10 = y; }", "{ if (c) x; else R1:0 = y; }", "{ R11:10 += 1; }", "{ R11:10++; }", "{ P0 = 1; }", "{ P0_NEW = 1; }", "{ HEX_REG_ALIAS_LR = R31; }", "{ RsV = RsN; }", "{ r = RsV ? siV : UiV; }",
        "{ r = RsVal + RsV; }", "{ siV = siV + 1; }", "{ r = mem_load_u8(RsV + siV); }", "{ mem_store_u32(EA, RtV); }", "{ r = NsN; }", "{ r = MuV + CsV; }", "{ CdV = RsV; }", "{ r = (RsV << 16) | RtV; }",
    ]]
    return out


def fam_calls(tier):
    es = ["f(x)", "f(x, y)", "f(x, y, z)", "f()", "f() + 1", "g(f())", "f(g(x), h(y, z))", "f(a, b) + g(c)", "f(a + b, c * d)", "f(a ? b : c, d = e)", "f((a, b), c)", "f(-x)", "f(x) * g(y)", "-f(x)", "(int32_t)f(x)",
          "sizeof(x)", "sizeof x", "sizeof(int32_t)", "sizeof(x) + 1", "extract32(a, 0, 8)", "sextract64(RssV, 0, 16)", "deposit32(a, 0, 8, b)", "bswap32(x)", "REGFIELD(RF_OFFSET, x)", "HEX_SINT_TO_F(x)", "fUNFLOAT(a)", "get_corresponding_CS(pkt, MuV)",
          "HEX_GET_INSN_RMODE(hi)", "a[i]", "a[i + 1]", "f(a[i])", "p->q", "p->q->r", "f(p->q)", "s.t"]
    out = [("calls", W(e)) for e in es]
    for s in "su":
        for w in ["1", "2", "4", "8", "16", "32", "64"]:
            out.append(("mem", W("mem_load_%s%s(EA)" % (s, w))))
            out.append(("mem", "{ mem_store_%s%s(EA, x); }" % (s, w)))
    out += [("calls", t) for t in [
        "{ f(x); }", "{ f(); }", "{ f(x, y); g(z); }", "{ JUMP(x); }", "{ JUMP(a + b); }", "{ JUMP(RsV); y; }", "{ if (c) JUMP(x); else y; }", "{ if (c) { JUMP(x); } else { y; } }", "{ if (c) JUMP(x); }", "{ __NOP; }", "{ cancel_slot; }",
        "{ if (c) cancel_slot; }", "{ if (c) cancel_slot; else x; }", "{ if (c) mem_store_u8(EA, x); else y; }", "{ if (c) mem_store_u8(EA, x); }", "{ mem_store_u8(EA, x); y; }", "{ mem_store_u16(EA + 2, (int16_t)x); }", "{ r = (int32_t)mem_load_s16(EA) + 1; }",
        "{ mem_store_u8(EA, a & b); }", "{ mem_store_u8(EA, a ? b : c); }", "{ r = mem_load_u8(a + b); }", "{ r = mem_load_u8(EA), s = 1; }", "{ return; }", "{ return x; }", "{ return (x); }", "{ return a + b; }", "{ goto L; }", "{ L: x; }", "{ L: x; goto L; }",
        "{ x, y; }", "{ r = (a, b); }", "{ a, b, c; }", "{ r = a, s = b; }", "{ switch (x) { case 1: a; break; default: b; } }", "{ switch (x) { case 1: a; break; case 2: b; break; } }", "{ switch (x) { case 0: case 1: a; } }",
        "{ switch (x) default: a; }", "{ break; }", "{ continue; }", "{ if (c); }", "{ while (c); }", "{ switch (c); }", "{ if (c); else x; }", "{ if (a, b); }", "{ r = \"s\"; }", "{ f(\"C is broken!\"); }",
    ]]
    return out


FAMILIES = [fam_binary, fam_prefix, fam_cond, fam_assign, fam_cast, fam_amp, fam_postfix, fam_else, fam_nest, fam_loops, fam_decl, fam_operands, fam_calls]


def space(tier):
    seen = {}
    for f in FAMILIES:
        for fam, text in f(tier):
            if text not in seen:
                seen[text] = fam
    return [(fam, text) for text, fam in seen.items()]


# ---------------------------------------------------------------------------------------
# finding rules: each predicts the exact Lark tree as the reference parse of a transformed text / AST


def rmap(x, fn):
    """bottom-up map over a raw cparse AST (tuples with a string head; lists of items)"""
    if isinstance(x, list):
        return [rmap(i, fn) for i in x]
    if isinstance(x, tuple):
        y = tuple(rmap(i, fn) for i in x)
        if y and isinstance(y[0], str):
            return fn(y)
        return y
    return x


def r_argless(n):
    """`f()` leaves no call node: postfix_expr "(" ")" is a '?'-rule with one child"""
    if n[0] == "call" and len(n[2]) == 0 and n[1][0] == "id":
        return n[1]
    return n


def _comma_list(e):
    """`(a, b)` as the argument list a call would have"""
    while e[0] == "paren":
        e = e[1]
    if e[0] == "comma":
        return _comma_list(e[1]) + [e[2]]
    return [e]


def r_kwid(n):
    """IDENTIFIER also matches keywords, and the derivation through IDENTIFIER wins:
    sizeof(x) -> sub-routine `sizeof`; default: -> ordinary label; if (c); while (c); switch (c); -> call;
    the statement `__NOP;` -> identifier __NOP (the nop rule is never chosen)"""
    k = n[0]
    if k == "sizeof_e" and n[1][0] == "paren":
        return ("call", ("id", "sizeof"), _comma_list(n[1]))
    if k == "default":
        return ("label", "default", n[1])
    if k == "if" and n[2] == ("empty",) and n[3] is None:
        return ("expr", ("call", ("id", "if"), _comma_list(n[1])))
    if k in ("while", "switch") and n[2] == ("empty",):
        return ("expr", ("call", ("id", k), _comma_list(n[1])))
    if n == ("expr", ("id", "__NOP")):
        return ("expr", ("plainid", "__NOP"))
    return n


def r_jumpelse(n):
    """`jump: JUMP "(" expr ")"` has no ';' of its own (the ';' is a separate empty statement), so as the
    unbraced then-arm of an if WITH else only sub_routine fits: `if (c) JUMP(x); else y;`"""
    if n[0] == "if" and n[3] is not None and n[2][0] == "expr" and n[2][1][0] == "call" and n[2][1][1] == ("id", "JUMP") and len(n[2][1][2]) == 1:
        return ("if", n[1], ("expr", ("call", ("plainid", "JUMP"), n[2][1][2])), n[3])
    return n


def _replace_leftmost(e, fn):
    """e with its first token (if it is an identifier leaf) replaced by fn(name) or None"""
    k = e[0]
    if k == "id":
        return fn(e[1])
    pos = {"bin": 2, "assign": 2, "cond": 1, "comma": 1, "post": 2, "call": 1, "index": 1, "member": 1, "arrow": 1}.get(k)
    if pos is None:
        return None
    r = _replace_leftmost(e[pos], fn)
    if r is None:
        return None
    return e[:pos] + (r,) + e[pos + 1 :]


def make_r_pair(pairs):
    def leaf(name):
        m = N.XPAIR_RE.match(name)
        if not m or int(m.group(1)) >= len(pairs):
            return None
        sp = pairs[int(m.group(1))]
        mm = re.match(r"^([A-Z]\d+):(\d+)$", sp)
        if not mm:
            return None
        return ("__split__", mm.group(1), mm.group(2))

    def r_pair(n):
        """`R11:10 = x;` at statement start is the label `R11` followed by `10 = x;`"""
        if n[0] == "expr":
            box = {}

            def fn(name):
                s = leaf(name)
                if s is None:
                    return None
                box["label"] = s[1]
                return ("num", int(s[2]), (True, 32), s[2])

            e2 = _replace_leftmost(n[1], fn)
            if e2 is not None:
                return ("label", box["label"], ("expr", e2))
        return n

    return r_pair


AST_RULES = [(K_ARGLESS, lambda pairs: r_argless), (K_KWID, lambda pairs: r_kwid), (K_JUMPELSE, lambda pairs: r_jumpelse), (K_PAIR, make_r_pair)]

UNARY_MARKERS = ["~", "!"]
CAST_MARKERS = ["size16u_t", "size16s_t", "size1u_t", "size2s_t"]
CAST_MARKER_TYPES = {"size16u_t": (False, 128), "size16s_t": (True, 128), "size1u_t": (False, 8), "size2s_t": (True, 16)}


def ptr_variants(text, lark_c):
    """K_PTR: /[^&]&[^&]/ is the only spelling of unary & and takes one character on each side.
    Predicted tree = reference parse of the text in which each such 3-character window is one prefix
    operator.  -> [(text', lark_c')] with the operator spelled as a neutral marker on both sides."""
    toks = [n[1] for n in N.walk(lark_c) if n[0] == "un" and isinstance(n[1], str) and N.PTR_SHAPE.match(n[1])]
    if not toks:
        return []
    marker = None
    for m in UNARY_MARKERS:
        if m not in text:
            marker = ("un", m, " %s " % m)
            break
    if marker is None:
        for m in CAST_MARKERS:
            if m not in text:
                marker = ("cast", m, " (%s) " % m)
                break
    if marker is None:
        return []
    occ = []
    for t in toks:
        o = [i for i in range(1, len(text) - 1) if text[i - 1 : i + 2] == t]
        if not o:
            return []
        occ.append(o)

    def ren(n):
        if n[0] == "un" and isinstance(n[1], str) and N.PTR_SHAPE.match(n[1]):
            if marker[0] == "un":
                return ("un", marker[1], n[2])
            return ("cast", CAST_MARKER_TYPES[marker[1]], n[2])
        return n

    l2 = N.rewrite(lark_c, ren)
    out = []
    for combo in itertools.islice(itertools.product(*occ), 64):
        if len(set(combo)) != len(combo) or any(abs(a - b) < 3 for a, b in itertools.combinations(combo, 2)):
            continue
        t2 = text
        for i in sorted(combo, reverse=True):
            t2 = t2[: i - 1] + marker[2] + t2[i + 2 :]
        out.append((t2, l2))
    return out


KW_PREFIX = sorted(cparse.KEYWORDS | {"_Bool"}, key=len, reverse=True)
TYPE_PREFIX_RE = re.compile(r"^(u?int(?:8|16|32|64)_t|size(?:1|2|4|8|16)[su]_t)(\w+)$")


def kwsplit_variants(text):
    """K_KWSPLIT: no longest-match rule - an identifier that starts with a keyword or type name is read
    as keyword + rest where that is grammatical.  Predicted tree = reference parse with a blank inserted."""
    cands = []
    for m in re.finditer(r"[A-Za-z_]\w*", text):
        if m.start() > 0 and (text[m.start() - 1].isalnum() or text[m.start() - 1] == "_"):
            continue
        w = m.group(0)
        mm = TYPE_PREFIX_RE.match(w)
        if mm:
            cands.append((m.start(), len(mm.group(1))))
            continue
        for kw in KW_PREFIX:
            if w.startswith(kw) and len(w) > len(kw):
                cands.append((m.start(), len(kw)))
    out = []
    for (p, l) in cands:
        out.append(text[: p + l] + " " + text[p + l :])
    if len(cands) > 1:
        t2 = text
        for (p, l) in sorted(set(cands), reverse=True):
            t2 = t2[: p + l] + " " + t2[p + l :]
        out.append(t2)
    return out


TYPEID = "__TYPEID%d__"
TYPEID_RE = re.compile(r"^__TYPEID(\d+)__$")
SINGLE_WORD_TYPE = re.compile(r"\(\s*((?:u?int(?:8|16|32|64)_t)|(?:size(?:1|2|4|8|16)[su]_t)|int|unsigned|signed|long|short|char|float|double|void)\s*\)")


def castid_variants(text):
    """K_CASTID: IDENTIFIER also matches type names, so `(T)` is also a parenthesised identifier; where the
    earlier grammar alternative leads there, `b - (int32_t)-a` is `(b - int32_t) - a`.  Predicted tree = reference
    parse with that type name taken as a plain identifier.  -> [(text', [type names])]"""
    ms = list(SINGLE_WORD_TYPE.finditer(text))
    out = []
    sets = [[m] for m in ms] + ([ms] if len(ms) > 1 else [])
    for chosen in sets:
        names = []
        t2 = text
        for m in sorted(chosen, key=lambda m: -m.start()):
            t2 = t2[: m.start(1)] + "\0%d\0" % len(names) + t2[m.end(1) :]
            names.append(m.group(1))
        for k in range(len(names)):
            t2 = t2.replace("\0%d\0" % k, TYPEID % k)
        out.append((t2, names))
    return out


def make_r_typeid(names):
    def r(n):
        if n[0] == "id":
            m = TYPEID_RE.match(n[1])
            if m and int(m.group(1)) < len(names):
                return ("plainid", names[int(m.group(1))])
        return n

    return r


def unary_amp_blanked(text):
    """text with exactly one blank on each side of every & that stands where C expects a prefix operator
    (more than one blank does not help: %ignore WS takes the whole run and leaves PTR no character)"""
    out = []
    last = 0
    prev = None
    changed = False
    for m in cparse.TOKEN.finditer(text):
        if m.end() == m.start():
            break
        s = m.group(0).strip()
        if s == "&":
            unary = prev is None or not (prev[0].isalnum() or prev[0] in "_\"'" or prev in (")", "]", "++", "--"))
            if unary:
                i = m.end() - 1
                j = i + 1
                while j < len(text) and text[j] in " \t\n":
                    j += 1
                out.append(text[last:i].rstrip() + " & ")
                changed = True
                last = j
        prev = s
    out.append(text[last:])
    t2 = "".join(out)
    return t2 if changed and t2 != text else None


def incsplit_variants(text):
    """K_INCSPLIT: no longest-match rule - `++` / `--` are read as two operators (binary then prefix, or two
    prefixes) when the rule order of the grammar prefers that derivation: `a++ - b` is `a + (+(-b))`."""
    pos = [m.start() for m in re.finditer(r"\+\+|--", text)]
    out = [text[: p + 1] + " " + text[p + 1 :] for p in pos]
    if len(pos) > 1:
        t2 = text
        for p in reversed(pos):
            t2 = t2[: p + 1] + " " + t2[p + 1 :]
        out.append(t2)
    return out


class ElseParser(cparse.Parser):
    """The reference parser with the binding of each `else` left open (a choice point)."""

    def __init__(self, text, chooser):
        super().__init__(text)
        self.ch = chooser
        self.ifs = []

    def statement(self):
        if self.at_kw("if"):
            pos = self.i
            self.i += 1
            self.expect("(")
            c = self.expr()
            self.expect(")")
            slot = len(self.ifs)
            self.ifs.append([pos, False])
            th = self.statement()
            el = None
            if self.at_kw("else") and self.ch.choose(2, "else") == 0:
                self.i += 1
                self.ifs[slot][1] = True
                el = self.statement()
            return ("if", c, th, el)
        return super().statement()


def else_bindings(text):
    """all syntactically valid assignments of else to if: [(has_else per if in source order, raw AST)]"""
    if len(re.findall(r"\belse\b", text)) > 12:
        return []
    out = []

    def fn(ch):
        p = ElseParser(text, ch)
        try:
            b = p.body()
        except cparse.CSyntaxError:
            return core.SKIP
        return (tuple(h for _, h in sorted(p.ifs)), b)

    for _, res in core.explore(fn):
        out.append(res)
    return out


def else_variant(text):
    """K_ELSE: selection_stmt lists the alternative with ELSE first and the ambiguity is resolved top-down,
    so an else goes to the OUTERMOST if that can take it.  Predicted tree = the valid binding that is
    lexicographically greatest in (has_else of the ifs in source order); C's is the smallest."""
    t2, pairs = N.protect_explicit_pairs(text)
    bs = else_bindings(t2)
    if len(bs) < 2:
        return None
    best = max(bs, key=lambda x: x[0])
    return best[1], pairs


def explain(text, lark_c, parse_fn=None):
    """-> sorted finding ids that predict exactly this Lark outcome, or None.
    lark_c: canonical Lark tree, or None if the real parser rejected the text."""
    if lark_c is not None:
        variants = []  # (ids, raw reference AST, explicit pairs, lark canonical to compare with)

        def add_text(ids, t2, l2, post=None):
            try:
                raw, pairs = N.ref_parse(t2)
            except cparse.CSyntaxError:
                return
            if post is not None:
                raw = rmap(raw, post)
            variants.append((ids, raw, pairs, l2))

        add_text((), text, lark_c)
        for t2, l2 in ptr_variants(text, lark_c):
            add_text((K_PTR,), t2, l2)
        for t2 in kwsplit_variants(text):
            add_text((K_KWSPLIT,), t2, lark_c)
        for t2 in incsplit_variants(text):
            add_text((K_INCSPLIT,), t2, lark_c)
        for t2, names in castid_variants(text):
            add_text((K_CASTID,), t2, lark_c, make_r_typeid(names))
        ev = else_variant(text)
        if ev is not None:
            variants.append(((K_ELSE,), ev[0], ev[1], lark_c))
        for ids, raw, pairs, l2 in variants:
            rules = [(rid, mk(pairs)) for rid, mk in AST_RULES]
            for k in range(0, len(rules) + 1):
                for sub in itertools.combinations(rules, k):
                    if not ids and not sub:
                        continue
                    cur = raw
                    effective = True
                    for rid, fn in sub:
                        nxt = rmap(cur, fn)
                        if nxt == cur:
                            effective = False
                            break
                        cur = nxt
                    if not effective:
                        continue
                    try:
                        c = N.ref_canon_ast(cur, pairs)
                    except N.Unknown:
                        continue
                    if c == l2:
                        return sorted(set(ids) | set(rid for rid, _ in sub))
        return None
    # the real parser rejects, the reference accepts: K_PTR predicts this when a prefix & has no blank on
    # both sides (the terminal would take a neighbouring character) - then the text with blanks added must parse right
    t2 = unary_amp_blanked(text)
    if t2 is not None and parse_fn is not None:
        r = parse_fn(t2)
        if r[0] == "ok":
            try:
                if N.lark_canon(r[1]) == N.ref_canon(text):
                    return [K_PTR]
            except (N.Unknown, cparse.CSyntaxError):
                pass
    return None


# ---------------------------------------------------------------------------------------
# structure comparison of one text

LEAF_KINDS = {"id", "num", "fnum", "str", "reg", "xreg", "alias", "imm"}


def nontrivial(c):
    interior = 0
    for n in N.walk(c):
        if n[0] in ("reg", "xreg", "alias", "imm"):
            return True
        if n[0] not in LEAF_KINDS and n[0] not in ("ptr", "float", "void", "bool", "named", "array"):
            interior += 1
    return interior >= 4


def short(x, n=600):
    s = repr(x)
    return s if len(s) <= n else s[:n] + "..."


def compare(text, lark_result):
    """-> dict(status=..)  status: equal | both-reject | mismatch (with why, lark, reference, diff)"""
    try:
        ref = N.ref_canon(text)
        rerr = None
    except cparse.CSyntaxError as e:
        ref, rerr = None, "CSyntaxError: %s" % e
    except N.Unknown as e:
        raise core.HarnessError("reference AST not covered by the normaliser: %s on %r" % (e, text))
    if lark_result[0] != "ok":
        if ref is None:
            return {"status": "both-reject", "rules": []}
        return {"status": "mismatch", "why": "the real parser rejects (%s), the reference accepts" % lark_result[1], "lark_c": None, "ref_c": ref, "lark": lark_result[1], "rules": []}
    rules = sorted(N.rules_of(lark_result[1]))
    try:
        lc = N.lark_canon(lark_result[1])
    except N.Unknown as e:
        return {"status": "mismatch", "why": "Lark node kind not in the normaliser table: %s" % e, "lark_c": None, "unknown": True, "ref_c": ref, "lark": lark_result[1].pretty()[:1500], "rules": rules}
    if ref is None:
        return {"status": "mismatch", "why": "the real parser accepts, the reference rejects (%s)" % rerr, "lark_c": lc, "ref_c": None, "rules": rules, "ref_rejects": True}
    if lc == ref:
        return {"status": "equal", "rules": rules, "nontrivial": nontrivial(ref), "digest": core.stable_hash(ref)}
    d = N.first_diff(lc, ref)
    return {"status": "mismatch", "why": "structure differs at %s: lark %s / reference %s" % (list(d[0]), short(d[1], 200), short(d[2], 200)), "lark_c": lc, "ref_c": ref, "rules": rules}


_JOB = {}


def _compare_cached(item):
    fam, text = item
    r = _JOB["cache"].get(text) if text in _JOB["cache"] else _JOB["corpus"].get(text)
    v = compare(text, r)
    if v["status"] == "mismatch":
        ids = None
        if not v.get("unknown") and not v.get("ref_rejects"):
            ids = explain(text, v["lark_c"], None)
        v["ids"] = ids
        v["need_blank_probe"] = ids is None and v["lark_c"] is None and not v.get("unknown") and unary_amp_blanked(text) is not None
    v["dump_digest"] = digest_of(r)
    return v


def digest_of(r):
    if r[0] == "ok":
        return hashlib.sha256(N.tree_dump(r[1]).encode()).hexdigest()[:24]
    return "ERR:" + r[1]


# ---------------------------------------------------------------------------------------
# (C) determinism: children


def fresh_parser():
    """A new Lark built by the real Compiler.set_lark_parser (not a copy of its arguments)."""
    drive._quiet_import()
    from rzilcompiler.Compiler import Compiler

    class Stub:
        pass

    s = Stub()
    Compiler.set_lark_parser(s)
    return s.parser


def _digest_with(parser, text):
    try:
        t = parser.parse(text)
    except Exception as e:  # noqa
        return "ERR:" + type(e).__name__
    return hashlib.sha256(N.tree_dump(t).encode()).hexdigest()[:24]


def child_main():
    job = json.load(sys.stdin)
    texts = job["texts"]
    out = {"hashseed_env": os.environ.get("PYTHONHASHSEED"), "str_hash": hash("c17-determinism-probe"), "set_order": "".join(list({"p", "q", "r", "s", "t", "u", "v", "w"}))}
    if job["mode"] == "single":
        # the pool's task function, under this child's hash seed (it builds its own parser per call)
        drive._quiet_import()
        import rzilcompiler.Parser as P
        from rzilcompiler.Configuration import Conf, InputFile

        with open(Conf.get_path(InputFile.GRAMMAR, "Hexagon")) as f:
            grammar = "".join(f.readlines())
        fwd = []
        for t in texts:
            pi = P.parse_single(P.InsnParsingBundle(grammar, "c17", [t]))["c17"]
            fwd.append("ERR:" + pi.exception.name if pi.exception is not None else hashlib.sha256(N.tree_dump(pi.asts[0]).encode()).hexdigest()[:24])
        out["fwd"] = fwd
    elif job["mode"] == "fresh":
        out["fwd"] = [_digest_with(fresh_parser(), t) for t in texts]
    else:
        p = fresh_parser()
        out["fwd"] = [_digest_with(p, t) for t in texts]
        if job.get("bwd"):  # the same parser object again, in reverse order
            out["bwd"] = [_digest_with(p, t) for t in reversed(job["bwd"])][::-1]
    json.dump(out, sys.stdout)
    return 0


def run_children(jobs, nproc):
    """jobs: [(key, hashseed, mode, texts, bwd_texts)] -> {key: result dict}; at most nproc interpreter processes at a time.
    Each child is `python -m vf.props.c17 --child` with PYTHONHASHSEED set, the cwd and PYTHONPATH of this run."""
    import tempfile
    import time

    pending = list(jobs)
    running = []
    results = {}
    env0 = dict(os.environ)
    while pending or running:
        while pending and len(running) < nproc:
            key, hs, mode, texts, bwd = pending.pop(0)
            env = dict(env0)
            env["PYTHONHASHSEED"] = str(hs)
            fin = tempfile.TemporaryFile()
            fin.write(json.dumps({"mode": mode, "texts": texts, "bwd": bwd}).encode())
            fin.seek(0)
            fout = tempfile.TemporaryFile()
            ferr = tempfile.TemporaryFile()
            p = subprocess.Popen([sys.executable, "-m", "vf.props.c17", "--child"], stdin=fin, stdout=fout, stderr=ferr, env=env, cwd=os.getcwd())
            running.append((key, p, fin, fout, ferr))
        still = []
        for key, p, fin, fout, ferr in running:
            rc = p.poll()
            if rc is None:
                still.append((key, p, fin, fout, ferr))
                continue
            fout.seek(0)
            outb = fout.read()
            ferr.seek(0)
            errb = ferr.read()
            for f in (fin, fout, ferr):
                f.close()
            if rc != 0 or not outb:
                for _, q, _, _, _ in still:
                    q.kill()
                raise core.HarnessError("determinism child %r failed (rc=%s): %s" % (key, rc, errb.decode(errors="replace")[-1500:]))
            results[key] = json.loads(outb.decode())
        if len(still) == len(running):
            time.sleep(0.05)
        running = still
    return results


def shards(texts, n, seed):
    """n lists with balanced cost; the seed only permutes the order inside the shards"""
    import random

    order = sorted(texts, key=lambda t: (-len(t), t))
    out = [[] for _ in range(n)]
    cost = [0] * n
    for t in order:
        i = cost.index(min(cost))
        out[i].append(t)
        cost[i] += 30 + len(t)
    rnd = random.Random(seed)
    for s in out:
        s.sort()
        if seed:
            rnd.shuffle(s)
    return [s for s in out if s]


def _reused_compiler_parse(text):
    return _digest_with(_JOB["real_parser"], text)


def _parse_single_chunk(chunk):
    import rzilcompiler.Parser as P

    r = P.parse_single(P.InsnParsingBundle(_JOB["grammar"], "c17", list(chunk)))
    pi = r["c17"]
    if pi.exception is not None:
        return ["ERR:" + pi.exception.name] * len(chunk)
    return [hashlib.sha256(N.tree_dump(t).encode()).hexdigest()[:24] for t in pi.asts]


def determinism(ctx, gen_texts, corpus_texts, cached_digest):
    """-> (number of digest comparisons, coverage dict); reports violations through ctx"""
    quick = ctx.tier == "quick"
    all_texts = list(gen_texts) + list(corpus_texts)
    # bundled behaviours in which a block is followed by ';' (an ambiguity of the grammar whose resolution must not depend
    # on the iteration order of the parser's item sets): a slice of them joins every configuration
    amb_corpus = sorted(set(p for parts in drive.load_corpus().values() for p in parts if re.search(r"\}\s*;", p)))
    have = set(all_texts)
    all_texts += [t for t in amb_corpus[:: (5 if quick else 1)] if t not in have]
    nsh = core.NPROC
    jobs = []
    # one parser object per child: forwards under every hash seed; under seed 0 the same object then parses
    # its list backwards (the whole corpus is parsed forwards only - its slice also backwards)
    slice_set = set(corpus_slice(corpus_texts))
    both = sorted(gen_texts)
    bset = set((both[::3] if quick else both) + [t for t in corpus_texts if t in slice_set])
    for hs in HASH_SEEDS:
        for i, sh in enumerate(shards(all_texts, nsh, ctx.seed)):
            jobs.append((("seed", hs, i), hs, "one-parser", sh, [t for t in sh if t in bset] if hs == 0 else []))
    fresh_slice = sorted(all_texts)[:: (16 if quick else 6)]
    for i, sh in enumerate(shards(fresh_slice, nsh, ctx.seed)):
        jobs.append((("fresh", 3, i), 3, "fresh", sh, []))
    # Parser.parse_single (the task function of the pool) under every hash seed, on a slice
    # (it builds a parser per call, so the slice is small: texts in which a block is followed by ';' - the ambiguity whose
    # resolution depends on the iteration order of the parser's item sets - and a thin slice of everything else)
    amb = [t for t in sorted(all_texts) if re.search(r"\}\s*;", t)]
    single_slice = sorted(set(amb[:: (6 if quick else 1)] + sorted(all_texts)[2 :: (60 if quick else 6)]))
    for hs in HASH_SEEDS:
        for i, sh in enumerate(shards(single_slice, nsh, ctx.seed)):
            jobs.append((("single", hs, i), hs, "single", sh, []))
    # longest jobs first
    jobs.sort(key=lambda j: -(sum(30 + len(t) for t in j[3]) + sum(30 + len(t) for t in j[4])))
    ctx.log("determinism: %d child interpreters (%d texts x %d hash seeds, %d fresh-parser texts)" % (len(jobs), len(all_texts), len(HASH_SEEDS), len(fresh_slice)))
    res = run_children(jobs, core.NPROC)
    by_cfg = {}  # config name -> {text: digest}
    hashes = {}
    for (key, hs, mode, texts, bwd) in jobs:
        r = res[key]
        if r["hashseed_env"] != str(hs):
            raise core.HarnessError("child %r ran with PYTHONHASHSEED=%r" % (key, r["hashseed_env"]))
        hashes.setdefault(hs, set()).add((r["str_hash"], r["set_order"]))
        name = {"seed": "hashseed=%d/one-parser-forwards" % hs, "fresh": "hashseed=%d/fresh-parser-per-text" % hs, "single": "hashseed=%d/Parser.parse_single" % hs}[key[0]]
        d = by_cfg.setdefault(name, {})
        for t, g in zip(texts, r["fwd"]):
            d[t] = g
        if "bwd" in r:
            d2 = by_cfg.setdefault("hashseed=%d/same-parser-backwards" % hs, {})
            for t, g in zip(bwd, r["bwd"]):
                d2[t] = g
    distinct_hash_values = len(set(h for s in hashes.values() for h in s))
    if distinct_hash_values < len(HASH_SEEDS):
        raise core.HarnessError("the hash seeds did not take effect in the children (only %d distinct str hashes)" % distinct_hash_values)
    # in-process configurations (parent interpreter, its own hash seed)
    from rzilcompiler.Configuration import Conf, InputFile

    with open(Conf.get_path(InputFile.GRAMMAR, "Hexagon")) as f:
        _JOB["grammar"] = "".join(f.readlines())
    real = real_compiler_parser(ctx)
    if real is not None:
        _JOB["real_parser"] = real
        slice_c = sorted(all_texts)[:: (8 if quick else 2)]
        dig = core.pmap(_reused_compiler_parse, slice_c, seed=ctx.seed)
        by_cfg["parent/Compiler.parser.parse"] = dict(zip(slice_c, dig))
    slice_p = sorted(all_texts)[1 :: (8 if quick else 2)]
    chunks = [slice_p[i : i + 6] for i in range(0, len(slice_p), 6)]
    dig = core.pmap(_parse_single_chunk, chunks, seed=ctx.seed)
    d = {}
    for ch, gs in zip(chunks, dig):
        if len(gs) == len(ch) and all(g.startswith("ERR:") for g in gs) and len(ch) > 1:
            # parse_single drops the whole bundle on the first error: redo one by one
            gs = [_parse_single_chunk([t])[0] for t in ch]
        for t, g in zip(ch, gs):
            d[t] = g
    by_cfg["parent/Parser.parse_single"] = d
    by_cfg["parse-cache"] = dict(cached_digest)
    base_name = "hashseed=0/one-parser-forwards"
    base = by_cfg[base_name]
    ncmp = 0
    bad = {}
    for name, d in sorted(by_cfg.items()):
        if name == base_name:
            continue
        for t, g in d.items():
            if t not in base:
                continue  # the parse cache also holds the corpus parts outside this tier's slice
            ncmp += 1
            if base[t] != g:
                bad.setdefault(t, []).append((name, g))
    for t, lst in sorted(bad.items()):
        ctx.report(
            {"kind": "determinism", "text": t, "baseline_config": base_name, "baseline_digest": base.get(t), "differing": [{"config": n, "digest": g} for n, g in lst]},
            None,
            what="tree of %r differs between %s and %s" % (t[:120], base_name, ", ".join(n for n, _ in lst)[:200]),
        )
    cov = {
        "determinism_configurations": sorted(by_cfg),
        "determinism_texts": len(all_texts),
        "determinism_digest_comparisons": ncmp,
        "determinism_child_interpreters": len(jobs),
        "determinism_distinct_str_hash_values": distinct_hash_values,
        "determinism_texts_per_configuration": {k: len(v) for k, v in sorted(by_cfg.items())},
    }
    return ncmp, cov


# ---------------------------------------------------------------------------------------


def real_compiler_parser(ctx):
    """The parser object of a real Compiler instance (it has already parsed the 13 sub-routine bodies).
    A Compiler that cannot be constructed is reported: with the pinned grammar it can, so the cause is a
    grammar under which the sub-routine bodies no longer parse to what the transformer expects."""
    try:
        comp = drive.get_compiler()
    except Exception as e:  # noqa
        ctx.report({"kind": "compiler-construction", "text": "", "exception": "%s: %s" % (type(e).__name__, str(e)[:500])}, None, what="Compiler() cannot be constructed with this grammar: %s: %s" % (type(e).__name__, str(e)[:200]))
        return None
    return comp.parser.real if isinstance(comp.parser, drive.CachedParser) else comp.parser


def parsed_corpus(seed):
    """corpus.parsed_corpus() with a parser that does not need a whole Compiler (same cache bucket)"""
    beh = drive.load_corpus()
    pc = drive.ParseCache("corpus", parser=fresh_parser())
    pc.ensure([p for parts in beh.values() for p in parts], seed=seed)
    pc.save()
    return beh, pc


def corpus_slice(texts):
    """the fixed slice of the corpus used by the quick tier: every 64th distinct part in sorted order"""
    ts = sorted(set(texts))
    return ts[::64]


def run(ctx):
    sp = space(ctx.tier)
    gen_texts = [t for _, t in sp]
    ctx.log("generated strings: %d" % len(sp))
    cache = drive.ParseCache("c17-" + ctx.tier, parser=fresh_parser())
    cache.ensure(gen_texts, seed=ctx.seed)
    cache.save()
    ctx.log("generated strings parsed (%d parsed now)" % cache.n_parsed_now)
    beh, pc = parsed_corpus(ctx.seed)
    corpus_items = []
    seen = set(gen_texts)
    n_parts = n_parts_accepted = 0
    for name in sorted(beh):
        for i, p in enumerate(beh[name]):
            n_parts += 1
            n_parts_accepted += pc.get(p)[0] == "ok"
            if p not in seen:
                seen.add(p)
                corpus_items.append(("corpus:%s[%d]" % (name, i), p))
    _JOB.update(cache=cache, corpus=pc)
    items = sp + corpus_items
    verdicts = core.pmap(_compare_cached, items, seed=ctx.seed)
    # second phase: rejected strings whose only problem may be a prefix & without blanks (needs real parses)
    probe = [unary_amp_blanked(t) for (f, t), v in zip(items, verdicts) if v.get("need_blank_probe")]
    if probe:
        cache.ensure(probe, seed=ctx.seed)
        cache.save()
        for (f, t), v in zip(items, verdicts):
            if v.get("need_blank_probe"):
                v["ids"] = explain(t, None, cache.get)
    fam_count = {}
    rules_seen = set()
    st = {"equal": 0, "both-reject": 0, "mismatch": 0}
    distinct = set()
    cached_digest = {}
    n_corpus_cmp = 0
    for (fam, text), v in zip(items, verdicts):
        f0 = "corpus" if fam.startswith("corpus:") else fam
        fam_count[f0] = fam_count.get(f0, 0) + 1
        rules_seen.update(v["rules"])
        st[v["status"]] += 1
        cached_digest[text] = v["dump_digest"]
        if f0 == "corpus" and v["status"] != "both-reject":
            n_corpus_cmp += 1
        if v["status"] == "equal":
            if v["nontrivial"]:
                distinct.add(v["digest"])
            if len(ctx.samples) < 6 and len(text) > 40 and (fam in ("bin-triple", "dangling-else", "operand-mix", "nest") or f0 == "corpus") and not any(s["family"] == f0 for s in ctx.samples):
                ctx.sample({"family": f0, "text": text[:300], "canonical": short(N.ref_canon(text), 500)})
        elif v["status"] == "mismatch":
            case = {"kind": "structure", "family": fam, "text": text, "why": v["why"], "lark": short(v.get("lark_c") if v.get("lark_c") is not None else v.get("lark"), 1500), "reference": short(v["ref_c"], 1500)}
            ctx.report(case, v.get("ids"), what="%s: %r %s" % (fam, text[:160], v["why"]))
    unknown_rules = sorted(rules_seen - set(N.TABLE_RULES))
    if unknown_rules:
        ctx.log("rules outside the normaliser table occurred: %s" % unknown_rules)
    # (C)
    det_corpus = [t for _, t in corpus_items] if ctx.tier == "thorough" else corpus_slice([t for _, t in corpus_items])
    ncmp, dcov = determinism(ctx, gen_texts, det_corpus, cached_digest)
    n_struct = st["equal"] + st["mismatch"] + st["both-reject"]
    cov = dict(
        dcov,
        evaluations=n_struct + ncmp,
        structure_comparisons=n_struct,
        structure_equal=st["equal"],
        structure_mismatch=st["mismatch"],
        rejected_by_both=st["both-reject"],
        corpus_distinct_texts_compared=n_corpus_cmp,
        corpus_parts=n_parts,
        corpus_parts_accepted_by_the_real_parser=n_parts_accepted,
        generated_strings=len(sp),
        strings_per_family=dict(sorted(fam_count.items())),
        distinct_nontrivial=len(distinct),
        grammar_rules_seen=sorted(rules_seen),
        grammar_rules_seen_not_in_table=unknown_rules,
        rule="every string of the families in vf/props/c17.py (all binary-operator pairs, %s, every prefix at every operand position, all ?: shapes to depth 3, all 11x11 assignment nests, "
        "cast/parenthesis forms x 10 types, & / && with and without blanks, all if/else token shapes to depth 3, block / statement-expression nests to depth 6, for headers with empty parts, declarations, "
        "every operand token of the QEMU naming scheme and look-alikes, call forms) and every corpus part, each compared as a whole tree with the independent reference parser; "
        "distinct_nontrivial = distinct canonical reference trees with >= 4 interior nodes or a non-identifier operand leaf; determinism = digest of the raw tree (rule names, token types, token text) per configuration against hashseed=0"
        % ("all 5832 operator triples" if ctx.tier == "thorough" else "the 702 triples of adjacent precedence levels"),
        exhaustive=True,
        hash_seeds=HASH_SEEDS,
    )
    return ctx.finish(
        cov,
        assumptions=[
            "vf.cparse implements the C11 expression/statement grammar (it is cross-checked against gcc/clang acceptance on the corpus elsewhere); operand classes are those of drive.scan_operands (QEMU naming scheme)",
            "equivalences E1-E3 of vf/larknorm.py (dropped empty statements in item lists, statement-position ({..}) == block, a behaviour that is one block == that block) are applied to both sides",
            "parentheses leave no node in the Lark tree, so both sides are compared without them; cast versus parenthesis is still visible in the shape",
            "PYTHONHASHSEED values are the fixed set {0,1,2,3,12345}; other sources of nondeterminism (thread scheduling) do not exist in a single-threaded Earley parse",
        ],
    )


def replay(ctx, path):
    case = json.load(open(path))
    text = case["text"]
    if case.get("kind") == "determinism":
        jobs = [(("seed", hs, 0), hs, "one-parser", [text, "{ r = a + b; }"], [text, "{ r = a + b; }"]) for hs in HASH_SEEDS]
        jobs.append((("fresh", 3, 0), 3, "fresh", [text], []))
        res = run_children(jobs, core.NPROC)
        digs = {}
        for k, r in res.items():
            digs["%s/%s/fwd" % (k[0], k[1])] = r["fwd"][0]
            if "bwd" in r:
                digs["%s/%s/bwd" % (k[0], k[1])] = r["bwd"][0]
        try:
            digs["parent/Compiler.parser"] = _digest_with(drive.get_compiler().parser, text)
        except Exception as e:  # noqa
            digs["parent/Compiler.parser"] = "Compiler() failed: %s" % type(e).__name__
        from rzilcompiler.Configuration import Conf, InputFile

        with open(Conf.get_path(InputFile.GRAMMAR, "Hexagon")) as f:
            _JOB["grammar"] = "".join(f.readlines())
        digs["parent/parse_single"] = _parse_single_chunk([text])[0]
        if len(set(digs.values())) > 1:
            print("VIOLATION property=%s replay=%s" % (ctx.pid, path))
            print("  digests differ: %s" % json.dumps(digs, sort_keys=True))
            return 1
        print("replay: all %d configurations give digest %s" % (len(digs), list(digs.values())[0]))
        return 0
    if case.get("kind") == "compiler-construction":
        try:
            drive.get_compiler()
        except Exception as e:  # noqa
            print("VIOLATION property=%s replay=%s" % (ctx.pid, path))
            print("  Compiler() cannot be constructed: %s: %s" % (type(e).__name__, str(e)[:300]))
            return 1
        print("replay: the Compiler is constructed")
        return 0
    parser = fresh_parser()

    def parse_fn(t):
        try:
            return ("ok", parser.parse(t))
        except Exception as e:  # noqa
            return ("err", type(e).__name__, str(e)[:300])

    v = compare(text, parse_fn(text))
    if v["status"] != "mismatch":
        print("replay: property holds on this case (%s)" % v["status"])
        return 0
    ids = None
    if not v.get("unknown") and not v.get("ref_rejects"):
        ids = explain(text, v["lark_c"], parse_fn)
    if ids and all(i in ctx.known for i in ids):
        print("replay: mismatch is exactly the recorded finding(s) %s" % ", ".join(ids))
        return 0
    print("VIOLATION property=%s replay=%s" % (ctx.pid, path))
    print("  %r %s%s" % (text[:200], v["why"], (" (shape of %s, not listed open)" % ids) if ids else ""))
    return 1


if __name__ == "__main__":
    if "--child" in sys.argv:
        sys.exit(child_main())
