"""C18  Pooled parsing equals sequential parsing and isolates failures  (model checking: schedules)

The real `rzilcompiler.Parser.Parser.parse` is executed under vf.vpool's controlled pool (bound to
the module global `rzilcompiler.Parser.Pool` from outside) for EVERY schedule of the pool - which
idle worker takes the next task, in which order results arrive - for task lists of n <= 4
behaviours from a six-letter alphabet on w <= 3 workers.  Nothing is sampled: core.explore
enumerates all complete choice sequences.

Oracles for every complete schedule
  (a) the returned dict equals what sequential in-process `parse_single` over the same dict
      produces (computed for every task list in one process lineage, see seq_reference);
  (b) independently of parse_single: exactly one entry per name, entry.name == key, one tree per
      part equal to the tree a Lark parser built by the harness yields for that part, a failing
      behaviour has the error's class name and no trees, behaviours are handed back unchanged;
  (c) no exception escapes, nothing hangs (vpool.PoolHang/WorkerTimeout are violations).

Binding of the model to the real pool: every task list is also run through the unpatched
`Parser.parse` with the real multiprocessing.Pool (sizes see real_sizes) and must satisfy the same
oracles (`traces_validated_against_impl`).  The pool API semantics of vpool are checked against
the real pool by vpool.selftest() in every run.

Cost control (each task is a real parse_single: Lark construction + Earley parse, 0.2-0.5 s): the
pool runs with vpool's history-indexed reply memo (a worker's reply is a function of the tasks it
ran; every entry is produced by a real forked worker with exactly that history; re-executions are
compared byte for byte).  One schedule of every task list is additionally executed live (no memo,
workers forked in Pool(), nothing patched) and must reproduce the memoised observation and trace.
VERIF_C18_LIVE=1 disables the memo altogether (slow).
"""
import functools
import hashlib
import itertools
import json
import os
import pickle
import select
import signal
import time
import traceback

from vf import core, drive, vpool

LEVEL = "model_checking"

MAX_N = 4
MAX_W = 3
LETTERS = ("one", "two", "slow", "syn", "lex", "empty")
ALL_LETTERS = LETTERS + ("ws1", "ws2", "dup", "tup", "bad2a", "bad2b")
# lists over the extra letters (texts that are equal up to white space / equal under different names)
EXTRA_LISTS = (("ws1", "ws2"), ("ws2", "ws1"), ("ws1", "ws1"), ("ws1", "ws2", "ws1"), ("ws2", "one", "ws1"), ("one", "dup"), ("dup", "one"), ("one", "dup", "one"), ("lex", "ws2", "ws1"),
               ("tup",), ("tup", "one"), ("two", "tup"), ("syn", "tup"), ("tup", "lex", "tup"),
               ("bad2a",), ("bad2b",), ("bad2a", "bad2b"), ("one", "bad2b", "two"), ("bad2a", "syn", "lex"))
TASK_TIMEOUT = float(os.environ.get("VERIF_C18_TASK_TIMEOUT", "60"))  # one parse_single takes 0.2-0.5 s
REAL_TIMEOUT = float(os.environ.get("VERIF_C18_REAL_TIMEOUT", "90"))  # one Parser.parse with the real pool takes ~1 s
SEQ_TIMEOUT = float(os.environ.get("VERIF_C18_SEQ_TIMEOUT", "150"))  # one subtree of the sequential reference (<= 43 parse_single calls)
HANG_LIMIT = 3  # after this many time-outs the remaining work of a phase is skipped (and the run says so)
HORIZON = 200  # choice points per execution (4 tasks need 8)
CAP = int(os.environ.get("VERIF_C18_MAX_SCHEDULES", "50000"))  # per (task list, workers)
LIVE_ONLY = os.environ.get("VERIF_C18_LIVE", "") not in ("", "0")

_S = {}  # per-process setup (alphabet, grammar, references); inherited by forked workers
MEMO = None  # history-indexed reply memo shared by fork
HANGS = None  # multiprocessing.Value shared by fork: worker time-outs seen so far


def _hangs(bump=False):
    if HANGS is None:
        return 0
    with HANGS.get_lock():
        if bump:
            HANGS.value += 1
        return HANGS.value


# --------------------------------------------------------------------------------------
# setup: code under test, alphabet, independent reference


def setup():
    if _S:
        return _S
    drive._quiet_import()
    import lark
    import rzilcompiler
    import rzilcompiler.Parser as P
    from rzilcompiler.Configuration import Conf, InputFile

    root = os.path.realpath(core.REPO)
    if not os.path.realpath(rzilcompiler.__file__).startswith(root + os.sep):
        raise core.HarnessError("rzilcompiler imported from %s, not from %s" % (rzilcompiler.__file__, root))
    if not hasattr(P, "Pool"):
        raise core.HarnessError("the seam rzilcompiler.Parser.Pool does not exist in this tree: the pool cannot be controlled from outside")
    corpus = drive.load_corpus()
    with open(Conf.get_path(InputFile.GRAMMAR, "Hexagon")) as f:
        grammar = "".join(f.readlines())
    alpha = {
        "one": ("A2_add", list(corpus["A2_add"])),
        "two": ("J4_cmpeqi_tp0_jump_nt", list(corpus["J4_cmpeqi_tp0_jump_nt"])),
        "slow": ("F2_sffma_sc", list(corpus["F2_sffma_sc"])),
        # first part fine, second part lacks its closing brace: the parser runs out of input
        "syn": ("broken_syntax", [corpus["A2_add"][0], "{ RdV = RsV; "]),
        # a character no terminal can start with
        "lex": ("broken_char", ["{ RdV = $; }"]),
        "empty": ("A2_nop", list(corpus["A2_nop"])),
        # two behaviours with the same characters apart from white space and different structure, and an exact duplicate of
        # an other task's text under another name (tasks are independent whatever their texts have in common)
        "ws1": ("ws_logical_and", ["{ RdV = RsV && RtV; }"]),
        "ws2": ("ws_and_addr", ["{ RdV = RsV & &RtV; }"]),
        "dup": ("A2_add_again", list(corpus["A2_add"])),
        # the parts of a two-part behaviour given as a tuple, the way PreprocessorHexagon.split_compounds returns them
        "tup": ("parts_as_tuple", tuple(corpus["J4_cmpeqi_tp0_jump_nt"])),
        # both parts broken, in different ways: the entry reports the failure of the first part (where sequential parsing stops)
        "bad2a": ("both_broken_char_first", ["{ RdV = $; }", "{ RdV = RsV; "]),
        "bad2b": ("both_broken_eof_first", ["{ RdV = RsV; ", "{ RdV = $; }"]),
    }
    _S.update(P=P, Conf=Conf, grammar=grammar, alpha=alpha, orig_pool=P.Pool, lark=lark, ref_parser=lark.Lark(grammar, start="fbody", parser="earley"), ref_parts={})
    shape = {k: ref_parts(tuple(v[1])) for k, v in alpha.items()}
    want = {"one": (1, None), "two": (2, None), "slow": (1, None), "syn": (0, "UnexpectedEOF"), "lex": (0, "UnexpectedCharacters"), "empty": (1, None), "ws1": (1, None), "ws2": (1, None), "dup": (1, None), "tup": (2, None), "bad2a": (0, "UnexpectedCharacters"), "bad2b": (0, "UnexpectedEOF")}
    if shape["ws1"][0] == shape["ws2"][0]:
        raise core.HarnessError("the two white-space twins parse to the same tree under this grammar")
    got = {k: (len(v[0]), v[1]) for k, v in shape.items()}
    if got != want:
        raise core.HarnessError("the task alphabet no longer has its stated shape under this grammar: %r" % (got,))
    return _S


def canon_tree(t):
    S = setup()
    if isinstance(t, S["lark"].Tree):
        return ["T", str(t.data), [canon_tree(c) for c in t.children]]
    if isinstance(t, S["lark"].Token):
        return ["k", str(t.type), str(t)]
    if t is None:
        return None
    return ["?", type(t).__name__, repr(t)[:80]]


def tree_id(t):
    return hashlib.sha1(json.dumps(canon_tree(t)).encode()).hexdigest()[:12]


def ref_parts(parts):
    """Independent of parse_single: (tree ids, error class name) for a behaviour."""
    S = setup()
    r = S["ref_parts"].get(parts)
    if r is None:
        ids = []
        err = None
        for p in parts:
            try:
                ids.append(tree_id(S["ref_parser"].parse(p)))
            except Exception as e:
                ids, err = [], type(e).__name__
                break
        r = S["ref_parts"][parts] = (ids, err)
    return r


def task_name(pos, letter):
    return "%s__%d" % (setup()["alpha"][letter][0], pos)


def make_tasks(chain):
    """chain: tuple of (position, letter) -> [(instruction name, [behaviour part, ...]), ...]"""
    A = setup()["alpha"]
    return [(task_name(p, L), type(A[L][1])(A[L][1])) for p, L in chain]


def chain_of(letters):
    return tuple(enumerate(letters))


def expected_entries(tasks):
    out = {}
    for name, parts in tasks:
        ids, err = ref_parts(tuple(parts))
        out[name] = {
            "type": "ParsedInsn",
            "name": name,
            "asts": list(ids),
            "behaviors": list(parts),
            "exception": None if err is None else {"type": "ParserException", "name": err},
        }
    return out


def canon_result(res):
    if not isinstance(res, dict):
        return {"not_a_dict": type(res).__name__}
    entries = {}
    for k, v in res.items():
        exc = getattr(v, "exception", "<no attribute>")
        if exc is not None and not isinstance(exc, str):
            exc = {"type": type(exc).__name__, "name": getattr(exc, "name", "<no attribute>")}
        asts = getattr(v, "asts", "<no attribute>")
        beh = getattr(v, "behaviors", "<no attribute>")
        entries[str(k)] = {
            "type": type(v).__name__,
            "name": getattr(v, "name", "<no attribute>"),
            "asts": [tree_id(t) for t in asts] if isinstance(asts, (list, tuple)) else repr(asts)[:80],
            "behaviors": [str(b) for b in beh] if isinstance(beh, (list, tuple)) else repr(beh)[:80],
            "exception": exc,
        }
    return {"entries": entries, "order": [str(k) for k in res.keys()]}


def observe_parse(tasks):
    """One call of the real Parser.parse -> canonical observation (never raises)."""
    P = setup()["P"]
    try:
        res = P.Parser.parse(dict((n, type(b)(b)) for n, b in tasks))
    except KeyboardInterrupt:
        raise
    except vpool.PoolSignal as e:
        return {"raised": type(e).__name__, "message": str(e)[:400], "pool_signal": True}
    except BaseException as e:  # noqa
        return {"raised": type(e).__name__, "message": str(e)[:400]}
    return canon_result(res)


def obs_hash(obs):
    o = dict(obs)
    o.pop("order", None)  # insertion order of the dict is not part of the property
    return core.stable_hash(o)


def diff_entries(exp, obs, label):
    """List of human-readable differences between expected entries and an observation."""
    if "raised" in obs:
        return ["%s: Parser.parse did not return: %s: %s" % (label, obs["raised"], obs["message"])]
    if "entries" not in obs:
        return ["%s: result is not a dict (%r)" % (label, obs)]
    got = obs["entries"]
    out = []
    for n in exp:
        if n not in got:
            out.append("%s: no entry for %s" % (label, n))
    for n in got:
        if n not in exp:
            out.append("%s: unexpected entry %s" % (label, n))
    for n in exp:
        if n in got and got[n] != exp[n]:
            for f in ("type", "name", "asts", "behaviors", "exception"):
                if got[n].get(f) != exp[n].get(f):
                    out.append("%s: entry %s field %s: expected %s got %s" % (label, n, f, json.dumps(exp[n].get(f)), json.dumps(got[n].get(f))))
    return out


class fast_conf:
    """Conf.replace_placeholders runs `git rev-parse` and `git submodule` on every call (40 ms); its
    value is a function of the cwd, which the harness fixes.  Memoised for the model exploration
    only; live validation and real-pool runs use it unchanged."""

    def __enter__(self):
        Conf = setup()["Conf"]
        self.orig = Conf.__dict__["replace_placeholders"]
        f = self.orig.__func__ if isinstance(self.orig, staticmethod) else self.orig
        cache = {}

        def memo(path_str, arch=""):
            k = (path_str, arch)
            if k not in cache:
                cache[k] = f(path_str, arch)
            return cache[k]

        Conf.replace_placeholders = staticmethod(memo)

    def __exit__(self, *a):
        setattr(setup()["Conf"], "replace_placeholders", self.orig)


# --------------------------------------------------------------------------------------
# the task-list space


def pairwise_rows(k, letters):
    """Deterministic greedy covering array of strength 2: every (position i, letter a, position j,
    letter b) with i < j occurs in some row."""
    v = len(letters)
    need = set((i, a, j, b) for i in range(k) for j in range(i + 1, k) for a in range(v) for b in range(v))
    rows = []

    def cover(r):
        return set((i, r[i], j, r[j]) for i in range(k) for j in range(i + 1, k))

    for a in range(v):
        for b in range(v):
            r = ((a, b, (a + b) % v, (a + 2 * b) % v) + (0,) * k)[:k]
            rows.append(r)
            need -= cover(r)
    allrows = list(itertools.product(range(v), repeat=k))
    while need:
        best = max(allrows, key=lambda r: (len(cover(r) & need), tuple(-x for x in r)))
        rows.append(best)
        need -= cover(best)
    seen = []
    for r in rows:
        if r not in seen:
            seen.append(r)
    return [tuple(letters[x] for x in r) for r in seen]


def task_lists(tier):
    only = os.environ.get("VERIF_C18_LISTS", "")
    if only:  # developer run, e.g. VERIF_C18_LISTS="one,syn;lex,two,one"
        out = [tuple(x.strip() for x in l.split(",")) for l in only.split(";") if l.strip()]
        if any(x not in LETTERS for l in out for x in l) or any(not 1 <= len(l) <= MAX_N for l in out):
            raise core.HarnessError("VERIF_C18_LISTS: letters are %s, at most %d per list" % (", ".join(LETTERS), MAX_N))
        return out, "RESTRICTED by VERIF_C18_LISTS to %d lists: not the tier's space" % len(out)
    if tier == "thorough":
        out = []
        for n in range(1, MAX_N + 1):
            out.extend(itertools.product(LETTERS, repeat=n))
        out.extend(EXTRA_LISTS)
        return out, "all %d ordered lists (every multiset in every order) of 1..%d behaviours over the 6-letter alphabet, plus %d lists with white-space twins and duplicated texts" % (len(out), MAX_N, len(EXTRA_LISTS))
    out = [(a,) for a in LETTERS] + list(itertools.product(LETTERS, repeat=2)) + list(EXTRA_LISTS)
    for n in (3, 4):
        rows = pairwise_rows(n, LETTERS)
        for a in LETTERS:
            if (a,) * n not in rows:
                rows.append((a,) * n)
        out.extend(rows)
    return out, (
        "covering subset: all 6 + 36 ordered lists of 1 and 2 behaviours; for 3 and 4 behaviours a pairwise covering array "
        "(every pair of (position, letter) assignments occurs in some list) plus the six all-equal lists; %d lists" % len(out)
    )


def real_sizes(tier, index, letters):
    """Pool sizes of the real multiprocessing.Pool a task list is run with."""
    if len(letters) == 1 or (tier == "thorough" and len(letters) == 2):
        return list(range(1, 17))
    if tier == "quick":
        return [1, 2, 3, 4 + index % 13]
    if len(letters) == 3:
        return sorted(set([1 + index % 3, 4 + index % 13, 16 if index % 2 else 4 + (index + 6) % 13]))
    return [1 + index % 3, 4 + index % 13]


# --------------------------------------------------------------------------------------
# one execution under the controlled pool


def execute(tasks, w, chooser, memo):
    S = setup()
    P = S["P"]
    ctl = vpool.Controller(chooser, w, memo=memo, task_timeout=TASK_TIMEOUT, max_moves=HORIZON)
    P.Pool = ctl.pool_class()
    try:
        obs = observe_parse(tasks)
    finally:
        P.Pool = S["orig_pool"]
        ctl.shutdown()
    # A call that answers without constructing a pool (nothing was handed to workers) has one schedule, the empty one:
    # its result is compared with the sequential reference like every other outcome.  (A tree that parses in-process
    # or through another pool class would also end here, and would then be checked on its results alone.)
    ctl.no_pool = not ctl.pools
    return obs, ctl


def move_text(m):
    if m["move"] == "dispatch":
        return "task %d -> worker %d" % (m["task"][1], m["worker"])
    if m["move"] == "complete":
        return "task %d completes (worker %d)" % (m["task"][1], m["worker"])
    if m["move"] == "reject":
        return "task %d rejected at submission" % m["task"][1]
    return m["move"]


def pair_of(ctl):
    a = tuple(tuple(t[1] for t in ws) for ws in ctl.assignment())
    c = tuple(t[1] for t in ctl.completion_order())
    return a, c


def explore_item(item):
    """All schedules of one (task list, workers).  Runs in a pmap worker."""
    chain, w = item
    tasks = make_tasks(chain)
    memo = None if LIVE_ONLY else MEMO
    st = {
        "chain": chain, "w": w, "schedules": 0, "moves": 0, "max_choice_points": 0, "capped": False,
        "hits": 0, "executed": 0, "verified": 0, "forks": 0,
    }
    outcomes = {}
    pairs = set()
    orders = set()
    states = set()
    edges = set()
    first = last = None
    if _hangs() >= HANG_LIMIT:
        st.update(capped=True, skipped=True, pairs=0, states=0, edges=0, insertion_orders=0, outcomes={}, first=None, last=None)
        return st

    def once(ch):
        return execute(tasks, w, ch, memo)

    with fast_conf():
      try:
        for choices, (obs, ctl) in core.explore(once):
            st["schedules"] += 1
            st["moves"] += len(ctl.trace)
            st["max_choice_points"] = max(st["max_choice_points"], len(choices))
            st["hits"] += ctl.memo_hits
            st["executed"] += ctl.executed
            st["verified"] += ctl.memo_verified
            st["forks"] += ctl.forks
            pairs.add(pair_of(ctl))
            for b, mv, a in ctl.edges:
                states.add(b)
                states.add(a)
                edges.add((b, mv))
            if "order" in obs:
                orders.add(tuple(obs["order"]))
            h = obs_hash(obs)
            o = outcomes.get(h)
            if o is None:
                outcomes[h] = o = {"obs": obs, "count": 0, "choices": list(choices), "arity": [n for _, n in ctl.chooser.trace], "moves": [move_text(m) for m in ctl.trace], "pair": pair_of(ctl)}
            o["count"] += 1
            rec = {"choices": list(choices), "moves": [move_text(m) for m in ctl.trace], "trace": ctl.trace, "hash": h, "pair": pair_of(ctl)}
            if first is None:
                first = rec
            last = rec
            if st["schedules"] >= CAP:
                st["capped"] = True
                break
            if obs.get("raised") == "WorkerTimeout":  # do not wait once per schedule for the same hanging task
                _hangs(bump=True)
                st["capped"] = True
                break
      except core.ReplayDivergence as e:
        # Replaying a recorded prefix of pool moves on the same task list took a different course: every source of
        # nondeterminism of the pool is owned by the controller, so the call itself depends on what was parsed before
        # in this process (state kept between calls of Parser.parse).  That is a finding about the code, not the harness.
        st["diverged"] = "%s after %d schedules" % (e, st["schedules"])
        st["capped"] = True
    st.update(pairs=len(pairs), states=len(states), edges=len(edges), insertion_orders=len(orders), outcomes=outcomes, first=first, last=last)
    return st


def warm_item(chain):
    """Run one chain of tasks through Parser.parse on one controlled worker (the only schedule),
    collecting the reply of every (history, task) along it."""
    memo = {}
    if _hangs() >= HANG_LIMIT:
        return memo, {"skipped": True}, [], 0, []
    with fast_conf():
        obs, ctl = execute(make_tasks(chain), 1, core.Chooser(), memo)
    if obs.get("raised") == "WorkerTimeout":
        _hangs(bump=True)
    return memo, obs, [move_text(m) for m in ctl.trace], ctl.executed, ctl.chooser.trace


# --------------------------------------------------------------------------------------
# sequential in-process reference (the property's "what sequential parsing produces")


def _bundle(pos, letter):
    S = setup()
    return S["P"].InsnParsingBundle(S["grammar"], task_name(pos, letter), type(S["alpha"][letter][1])(S["alpha"][letter][1]))


def _seq_dfs(prefix, acc, wanted, prefixes):
    """This process has called parse_single for `prefix` in order (results in acc).  Children
    continue from exactly this process state through fork."""
    out = {}
    if prefix in wanted:
        out[prefix] = canon_result(acc)
    for L in ALL_LETTERS:
        child = prefix + (L,)
        if child in prefixes:
            r = core.fresh_call(_seq_child, child, acc, wanted, prefixes)
            if r[0] != "ok":
                raise core.HarnessError("sequential reference: %r" % (r,))
            out.update(r[1])
    return out


def _seq_child(child, acc, wanted, prefixes):
    S = setup()
    acc = dict(acc)
    try:
        acc.update(S["P"].parse_single(_bundle(len(child) - 1, child[-1])))
    except BaseException as e:  # noqa  parse_single promises never to raise
        bad = {"raised": type(e).__name__, "message": str(e)[:400]}
        return {l: bad for l in wanted if l[: len(child)] == child}
    return _seq_dfs(child, acc, wanted, prefixes)


def _seq_root(arg):
    root, wanted, prefixes = arg
    r = fork_jobs(lambda _: _seq_root_child(root, wanted, prefixes), [None], 1, SEQ_TIMEOUT)[0]
    if r[0] == "timeout":
        bad = {"raised": "Timeout", "message": "sequential parse_single over the lists starting with %r did not finish within %.0f s" % (list(root), SEQ_TIMEOUT)}
        return {l: bad for l in wanted if l[: len(root)] == root and (len(root) == 2 or l == root)}
    if r[0] != "ok":
        raise core.HarnessError("sequential reference: %r" % (r,))
    return r[1]


def _seq_root_child(root, wanted, prefixes):
    S = setup()
    acc = {}
    for i, L in enumerate(root):
        try:
            acc.update(S["P"].parse_single(_bundle(i, L)))
        except BaseException as e:  # noqa
            bad = {"raised": type(e).__name__, "message": str(e)[:400]}
            return {l: bad for l in wanted if l[: len(root)] == root and len(l) >= len(root)}
    if len(root) < 2:
        return {root: canon_result(acc)} if root in wanted else {}
    return _seq_dfs(root, acc, wanted, prefixes)


def seq_reference(lists, seed):
    wanted = frozenset(lists)
    prefixes = frozenset(l[:i] for l in lists for i in range(1, len(l) + 1))
    roots = sorted(set(l[:2] for l in lists))
    out = {}
    for part in core.pmap(_seq_root, [(r, wanted, prefixes) for r in roots], seed=seed, chunk=1):
        out.update(part)
    missing = [l for l in lists if l not in out]
    if missing:
        raise core.HarnessError("sequential reference missing for %d lists" % len(missing))
    return out


# --------------------------------------------------------------------------------------
# forked jobs with a time limit (real multiprocessing.Pool cannot be created inside pmap's
# daemonic workers; a hanging real pool must be killed, not waited for)


def fork_jobs(fn, items, nproc, timeout, seed=0, stop_after_timeouts=None):
    """fn(item) in a forked child of this process (own session, killed as a group when it exceeds
    the time limit).  -> [("ok", value) | ("exc", ...) | ("timeout", ...) | ("skipped", ...)] in item order."""
    import random

    n_timeouts = 0

    order = list(range(len(items)))
    random.Random(seed).shuffle(order)
    results = [None] * len(items)
    running = {}
    pos = 0
    while pos < len(order) or running:
        while pos < len(order) and len(running) < nproc:
            i = order[pos]
            pos += 1
            if stop_after_timeouts is not None and n_timeouts >= stop_after_timeouts:
                results[i] = ("skipped", "not run: %d earlier runs hit the time limit" % n_timeouts)
                continue
            r, w = os.pipe()
            pid = os.fork()
            if pid == 0:
                try:
                    os.close(r)
                    os.setsid()
                    for fd in running:
                        try:
                            os.close(fd)
                        except OSError:
                            pass
                    try:
                        out = ("ok", fn(items[i]))
                    except BaseException as e:  # noqa
                        out = ("exc", "%s: %s" % (type(e).__name__, e), traceback.format_exc()[-3000:])
                    with os.fdopen(w, "wb") as f:
                        f.write(pickle.dumps(out))
                finally:
                    os._exit(0)
            os.close(w)
            running[r] = [i, pid, time.time() + timeout, []]
        ready, _, _ = select.select(list(running), [], [], 0.25)
        for fd in ready:
            b = os.read(fd, 1 << 20)
            if b:
                running[fd][3].append(b)
                continue
            i, pid, _, buf = running.pop(fd)
            os.close(fd)
            os.waitpid(pid, 0)
            try:
                os.killpg(pid, signal.SIGKILL)  # stragglers of a pool that was not shut down
            except OSError:
                pass
            data = b"".join(buf)
            results[i] = pickle.loads(data) if data else ("died", "child exited without a result")
        now = time.time()
        for fd in [fd for fd, v in running.items() if v[2] < now]:
            i, pid, _, _ = running.pop(fd)
            try:
                os.killpg(pid, signal.SIGKILL)
            except OSError:
                pass
            os.close(fd)
            os.waitpid(pid, 0)
            results[i] = ("timeout", "no result within %.0f s" % timeout)
            n_timeouts += 1
    return results


def _strict_jobs(fn, items, seed=0):
    out = []
    for r in fork_jobs(fn, items, core.NPROC, 300, seed=seed):
        if r[0] != "ok":
            raise core.HarnessError("%s" % (r[1:],))
        out.append(r[1])
    return out


def real_job(item):
    """The unpatched Parser.parse with the real multiprocessing.Pool of size k."""
    chain, k = item
    S = setup()
    P = S["P"]
    P.Pool = functools.partial(S["orig_pool"], k)
    try:
        return observe_parse(make_tasks(chain))
    finally:
        P.Pool = S["orig_pool"]


SCALE_SIZES = (5, 9, 33, 70, 140)


def scale_chain(n, variant):
    """A long task list: fast behaviours with failing ones at the start, early, in the middle and
    near the end (so that a failing task is followed by healthy ones in any chunking)."""
    bad_at = {0: "syn", 1: "lex", n // 3: "syn", n // 2: "lex", n - 2: "syn"} if variant == 0 else {2: "lex", n // 2 + 1: "syn"}
    letters = []
    for i in range(n):
        letters.append(bad_at.get(i) or ("one", "empty", "two")[i % 3])
    return tuple(enumerate(letters))


def scale_job(item):
    """The unpatched Parser.parse over a long task list with the real pool of size k, with the CPU
    count the library sees answered by the harness (an environment answer like any other)."""
    n, variant, k, cpus = item
    import multiprocessing

    S = setup()
    P = S["P"]
    P.Pool = functools.partial(S["orig_pool"], k)
    saved = (os.cpu_count, multiprocessing.cpu_count)
    os.cpu_count = lambda: cpus
    multiprocessing.cpu_count = lambda: cpus
    try:
        tasks = make_tasks(scale_chain(n, variant))
        obs = observe_parse(tasks)
        return diff_entries(expected_entries(tasks), obs, "entry rules")[:6]
    finally:
        os.cpu_count, multiprocessing.cpu_count = saved
        P.Pool = S["orig_pool"]


def live_job(item):
    """One recorded schedule executed live: no memo, workers forked in Pool(), nothing patched."""
    chain, w, choices = item
    ch = core.Chooser(choices)
    obs, ctl = execute(make_tasks(chain), w, ch, None)
    return obs, ctl.trace, ch.choices, ctl.executed


# --------------------------------------------------------------------------------------
# verdicts


def judge(tasks, seq, obs):
    """-> list of differences (empty: the property holds for this observation)."""
    exp = expected_entries(tasks)
    d = diff_entries(exp, obs, "entry rules")
    if "entries" in seq:
        if "raised" in obs or obs.get("entries") != seq["entries"]:
            d += diff_entries(seq["entries"], obs, "vs sequential parse_single")
    else:
        d.append("sequential parse_single itself failed: %r" % (seq,))
    return d


def case_base(chain, tasks):
    return {"letters": [L for _, L in chain], "positions": [p for p, _ in chain], "tasks": [[n, list(b)] for n, b in tasks]}


def run(ctx):
    global MEMO, HANGS
    import multiprocessing

    S = setup()
    HANGS = multiprocessing.Value("i", 0)
    t0 = time.time()
    n_self = vpool.selftest(functools.partial(_strict_jobs, seed=ctx.seed))
    ctx.log("vpool selftest: %d executions agree with multiprocessing.Pool semantics (%.0f s)" % (n_self, time.time() - t0))
    lists, rule = task_lists(ctx.tier)
    lists = [tuple(l) for l in lists]
    ctx.log("%d task lists; sequential reference ..." % len(lists))
    seq = seq_reference(lists, ctx.seed)
    found = []  # (case, what); reported at the end, simplest first, the three kinds interleaved

    # sequential parse_single against the independent entry rules
    for l in lists:
        tasks = make_tasks(chain_of(l))
        d = diff_entries(expected_entries(tasks), seq[l], "entry rules") if "entries" in seq[l] else ["sequential parse_single raised: %r" % (seq[l],)]
        if d:
            c = case_base(chain_of(l), tasks)
            c.update(kind="sequential_reference", observed=seq[l], expected=expected_entries(tasks), diff=d[:12])
            found.append((c, "sequential parse_single over %s: %s" % (list(l), d[0])))
    ctx.log("sequential reference done (%.0f s)" % (time.time() - t0))

    # ---- phase A: fill the reply memo (every entry comes from a real worker with that history)
    MEMO = {}
    warm_runs = warm_exec = warm_skipped = 0
    if not LIVE_ONLY:
        chains = set()
        for l in lists:
            ch = chain_of(l)
            for r in range(1, len(ch) + 1):
                chains.update(itertools.combinations(ch, r))
        nonmax = set(c[:-1] for c in chains)
        maximal = sorted(c for c in chains if c not in nonmax)
        ctx.log("memo: %d (history, task) pairs, %d maximal chains ..." % (len(chains), len(maximal)))
        res = core.pmap(warm_item, maximal, seed=ctx.seed, chunk=1)
        for chain, (memo, obs, moves, nexec, chtrace) in zip(maximal, res):
            if obs.get("skipped"):
                warm_skipped += 1
                continue
            warm_runs += 1
            warm_exec += nexec
            for k, v in memo.items():
                if k in MEMO and MEMO[k] != v:
                    raise core.HarnessError("two workers with the same history replied differently (chain %r): the history memo is unsound for this code; rerun with VERIF_C18_LIVE=1" % (chain,))
                MEMO[k] = v
            if chain_of(tuple(L for _, L in chain)) == chain:
                continue  # a task list of the space: judged with its exploration
            tasks = make_tasks(chain)
            d = diff_entries(expected_entries(tasks), obs, "entry rules")
            if d:
                c = case_base(chain, tasks)
                c.update(kind="model_schedule", workers=1, schedule=[x for x, _ in chtrace], arity=[n for _, n in chtrace], moves=moves, observed=obs, expected=expected_entries(tasks), diff=d[:12], note="sub-list run while filling the memo")
                found.append((c, "%s on 1 worker: %s" % ([L for _, L in chain], d[0])))
        ctx.log("memo filled: %d entries from %d single-worker runs, %d task executions (%.0f s)" % (len(MEMO), warm_runs, warm_exec, time.time() - t0))

    # ---- phase B: every schedule of every (task list, workers)
    items = [(chain_of(l), w) for l in lists for w in range(1, MAX_W + 1)]
    # big explorations first so that the tail of the parallel map is short
    order = sorted(range(len(items)), key=lambda i: (-len(items[i][0]) * items[i][1], i))
    res = core.pmap(explore_item, [items[i] for i in order], seed=ctx.seed, chunk=1 if LIVE_ONLY else None)
    stats = [None] * len(items)
    for i, r in zip(order, res):
        stats[i] = r
    ctx.log("exploration done: %d schedules (%.0f s)" % (sum(s["schedules"] for s in stats), time.time() - t0))

    tot = {"schedules": 0, "moves": 0, "pairs": 0, "states": 0, "edges": 0, "hits": 0, "executed": 0, "verified": 0}
    bounds = {}
    capped = []
    outcomes_per_list = {}
    max_outcomes = 0
    for (chain, w), s in zip(items, stats):
        letters = tuple(L for _, L in chain)
        tasks = make_tasks(chain)
        for k in tot:
            tot[k] += s[k]
        b = bounds.setdefault((len(chain), w), {"tasks": len(chain), "workers": w, "task_lists": 0, "schedules": 0, "schedules_per_list": None, "assignment_completion_pairs_per_list": None, "exhaustive": True})
        b["task_lists"] += 1
        b["schedules"] += s["schedules"]
        for key, val in (("schedules_per_list", s["schedules"]), ("assignment_completion_pairs_per_list", s["pairs"])):
            if b[key] is None:
                b[key] = val
            elif b[key] != val:
                b[key] = "varies"  # the schedule tree does not depend on task contents
        if s.get("diverged"):
            c = case_base(chain, tasks)
            c.update(kind="history_dependent_call", workers=w, why=s["diverged"])
            found.append((c, "%s on %d workers: parsing the same task list again in the same process takes a different course (%s): Parser.parse keeps state between calls" % (list(letters), w, s["diverged"])))
        if s["capped"]:
            b["exhaustive"] = False
            capped.append([list(letters), w, s["schedules"]])
        submitted = 0 if s["first"] is None else sum(1 for m in s["first"]["trace"] if m["move"] == "dispatch")
        if submitted >= 2 and w >= 2 and s["pairs"] < 2 and not s["capped"]:
            raise core.HarnessError("vacuous exploration: %r on %d workers exercised %d (assignment, completion order) pairs" % (letters, w, s["pairs"]))
        outcomes_per_list.setdefault(letters, set()).update(s["outcomes"])
        max_outcomes = max(max_outcomes, len(s["outcomes"]))
        for h, o in sorted(s["outcomes"].items(), key=lambda kv: kv[1]["choices"]):
            d = judge(tasks, seq[letters], o["obs"])
            if d:
                c = case_base(chain, tasks)
                c.update(
                    kind="model_schedule", workers=w, schedule=o["choices"], arity=o["arity"], moves=o["moves"],
                    assignment=[list(x) for x in o["pair"][0]], completion_order=list(o["pair"][1]),
                    observed=o["obs"], expected=expected_entries(tasks), diff=d[:12],
                    schedules_with_this_outcome=o["count"], schedules_explored=s["schedules"], distinct_outcomes=len(s["outcomes"]),
                )
                found.append((c, "%s on %d workers, %d of %d schedules (%d distinct outcomes), first: %s | %s" % (list(letters), w, o["count"], s["schedules"], len(s["outcomes"]), "; ".join(o["moves"]), d[0])))
    # samples: a spread of real schedules
    for idx in sorted(set([len(items) - 1, len(items) // 2, len(items) // 3, 4, 1])):
        if 0 <= idx < len(items) and stats[idx]["last"] is not None:
            s = stats[idx]
            ctx.sample({"tasks": [L for _, L in s["chain"]], "workers": s["w"], "schedule": s["last"]["choices"], "moves": s["last"]["moves"], "assignment": s["last"]["pair"][0], "completion_order": s["last"]["pair"][1], "schedules_of_this_exploration": s["schedules"], "distinct_outcomes": len(s["outcomes"]), "verdict": "equal to sequential parse_single" if not any(judge(make_tasks(s["chain"]), seq[tuple(L for _, L in s["chain"])], o["obs"]) for o in s["outcomes"].values()) else "violates"})

    # ---- phase C: live validation of the memoised runs, and the real pool
    live_items = []
    index_of = {it: i for i, it in enumerate(items)}
    for l in lists:
        if ctx.tier == "thorough" and len(l) == MAX_N and list(l) != sorted(l, key=LETTERS.index):
            continue  # thorough: all lists of <= 3 behaviours, and one order of every multiset of 4
        w = min(MAX_W, len(l))
        i = index_of[(chain_of(l), w)]
        if stats[i]["capped"]:
            continue
        live_items.append((i, (chain_of(l), w, stats[i]["last"]["choices"])))
    live_valid = 0
    if not LIVE_ONLY:
        res = fork_jobs(live_job, [x for _, x in live_items], core.NPROC, TASK_TIMEOUT * 2, seed=ctx.seed)
        for (i, (chain, w, choices)), r in zip(live_items, res):
            s = stats[i]
            if r[0] != "ok":
                raise core.HarnessError("live re-execution of %r on %d workers, schedule %r: %r" % (chain, w, choices, r))
            obs, trace, got_choices, nexec = r[1]
            if got_choices != choices or trace != s["last"]["trace"] or obs_hash(obs) != s["last"]["hash"]:
                # the same schedule of the same task list, once as the first call of a fresh process and once after other
                # calls in the exploring process: a difference is state that Parser.parse keeps between calls (the memo of
                # worker replies is validated separately by the selftest and cannot change the course of the parent)
                c = case_base(chain, make_tasks(chain))
                c.update(kind="first_call_vs_later_call", workers=w, schedule=choices, moves_first_call=[move_text(m) for m in trace], moves_later_call=s["last"]["moves"], observed=obs)
                found.append((c, "%s on %d workers, schedule %r: the first call in a fresh process and a later call in a long-lived process differ (moves %d vs %d, result %s vs %s)"
                              % ([L for _, L in chain], w, choices, len(trace), len(s["last"]["trace"]), obs_hash(obs), s["last"]["hash"])))
                continue
            live_valid += 1
        ctx.log("live validation: %d schedules re-executed without memo, identical (%.0f s)" % (live_valid, time.time() - t0))

    real_items = []
    for i, l in enumerate(lists):
        for k in real_sizes(ctx.tier, i, l):
            real_items.append((chain_of(l), k))
    res = fork_jobs(real_job, real_items, core.NPROC, REAL_TIMEOUT, seed=ctx.seed, stop_after_timeouts=2 * HANG_LIMIT)
    real_ok = real_skipped = 0
    size_hist = {}
    for (chain, k), r in zip(real_items, res):
        letters = tuple(L for _, L in chain)
        tasks = make_tasks(chain)
        if r[0] == "skipped":
            real_skipped += 1
            continue
        size_hist[k] = size_hist.get(k, 0) + 1
        if r[0] == "ok":
            obs = r[1]
        elif r[0] == "timeout":
            obs = {"raised": "Timeout", "message": "Parser.parse with the real multiprocessing.Pool(%d) did not return within %.0f s (killed)" % (k, REAL_TIMEOUT)}
        else:
            obs = {"raised": "ChildFailure", "message": repr(r)[:400]}
        d = judge(tasks, seq[letters], obs)
        if d:
            c = case_base(chain, tasks)
            c.update(kind="real_pool", pool_size=k, observed=obs, expected=expected_entries(tasks), diff=d[:12])
            found.append((c, "real multiprocessing.Pool(%d) on %s: %s" % (k, list(letters), d[0])))
        else:
            real_ok += 1
    ctx.log("real pool: %d runs, %d conform, %d not run after repeated time-outs (%.0f s)" % (len(real_items) - real_skipped, real_ok, real_skipped, time.time() - t0))

    by_kind = {}
    for case, what in found:
        by_kind.setdefault(case["kind"], []).append((case, what))
    for v in by_kind.values():
        v.sort(key=lambda cw: (len(cw[0]["letters"]), cw[0].get("workers", cw[0].get("pool_size", 0)), len(cw[0].get("schedule", [])), cw[0].get("schedule", []), cw[0]["letters"]))
    for row in itertools.zip_longest(*[by_kind[k] for k in sorted(by_kind)]):
        for cw in row:
            if cw is not None:
                ctx.report(cw[0], None, what=cw[1])

    # ---- scale: long task lists through the real pool, CPU count answered by the harness
    scale_items = []
    for n in SCALE_SIZES if ctx.tier == "thorough" else SCALE_SIZES[:4]:
        for variant in (0, 1):
            for k, cpus in ((2, 1), (3, 2), (16, 16)) if n <= 33 else ((16, 1), (16, 16)):
                scale_items.append((n, variant, k, cpus))
    scale_res = fork_jobs(scale_job, scale_items, 3, 4 * REAL_TIMEOUT, seed=ctx.seed)
    for it, r in zip(scale_items, scale_res):
        d = r[1] if r[0] == "ok" else ["%s: %s" % (r[0], repr(r[1:])[:300])]
        if d:
            c = {"kind": "scale", "tasks": it[0], "variant": it[1], "pool_size": it[2], "cpu_count_answer": it[3], "diff": d}
            ctx.report(c, None, what="long task list (%d tasks, pool %d, cpu_count %d): %s" % (it[0], it[2], it[3], d[0]))
    ctx.log("scale runs: %d (%.0f s)" % (len(scale_items), time.time() - t0))

    multi = {repr(list(k)): len(v) for k, v in outcomes_per_list.items() if len(v) > 1}
    cov = {
        "scale_runs": len(scale_items),
        "scale_rule": "task lists of %s behaviours with failing ones at positions 0, 1, n/3, n/2, n-2 (and a second placement) through the real pool with (pool size, os.cpu_count answer) in {(2,1),(3,2),(16,16)} resp. {(16,1),(16,16)}" % (list(SCALE_SIZES),),
        "states": tot["states"],
        "transitions": tot["edges"],
        "traces_validated_against_impl": len(real_items) - real_skipped,
        "real_pool_runs_not_run_after_repeated_timeouts": real_skipped,
        "explorations_skipped_after_repeated_worker_timeouts": sum(1 for s in stats if s.get("skipped")),
        "memo_fill_runs_skipped_after_repeated_worker_timeouts": warm_skipped,
        "worker_timeouts": HANGS.value,
        "real_pool_runs_conforming": real_ok,
        "real_pool_size_histogram": {str(k): v for k, v in sorted(size_hist.items())},
        "evaluations": tot["schedules"],
        "distinct_nontrivial": sum(s["pairs"] for (chain, w), s in zip(items, stats) if len(chain) >= 2 and w >= 2),
        "rule": "one evaluation = one complete schedule (every dispatch and completion decision fixed) of the real Parser.parse under the controlled pool; "
        "all schedules of every (task list, workers <= %d) are enumerated; distinct = distinct (task list, workers, task->worker assignment with per-worker order, completion order); "
        "non-trivial = at least 2 tasks on at least 2 workers (otherwise there is a single schedule)" % MAX_W,
        "task_lists": len(lists),
        "task_list_rule": rule,
        "alphabet": {k: {"name": v[0], "parts": len(v[1])} for k, v in S["alpha"].items()},
        "explorations": len(items),
        "schedules": tot["schedules"],
        "moves_executed": tot["moves"],
        "assignment_completion_pairs": tot["pairs"],
        "max_distinct_outcomes_per_exploration": max_outcomes,
        "task_lists_with_more_than_one_outcome": multi if len(multi) <= 20 else {"count": len(multi), "first": dict(sorted(multi.items())[:20])},
        "bounds_completed": [bounds[k] for k in sorted(bounds)],
        "cap_per_exploration": CAP,
        "caps_hit": capped,
        "exhaustive": not capped and not real_skipped and not os.environ.get("VERIF_C18_LISTS"),
        "symmetry_reduction": "idle workers with equal task histories: only the lowest-numbered is offered",
        "memo": "off (every schedule executed live)" if LIVE_ONLY else {
            "entries": len(MEMO), "single_worker_fill_runs": warm_runs, "task_executions_filling": warm_exec,
            "lookups_hit": tot["hits"], "executions_during_exploration": tot["executed"], "re_executions_compared_equal": tot["verified"],
        },
        "live_schedules_reexecuted_identical": live_valid,
        "vpool_selftest_executions": n_self,
        "real_pool_sizes_rule": "1 behaviour%s: sizes 1..16; otherwise %s" % (
            " or 2 behaviours" if ctx.tier == "thorough" else "",
            "sizes 1,2,3 and one of 4..16 rotating with the list index" if ctx.tier == "quick" else "sizes rotating with the list index: one of 1..3 and one of 4..16, for 3 behaviours also 16 or a second of 4..16"),
    }
    return ctx.finish(
        cov,
        assumptions=[
            "a worker's reply is a function of the process state at fork and the sequence of tasks it ran (basis of the symmetry reduction and of the reply memo); checked by byte-comparing every re-execution and by live re-execution of one schedule per task list",
            "the consumer cannot observe pool state between deliveries, so pool moves are made only when the consumer blocks",
            "tasks leave the queue in submission order and workers run one task at a time (chunksize 1 as in Parser.parse; chunked APIs hand out chunks the same way)",
            "during the model exploration Conf.replace_placeholders is memoised (it shells out to git twice per call); live and real-pool runs use it unchanged",
            "with the memo, workers are forked on first use instead of in Pool(); in live mode they are forked in Pool() like the real pool does",
            "real-pool conformance runs cover each task list at the sizes given in real_pool_sizes_rule, not at every size 1..16 for the larger lists (cost: each run re-parses every behaviour)",
        ],
    )


# --------------------------------------------------------------------------------------
# replay


def _seq_single(chain):
    S = setup()
    acc = {}
    for p, L in chain:
        acc.update(S["P"].parse_single(_bundle(p, L)))
    return canon_result(acc)


def replay(ctx, path):
    setup()
    with open(path) as f:
        case = json.load(f)
    chain = tuple(zip(case["positions"], case["letters"]))
    tasks = make_tasks(chain)
    if [[n, list(b)] for n, b in tasks] != case["tasks"]:
        raise core.HarnessError("the recorded behaviours differ from what the alphabet yields in this tree")
    r = core.fresh_call(_seq_single, chain)
    seq = r[1] if r[0] == "ok" else {"raised": r[1], "message": r[2]}
    kind = case["kind"]
    if kind == "scale":
        r = fork_jobs(scale_job, [(case["tasks"], case["variant"], case["pool_size"], case["cpu_count_answer"])], 1, 4 * REAL_TIMEOUT)[0]
        d = r[1] if r[0] == "ok" else ["%s: %s" % (r[0], repr(r[1:])[:300])]
        print("scale run:", d or "conforms")
        if d:
            print("VIOLATION property=%s replay=%s" % (ctx.pid, path))
            return 1
        return 0
    if kind == "sequential_reference":
        d = diff_entries(expected_entries(tasks), seq, "entry rules")
    elif kind == "real_pool":
        d = []
        for attempt in range(8):  # the real pool schedules itself: a failure may not recur
            r = fork_jobs(real_job, [(chain, case["pool_size"])], 1, REAL_TIMEOUT)[0]
            obs = r[1] if r[0] == "ok" else {"raised": r[0], "message": repr(r)[:300]}
            d = judge(tasks, seq, obs)
            if d:
                break
    else:
        sched, arity = case["schedule"], case["arity"]
        runs = []
        for _ in range(2):
            ch = core.Chooser(sched)
            obs, ctl = execute(tasks, case["workers"], ch, None)
            k = min(len(sched), len(ch.trace))
            if [n for _, n in ch.trace[:k]] != arity[:k]:
                raise core.HarnessError("replay divergence: the choice points along the recorded schedule have arities %r, recorded %r" % ([n for _, n in ch.trace[:k]], arity[:k]))
            runs.append((obs, ctl.trace, ch.choices))
        if runs[0] != runs[1]:
            raise core.HarnessError("replaying the same schedule twice gave different observations")
        obs, trace, choices = runs[0]
        if len(choices) != len(sched):
            print("note: this run has %d choice points, the recording %d (code under test changed); extra choices default to 0" % (len(choices), len(sched)))
        print("schedule: " + "; ".join(move_text(m) for m in trace))
        d = judge(tasks, seq, obs)
    if d:
        print("VIOLATION property=%s replay=%s" % (ctx.pid, path))
        for line in d[:12]:
            print("  " + line)
        return 1
    print("replay: property holds on this case")
    return 0
