"""C19  Loading and splitting the resolved shortcode loses nothing.

Code under test (imported from the rzilcompiler package, never copied):
    PreprocessorHexagon.split_resolved_shortcode, .split_compounds, .load_insn_behavior
Oracle: the explicit scanners in vf.c19ref (no regular expressions; formats stated there).

Three finite spaces, each enumerated completely:
  B  the bundled file: the real load against the scanner line by line, entry count, names
     one-to-one, every bundled line under every line variant, every compound (also with a
     statement put in front of the first marker), the whole file with one line damaged;
  L  generated lines: every bracket-balanced token string up to N tokens as BODY x every name
     shape x every line variant (well-formed, blemished, malformed), at the function level and,
     through a real scratch file, at the load level;
  K  generated compounds: every arrangement of up to n statements before / inside / after the
     two markers x three spacings, split_compounds directly and through a loaded file.

Deviation rules (known findings) are decided by vf.c19ref.triage: a failing case is attributed
to a rule only if the outcome equals the reference outcome under exactly that rule.
"""
import contextlib
import io
import json
import os
import shutil
import tempfile
from pathlib import Path

from vf import core
from vf import c19ref as R

LEVEL = "exploration"

BUNDLED_REL = "Resources/Hexagon/Preprocessor/shortcode_resolved.h"
EXPECT_LINES = 2181
EXPECT_COMPOUNDS = 72

HDR = '#line 1 "generated.h"\n'
FIRST = "insn(first_0, {k = 1;})\n"
LAST = "insn(last_0, {f(k, (1));})\n"

TIERS = {
    # maxlen: tokens per BODY for the full product (all names);  deep: one more token with one name
    # load_names: names that are also driven through a scratch file
    # cstmts / czone / ctotal: statement alphabet size, statements per zone, statements per compound
    # load_full: bodies up to this many tokens go through a scratch file under every variant; longer ones
    #            only when they contain a marker (without one the loader does nothing body dependent)
    "quick": dict(maxlen=6, plen=3, deep=None, load_names=("A1",), load_full=6, cstmts=4, czone=3, ctotal=6),
    "thorough": dict(maxlen=7, plen=3, deep=8, load_names=("A1",), load_full=6, cstmts=5, czone=3, ctotal=7),
}

MAX_EXAMPLES = 3  # replay files per (work item, rule set)

_PP = None  # the class under test
_PPMOD = None
_SCRATCH = None
_REAL_CONF = None


# --------------------------------------------------------------------------------------
# driving the code under test


def setup():
    global _PP, _PPMOD, _REAL_CONF
    if _PP is not None:
        return
    from vf import drive

    drive._quiet_import()
    with contextlib.redirect_stdout(io.StringIO()):
        import rzilcompiler.Preprocessor.Hexagon.PreprocessorHexagon as M
    _PPMOD = M
    _PP = M.PreprocessorHexagon
    _REAL_CONF = M.Conf
    src = os.path.realpath(M.__file__)
    if not src.startswith(os.path.realpath(core.REPO) + os.sep):
        raise core.HarnessError("code under test imported from %s, not from %s" % (src, core.REPO))


class _ScratchConf:
    """Stands in for Configuration.Conf inside the module under test: the resolved shortcode is
    the scratch file of this process; nothing else may be asked for."""

    @staticmethod
    def get_path(file, arch_name=""):
        if "shortcode_resolved.h" in str(file) and "tmp" not in str(file):
            return Path(scratch_file())
        raise core.HarnessError("load_insn_behavior asked for an unexpected path: %r" % (file,))


def scratch_on():
    global _SCRATCH
    if _SCRATCH is None:
        base = "/dev/shm" if os.path.isdir("/dev/shm") and os.access("/dev/shm", os.W_OK) else None
        _SCRATCH = tempfile.mkdtemp(prefix="verif_c19_", dir=base)
    _PPMOD.Conf = _ScratchConf


def scratch_off():
    global _SCRATCH
    if _PPMOD is not None:
        _PPMOD.Conf = _REAL_CONF
    if _SCRATCH is not None:
        shutil.rmtree(_SCRATCH, ignore_errors=True)
        _SCRATCH = None


def scratch_file():
    return os.path.join(_SCRATCH, "resolved_%d.h" % os.getpid())


def call_line(line):
    try:
        return ("ok", _PP.split_resolved_shortcode(line))
    except Exception as e:
        return ("raise", type(e).__name__)


def call_compound(body):
    try:
        return ("ok", _PP.split_compounds(body))
    except Exception as e:
        return ("raise", type(e).__name__)


def _load():
    _PP.behaviors = dict()  # class-level dict: every load starts from empty
    pp = _PP(Path("unused-by-load_insn_behavior"))
    try:
        pp.load_insn_behavior()  # its log() line is silent: Helper.LOG_LEVEL is -1 (drive._quiet_import)
    except Exception as e:
        return ("raise", type(e).__name__)
    got = pp.behaviors
    if isinstance(got, dict):
        got = {k: (list(v) if isinstance(v, (list, tuple)) else v) for k, v in got.items()}
    return ("ok", got)


def _load_sequence(texts):
    """Several loads in one process, each through a new PreprocessorHexagon object, without emptying the shared dict in
    between (what a regeneration followed by a reload does).  -> outcome of the last load, restricted to the names of
    its own file (entries of earlier files may stay: the dict is shared by design)."""
    _PP.behaviors = dict()
    out = None
    for t in texts:
        with open(scratch_file(), "w", encoding="utf-8", newline="") as f:
            f.write(t)
        pp = _PP(Path("unused-by-load_insn_behavior"))
        try:
            pp.load_insn_behavior()
        except Exception as e:
            out = ("raise", type(e).__name__)
            continue
        got = pp.behaviors
        out = ("ok", {k: (list(v) if isinstance(v, (list, tuple)) else v) for k, v in got.items()} if isinstance(got, dict) else got)
    return out


RELOAD_FILES = {
    "plain": "insn(A2_x, { RdV = RsV; })\ninsn(A2_y, { RdV = RtV; })\n",
    "changed": "insn(A2_x, { RdV = RsV + 1; })\ninsn(A2_y, { RdV = RtV; })\n",
    "more": "insn(A2_x, { RdV = RsV; })\ninsn(A2_z, { f(g(RsV)); })\n",
    "compound": "insn(J4_c, {__COMPOUND_PART1__{ P0 = 0xff; }__COMPOUND_PART1__ if (P0_NEW) { JUMP(riV); }})\n",
    "compound-prefix": "insn(J4_c, { RdV = RsV; __COMPOUND_PART1__{ if (RsV) { P0 = 0xff; } }__COMPOUND_PART1__ JUMP(riV);})\n",
    "malformed": "insn(A2_x, { RdV = RsV; })\ninsn(A2_w, { RdV = RtV; }\n",
    "malformed-tail": "insn(A2_x, { RdV = RsV; }) junk\n",
    "empty": "",
}


def check_reload(pair):
    """Load file a, then file b, in one process: the second load must read b (entries of b present with b's parts,
    a malformed b rejected) whatever was loaded before."""
    a, b = pair
    scratch_on()
    out = core.fresh_call(_load_sequence, [HDR + RELOAD_FILES[a], HDR + RELOAD_FILES[b]])
    if out[0] != "ok":
        raise core.HarnessError("reload runner failed: %r" % (out[1:],))
    outcome = out[1]
    single = core.fresh_call(_load_sequence, [HDR + RELOAD_FILES[b]])[1]
    if outcome[0] != single[0]:
        return (a, b, "loading %s after %s %s, loading it alone %s" % (b, a, "raises %s" % outcome[1] if outcome[0] == "raise" else "succeeds", "raises %s" % single[1] if single[0] == "raise" else "succeeds"))
    if outcome[0] == "ok":
        for name, parts in single[1].items():
            if outcome[1].get(name) != parts:
                return (a, b, "entry %s of the second file is %r after the reload, %r when loaded alone" % (name, outcome[1].get(name), parts))
        v = R.triage(R.load_conforms, HDR + RELOAD_FILES[b], ("ok", {k: v_ for k, v_ in outcome[1].items() if k in single[1]}))
        if v is not None:
            return (a, b, v[0])
    return None


def call_load(text):
    """load_insn_behavior on a real file with exactly this text (scratch_on() must be active)."""
    with open(scratch_file(), "w", encoding="utf-8", newline="") as f:
        f.write(text)
    return _load()


# files whose bytes are not text in the encoding the loader reads with: such a file is rejected, or every loaded name and
# part, encoded again, occurs in the file (nothing is loaded under a name / body the file does not contain)
BAD_BYTES = [b"\xe9", b"\xa0", b"\xff", b"\xc3", b"\xed\xa0\x80", b"\xc3\xa9"]  # the last one is well-formed UTF-8
BYTE_LINES = [
    ("name", b"insn(J2_jump%s, {JUMP(riV);})\n"), ("body", b"insn(A2_tfr, { RdV=RsV%s1;})\n"), ("literal", b'insn(A2_w, { w("a%sb"); RdV=RsV;})\n'),
    ("before-insn", b"%sinsn(A2_sub, { RdV=RtV-RsV;})\n"), ("between-markers", b"insn(J4_c, {__COMPOUND_PART1__{ P0 = 0xff;%s }__COMPOUND_PART1__ if (P0_NEW) { JUMP(riV); }})\n"),
    ("after-marker", b"insn(J4_d, {__COMPOUND_PART1__{ P0 = 0xff; }__COMPOUND_PART1__ %sJUMP(riV);})\n"), ("directive", b'#line 7 "a%sb.h"\ninsn(A2_x, {RdV=RsV;})\n'),
]


def call_load_bytes(raw):
    with open(scratch_file(), "wb") as f:
        f.write(raw)
    return _load()


def check_bytes(raw):
    """-> None or a string"""
    import locale

    enc = locale.getpreferredencoding(False)
    out = call_load_bytes(raw)
    if out[0] == "raise":
        return None
    try:
        text = raw.decode(enc)
    except UnicodeDecodeError:
        text = None
    for name, parts in out[1].items():
        for piece in [name] + [p for p in parts if isinstance(p, str)]:
            try:
                b = piece.encode(enc, errors="surrogateescape")
            except UnicodeEncodeError:
                return "entry %r holds text that the file's encoding (%s) cannot represent" % (name, enc)
            inner = b.strip()
            if inner.startswith(b"{") and inner.endswith(b"}"):
                inner = inner[1:-1].strip()
            if inner and inner not in raw:
                return "entry %r: %r does not occur in the file (bytes %r)%s" % (name, piece, raw[:120], "" if text is not None else "; the file is not valid %s and was loaded without an error" % enc)
    if text is not None:
        v = R.triage(R.load_conforms, text, out)
        if v is not None:
            return v[0]
    return None


def byte_cases():
    for bn, bad in enumerate(BAD_BYTES):
        for ln, tmpl in BYTE_LINES:
            yield {"kind": "bytes", "bad": bn, "line": ln}, HDR.encode() + FIRST.encode() + tmpl % bad + LAST.encode()


def file_for(line):
    """The generated line between two ordinary lines (last when it has no line end)."""
    if line.endswith("\n"):
        return HDR + FIRST + line + LAST
    return HDR + FIRST + line


# --------------------------------------------------------------------------------------
# aggregation of worker results (millions of cases: only counters and a few examples travel)


class Agg:
    def __init__(self):
        self.c = {}
        self.bad = {}  # ids tuple -> [count, examples]
        self.samples = {}  # tag -> one real evaluated case

    def n(self, key, k=1):
        self.c[key] = self.c.get(key, 0) + k

    def fail(self, case, verdict):
        why, ids = verdict
        key = tuple(ids or ())
        slot = self.bad.setdefault(key, [0, []])
        slot[0] += 1
        if len(slot[1]) < MAX_EXAMPLES:
            c = dict(case)
            c["why"] = why
            slot[1].append(c)

    def sample(self, tag, case, text=""):
        """Keep per tag the real case whose text shows the most kinds of characters (shortest wins)."""
        score = len(set(text) & set("(){},; x")) * 100 - len(text)
        old = self.samples.get(tag)
        if old is None or score > old[0]:
            self.samples[tag] = (score, case)

    def result(self):
        return self.c, {k: (v[0], v[1]) for k, v in self.bad.items()}, self.samples


_SAMPLES = {}


def merge(ctx, total, results):
    for c, bad, samples in results:
        for tag, sc in samples.items():
            if tag not in _SAMPLES or sc[0] > _SAMPLES[tag][0]:
                _SAMPLES[tag] = sc
        for k, v in c.items():
            total[k] = total.get(k, 0) + v
        for ids, (count, examples) in bad.items():
            ids = list(ids) or None
            for ex in examples:
                ctx.report(ex, ids, what="%s: %s" % (ex.get("kind"), ex.get("why")))
            rest = count - len(examples)
            if rest > 0:
                if ids and all(i in ctx.known for i in ids):
                    for i in ids:
                        ctx.known_hits[i][0] += rest
                else:
                    ctx.n_violation_cases += rest
            key = "deviating_cases[%s]" % ("+".join(ids) if ids else "unexplained")
            total[key] = total.get(key, 0) + count


# --------------------------------------------------------------------------------------
# checks of single cases (shared by the enumerators and by replay)


def check_line(line):
    return R.triage(R.line_conforms, line, call_line(line))


def check_load(text):
    return R.triage(R.load_conforms, text, call_load(text))


def check_compound(body):
    return R.triage(R.compound_conforms, body, call_compound(body))


def eval_case(case):
    """-> None or (why, ids).  Re-evaluates exactly the recorded input."""
    kind = case["kind"]
    if kind == "line":
        return check_line(case["line"])
    if kind == "compound":
        return check_compound(case["body"])
    if kind == "load":
        scratch_on()
        return check_load(case["text"])
    if kind == "bytes":
        scratch_on()
        for c, raw in byte_cases():
            if c["bad"] == case["bad"] and c["line"] == case["line"]:
                v = check_bytes(raw)
                return None if v is None else (v, None)
        return None
    if kind == "reload":
        v = check_reload((case["first"], case["second"]))
        return None if v is None else (v[2], None)
    if kind.startswith("bundled"):
        scratch_off()
        for c, v in bundled_cases(None):
            if c["kind"] == kind and c.get("line_no") == case.get("line_no") and c.get("name") == case.get("name"):
                return v
        return None
    raise core.HarnessError("unknown replay kind %r" % (kind,))


# --------------------------------------------------------------------------------------
# L: generated lines

_VARIANTS = {}


def variants(name):
    v = _VARIANTS.get(name)
    if v is None:
        v = _VARIANTS[name] = R.line_variants(name)
    return v


def lines_of_body(agg, body, names, load_names):
    split = _PP.split_resolved_shortcode
    scan = R.scan_strict
    n_calls = n_wf = n_rej = n_acc = 0
    for name in names:
        do_load = name in load_names
        ascii_name = all(ch in R.ASCII_WORD for ch in name)
        for vid, pre, suf in variants(name):
            line = pre + body + suf
            try:
                out = ("ok", split(line))
            except Exception as e:
                out = ("raise", type(e).__name__)
            n_calls += 1
            s = scan(line)
            if s is not None:
                n_wf += 1
                if vid == "wf-nl":
                    if ascii_name and s != (name, body):
                        raise core.HarnessError("reference scanner disagrees with construction on %r: %r" % (line, s))
                    if out[0] == "ok" and out[1] == s:
                        agg.sample("line well-formed", {"kind": "line", "line": line, "scanner": s, "got": out}, body)
                if out[0] != "ok" or out[1] != s:
                    agg.fail({"kind": "line", "line": line, "variant": vid}, R.triage(R.line_conforms, line, out))
            elif out[0] == "raise":
                n_rej += 1
                if vid == "blank-cr" or vid == "trail-sp-x":
                    t = R.scan_tolerant(line)
                    agg.sample("line " + vid, {"kind": "line", "line": line, "scanner": ("tolerant reading %r" % (t,)) if t else "malformed", "got": out}, body)
            else:
                n_acc += 1
                v = R.triage(R.line_conforms, line, out)
                if v is not None:
                    agg.fail({"kind": "line", "line": line, "variant": vid}, v)
            if do_load:
                text = file_for(line)
                lout = call_load(text)
                agg.n("load_calls")
                agg.n("loads_rejected" if lout[0] == "raise" else "loads_completed")
                v = R.triage(R.load_conforms, text, lout)
                if v is not None:
                    agg.fail({"kind": "load", "text": text, "variant": vid}, v)
                elif vid == "wf-nl" and R.MARK in body:
                    agg.sample("load", {"kind": "load", "text": text, "got": lout}, body + ("{" if lout[0] == "ok" else ""))
    agg.n("line_calls", n_calls)
    agg.n("lines_wellformed", n_wf)
    agg.n("lines_not_wellformed_rejected", n_rej)
    agg.n("lines_not_wellformed_accepted", n_acc)


def work_lines(item):
    prefix, stack, maxlen, names, load_names, load_full = item
    agg = Agg()
    for body in R.bodies_from(prefix, stack, maxlen):
        agg.n("bodies")
        ln = load_names if (R.MARK in body or count_tokens(body) <= load_full) else ()
        if ln:
            agg.n("bodies_through_a_file")
        if R.nontrivial_body(body):
            agg.n("bodies_nontrivial")
        k = body.count(R.MARK)
        if k:
            agg.n("bodies_with_%s_markers" % ("1" if k == 1 else "2" if k == 2 else "3plus"))
            if k == 2:
                agg.n("bodies_two_markers_%s" % R.classify_compound(body)[0])
        lines_of_body(agg, body, names, ln)
    return agg.result()


def work_bodyless(name):
    agg = Agg()
    for line in R.bodyless_lines(name):
        agg.n("line_calls")
        v = check_line(line)
        if v is not None:
            agg.fail({"kind": "line", "line": line, "variant": "bodyless"}, v)
        text = file_for(line)
        agg.n("load_calls")
        v = check_load(text)
        if v is not None:
            agg.fail({"kind": "load", "text": text, "variant": "bodyless"}, v)
    return agg.result()


# --------------------------------------------------------------------------------------
# K: generated compounds


def work_compounds(item):
    pre, layout, k, maxn, maxtotal = item
    stmts = R.STATEMENTS[:k]
    seqs = R.zone_sequences(k, maxn)
    agg = Agg()
    for inside in seqs:
        for post in seqs:
            if len(pre) + len(inside) + len(post) > maxtotal:
                continue
            body = R.compound_body(pre, inside, post, layout, stmts)
            cls, p, blk, q = R.classify_compound(body)
            want = "tolerant" if (layout == "blank-before-block" or (layout == "tight" and not inside)) else "strict"
            if cls != want:
                raise core.HarnessError("compound generator/classifier disagree on %r: %s" % (body, cls))
            ref = R.ref_split(body)
            if R.parts_conform(body, ref, frozenset()) is not None:
                raise core.HarnessError("reference split does not satisfy the property on %r" % (body,))
            agg.n("compounds")
            agg.n("compounds_" + cls)
            if pre:
                agg.n("compounds_with_statements_before_marker")
            out = call_compound(body)
            agg.n("compound_calls")
            if out[0] == "raise":
                agg.n("compound_calls_rejected")
            v = R.triage(R.compound_conforms, body, out)
            if v is not None:
                agg.fail({"kind": "compound", "body": body, "layout": layout}, v)
            else:
                agg.sample("compound " + layout, {"kind": "compound", "body": body, "class": cls, "statements": R.flat(p) + R.flat(blk[1:-1]) + R.flat(q), "got": out}, body)
            line = "insn(A1, " + body + ")\n"
            s = R.scan_strict(line)
            if s != ("A1", body):
                raise core.HarnessError("reference scanner disagrees with construction on %r" % (line,))
            lo = call_line(line)
            agg.n("line_calls")
            if lo != ("ok", s):
                agg.fail({"kind": "line", "line": line, "variant": "compound"}, R.triage(R.line_conforms, line, lo))
            text = file_for(line)
            lout = call_load(text)
            agg.n("load_calls")
            v = R.triage(R.load_conforms, text, lout)
            if v is not None:
                agg.fail({"kind": "load", "text": text, "variant": "compound-" + layout}, v)
    return agg.result()


# --------------------------------------------------------------------------------------
# B: the bundled file


def bundled_path():
    return os.path.join(core.REPO, BUNDLED_REL)


def read_bundled():
    from rzilcompiler.Configuration import Conf, InputFile

    p = bundled_path()
    q = str(Conf.get_path(InputFile.HEXAGON_PP_SHORTCODE_RESOLVED_H))
    if os.path.realpath(p) != os.path.realpath(q):
        raise core.HarnessError("the loader would read %s, the harness reads %s (wrong cwd?)" % (q, p))
    with open(p, encoding="utf-8", newline="") as f:
        return f.read()


def bundled_cases(stats):
    """Yields (case, verdict) for every check on the real file; verdict None = holds.
    Uses the real Conf (cwd = repository)."""
    text = read_bundled()
    lines = R.split_lines(text)
    out = _load()
    insn = []  # (line_no, line, scan)
    for no, l in enumerate(lines, 1):
        if l[0] == "#":
            continue
        insn.append((no, l, R.scan_strict(l)))
    names = [s[0] for _, _, s in insn if s is not None]
    comp = [(no, s) for no, _, s in insn if s is not None and R.MARK in s[1]]
    if stats is not None:
        stats.update(
            bundled_lines=len(insn),
            bundled_directive_lines=len(lines) - len(insn),
            bundled_compounds=len(comp),
            bundled_lines_not_wellformed=sum(1 for _, _, s in insn if s is None),
            bundled_matches_quantifier=(len(insn) == EXPECT_LINES and len(comp) == EXPECT_COMPOUNDS),
            bundled_compound_classes=sorted(set(R.classify_compound(s[1])[0] for _, s in comp)),
        )
    # 1. the load as a whole
    dup = sorted(set(n for n in names if names.count(n) > 1)) if len(set(names)) != len(names) else []
    if dup:
        yield {"kind": "bundled-count", "name": dup[0]}, ("names not one-to-one: %r occur on several lines" % (dup[:5],), None)
    bad_lines = [no for no, _, s in insn if s is None]
    if out[0] == "raise":
        if not bad_lines:
            yield {"kind": "bundled-count"}, ("loading the bundled file raised %s although every line is well-formed" % out[1], None)
        return
    got = out[1]
    if bad_lines:
        yield {"kind": "bundled-count"}, ("bundled file has lines that are not well-formed (%r) and was loaded without error" % (bad_lines[:5],), None)
    if not dup and len(got) != len(names):
        yield {"kind": "bundled-count"}, ("%d entries for %d insn lines" % (len(got), len(names)), None)
    else:
        yield {"kind": "bundled-count"}, None
    extra = sorted(set(got) - set(names))
    if extra:
        yield {"kind": "bundled-count", "name": extra[0]}, ("entries on no line: %r" % (extra[:5],), None)
    # 2. entry by entry
    for no, l, s in insn:
        if s is None:
            continue
        name, body = s
        case = {"kind": "bundled-entry", "line_no": no, "name": name}
        why = R.entry_conforms(body, name in got, got.get(name))
        if why is None:
            yield case, None
        elif R.entry_conforms(body, name in got, got.get(name), frozenset((R.KF_PRE,))) is None:
            yield case, (why, [R.KF_PRE])
        else:
            yield case, (why, None)


def run_bundled(ctx, total):
    stats = {}
    n = 0
    for case, v in bundled_cases(stats):
        n += 1
        if v is not None:
            ctx.report(case, v[1], what="%s %s: %s" % (case["kind"], case.get("name", ""), v[0]))
    total.update(stats)
    total["bundled_entry_checks"] = n
    total["load_calls"] = total.get("load_calls", 0) + 1
    if stats["bundled_lines"] == 0 or stats["bundled_compounds"] == 0:
        raise core.HarnessError("bundled file has no insn lines / no compounds: %r" % (stats,))
    if not stats["bundled_matches_quantifier"]:
        ctx.notes.append("bundled file has %d lines / %d compounds, the property text says %d / %d" % (stats["bundled_lines"], stats["bundled_compounds"], EXPECT_LINES, EXPECT_COMPOUNDS))
    return stats


def work_bundled_variants(item):
    """One bundled line: function level under every line variant; compounds: split directly, and
    with a statement in front of the first marker (function and load level)."""
    no, line = item
    agg = Agg()
    s = R.scan_strict(line)
    for l in (line, line.rstrip("\n")):
        agg.n("line_calls")
        v = check_line(l)
        if v is not None:
            agg.fail({"kind": "line", "line": l, "variant": "bundled", "line_no": no}, v)
    if s is None:
        return agg.result()
    name, body = s
    lines_of_body(agg, body, (name,), ())
    if R.MARK in body:
        agg.n("compound_calls")
        cls = R.classify_compound(body)[0]
        if cls != "other":
            v = check_compound(body)
            if v is not None:
                agg.fail({"kind": "compound", "body": body, "layout": "bundled", "line_no": no}, v)
        if cls == "strict":
            for front in ("(riV); ", "{ int x = (RsV); }", " "):
                b2 = "{" + front + body[1:]
                if R.classify_compound(b2)[0] != "strict":
                    raise core.HarnessError("derived compound is not strict: %r" % (b2,))
                agg.n("compound_calls")
                agg.n("compounds")
                if front.strip():
                    agg.n("compounds_with_statements_before_marker")
                v = check_compound(b2)
                if v is not None:
                    agg.fail({"kind": "compound", "body": b2, "layout": "bundled+front", "line_no": no}, v)
                text = file_for("insn(%s, %s)\n" % (name, b2))
                agg.n("load_calls")
                v = check_load(text)
                if v is not None:
                    agg.fail({"kind": "load", "text": text, "variant": "bundled+front"}, v)
    return agg.result()


def damaged_files(text):
    """The bundled text with exactly one insn line damaged (first, middle, last insn line)."""
    lines = R.split_lines(text)
    idx = [i for i, l in enumerate(lines) if l[0] != "#"]
    for pos in (idx[0], idx[len(idx) // 2], idx[-1]):
        l = lines[pos]
        body_end = l.rstrip("\n")
        for how, new in (
            ("no-close", body_end[:-1].rstrip(")") + "\n"),
            ("trailing-text", body_end + " x\n"),
            ("no-comma", l.replace(", ", " ", 1)),
            ("leading-text", "x " + l),
            ("empty-name", "insn(, " + l.split(", ", 1)[1]),
        ):
            yield pos + 1, how, "".join(lines[:pos]) + new + "".join(lines[pos + 1 :])


# --------------------------------------------------------------------------------------


def run(ctx):
    setup()
    P = TIERS[ctx.tier]
    total = {}
    try:
        # ---- B
        stats = run_bundled(ctx, total)
        ctx.log("bundled: %d lines, %d compounds, load compared entry by entry" % (stats["bundled_lines"], stats["bundled_compounds"]))
        text = read_bundled()
        scratch_on()
        blines = [(no, l) for no, l in enumerate(R.split_lines(text), 1) if l[0] != "#"]
        merge(ctx, total, core.pmap(work_bundled_variants, blines, seed=ctx.seed))
        nd = 0
        for line_no, how, t in damaged_files(text):
            nd += 1
            total["load_calls"] = total.get("load_calls", 0) + 1
            v = check_load(t)
            if v is not None:
                # the damaged file is large: record how to rebuild it and the small equivalent
                small = file_for(R.split_lines(t)[line_no - 1])
                ctx.report({"kind": "load", "text": small, "variant": "bundled-damaged-" + how, "line_no": line_no, "why": v[0]}, v[1], what="bundled file with line %d damaged (%s): %s" % (line_no, how, v[0]))
                total["bundled_damaged_not_rejected"] = total.get("bundled_damaged_not_rejected", 0) + 1
        total["bundled_damaged_files"] = nd
        ctx.log("bundled variants done")
        # ---- reloads: every ordered pair of small files loaded one after the other in one process
        pairs = [(a, b) for a in RELOAD_FILES for b in RELOAD_FILES]
        for (a, b), v in zip(pairs, core.pmap(check_reload, pairs, seed=ctx.seed)):
            if v is not None:
                ctx.report({"kind": "reload", "first": a, "second": b, "files": [RELOAD_FILES[a], RELOAD_FILES[b]], "why": v[2]}, None, what="reload: %s" % v[2])
        total["reload_pairs"] = len(pairs)
        # ---- names that other parts of the compiler rewrite (dep_, IMPORTED_, undocumented markers) and names that only differ
        #      by such a marker, by case or by an underscore: every line is loaded under exactly its own name
        special = ["dep_A2_add", "IMPORTED_A2_add", "undocumented_A2_add", "A2_add_undocumented", "A2_add", "a2_add", "A2_ADD", "A2__add", "_A2_add", "A2_add_", "dep_dep_A2_add", "IMPORTED_dep_A2_add", "A2_add_dep_", "xdep_A2_add"]
        nn = 0
        for i, n1 in enumerate(special):
            for n2 in special[i + 1:] + [None]:
                lines = ["insn(%s, {x = %d;})\n" % (n1, i)] + (["insn(%s, {y = %d;})\n" % (n2, i + 100)] if n2 else [])
                for order in (lines, lines[::-1]):
                    t = HDR + FIRST + "".join(order) + LAST
                    nn += 1
                    v = check_load(t)
                    if v is not None:
                        ctx.report({"kind": "load", "text": t, "variant": "marker-names", "why": v[0]}, v[1], what="load: names %s / %s: %s" % (n1, n2, v[0]))
        total["marker_name_files"] = nn
        # ---- files that are not text in the loader's encoding
        scratch_on()
        nb = loaded = 0
        for c, raw in byte_cases():
            nb += 1
            v = check_bytes(raw)
            if v is not None:
                ctx.report(dict(c, raw=repr(raw), why=v), None, what="bytes: %s" % v)
        total["byte_level_files"] = nb

        # ---- L
        names = R.NAMES
        items = []
        # bodies shorter than the partition prefix, then one item per feasible prefix
        for p, st in R.valid_prefixes(1, P["plen"] - 1):
            items.append((p, st, P["plen"] - 1, names, P["load_names"], P["load_full"]))
        for p, st in R.valid_prefixes(P["plen"], P["maxlen"]):
            items.append((p, st, P["maxlen"], names, P["load_names"], P["load_full"]))
        small = R.short_bodies(min(P["maxlen"], 6))
        if len(set(small)) != len(small) or len(small) != count_balanced(min(P["maxlen"], 6)):
            raise core.HarnessError("token decomposition is not unique or the enumerator disagrees with the count")
        deep_items = []
        if P["deep"]:
            # one more token, one name: only the bodies of exactly `deep` tokens are new
            for p, st in R.valid_prefixes(P["plen"], P["deep"]):
                deep_items.append((p, st, P["deep"], P["maxlen"]))
        res = core.pmap(work_lines, items, seed=ctx.seed)
        merge(ctx, total, res)
        ctx.log("generated lines (<= %d tokens, %d names): %d bodies" % (P["maxlen"], len(names), total.get("bodies", 0)))
        if deep_items:
            res = core.pmap(work_lines_deep, deep_items, seed=ctx.seed)
            merge(ctx, total, res)
            ctx.log("generated lines (= %d tokens, 1 name): total %d bodies" % (P["deep"], total.get("bodies", 0)))
        want = count_balanced(P["deep"] or P["maxlen"])
        if total.get("bodies", 0) != want:
            raise core.HarnessError("enumerated %d bodies, the closed-form count is %d" % (total.get("bodies", 0), want))
        merge(ctx, total, core.pmap(work_bodyless, list(names), seed=ctx.seed))

        # ---- K
        k, maxn, maxtotal = P["cstmts"], P["czone"], P["ctotal"]
        citems = [(pre, layout, k, maxn, maxtotal) for pre in R.zone_sequences(k, maxn) for layout in R.LAYOUTS]
        merge(ctx, total, core.pmap(work_compounds, citems, seed=ctx.seed))
        ctx.log("generated compounds: %d" % total.get("compounds", 0))
    finally:
        scratch_off()

    evaluations = total.get("line_calls", 0) + total.get("load_calls", 0) + total.get("compound_calls", 0)
    nontrivial = total.get("bodies_nontrivial", 0) + total.get("compounds", 0) + stats["bundled_lines"]
    for tag in ("line well-formed", "line blank-cr", "line trail-sp-x", "load", "compound data", "compound tight"):
        if tag in _SAMPLES:
            ctx.sample(_SAMPLES[tag][1])
    cov = dict(total)
    cov.update(
        evaluations=evaluations,
        distinct_nontrivial=nontrivial,
        exhaustive=True,
        rule=(
            "B: every line of the bundled file (load result compared entry by entry with the scanner; every line under %d line variants; every compound split directly, "
            "and with 3 texts put before the first marker; the file with one line damaged in 5 ways at 3 positions).  "
            "L: BODY = every bracket-balanced string of 1..%d tokens over %r (each string once: the token decomposition is unique) x NAME in %r x %d line variants "
            "(well-formed with/without line end; blanks/CR after the final ')'; no blank after the comma; missing ')'; text after ')'; text before 'insn('; empty name; missing comma; "
            "wrong prefix; non-word character in the name), all through split_resolved_shortcode, and for NAME in %r also through load_insn_behavior on a real scratch file "
            "(line marker, ordinary line, the generated line, ordinary line; every body of up to %d tokens and every longer one that contains a marker)%s; 13 body-less lines per name.  "
            "K: every arrangement of 0..%d statements from %r in each of the zones before / inside / after the two markers (at most %d statements per body) x spacings %r, through split_compounds, "
            "split_resolved_shortcode and load_insn_behavior.  Verdicts come from the scanners in vf.c19ref (strict / tolerant / malformed line; strict / tolerant / other compound).  "
            "distinct_nontrivial = generated bodies containing a bracket, comma, semicolon, blank or marker + generated compound bodies + bundled lines "
            "(measured; bodies are pairwise different by construction, checked on the bodies of up to 6 tokens)."
            % (
                len(R.line_variants("a")),
                P["maxlen"],
                list(R.TOKENS),
                list(names),
                len(R.line_variants("a")),
                list(P["load_names"]),
                P["load_full"],
                ("; plus every body of exactly %d tokens with NAME 'A1' through split_resolved_shortcode" % P["deep"]) if P["deep"] else "",
                maxn,
                list(R.STATEMENTS[:k]),
                maxtotal,
                list(R.LAYOUTS),
            )
        ),
        max_body_tokens=P["deep"] or P["maxlen"],
        names=list(names),
        line_variants=[v[0] for v in R.line_variants("a")],
    )
    return ctx.finish(
        cov,
        assumptions=[
            "line format: insn(NAME, BODY) from column 0, BODY = everything up to the last ')' of the line, NAME over [A-Za-z0-9_]+ (the loader compiles its pattern with re.ASCII)",
            "blanks/CR between the final ')' and the line end, a missing blank after the comma, a non-ASCII letter in NAME and an empty BODY are blemishes: rejecting the line or reading it as the tolerant scanner does are both admissible, anything else is a violation",
            "any exception counts as rejection; a line whose first character is '#' is a preprocessor line marker and is skipped by design; a blank line may be rejected or skipped",
            "compound format: '{' PRE M BLK M POST '}' with exactly two markers M = __COMPOUND_PART1__; bodies with one marker may be rejected or kept whole; of bodies with three or more markers, or with markers at places where PRE/BLK/POST are not bracket-balanced, only 'not silently skipped' is demanded",
            "statement comparison is modulo blanks around statements and modulo plain blocks that are statements of their own ({ {a;} b; } and { a; b; } have the same statement sequence); the cut between the parts must be where the second marker stood",
            "files with two lines of the same NAME are outside the property (the dictionary keeps one entry per name); the bundled file is checked to have none",
        ],
    )


def work_lines_deep(item):
    """Bodies of exactly `deep` tokens (shorter ones were covered by the full product), name A1,
    function level."""
    prefix, stack, deep, done = item
    agg = Agg()
    ntok_min = done + 1
    for body in bodies_exact(prefix, stack, deep, ntok_min):
        agg.n("bodies")
        agg.n("bodies_deep")
        if R.nontrivial_body(body):
            agg.n("bodies_nontrivial")
        lines_of_body(agg, body, ("A1",), ())
    return agg.result()


def bodies_exact(prefix, stack, maxlen, minlen):
    """bodies_from restricted to sequences of at least minlen tokens (token count recomputed by
    an independent tokenisation of the string: the decomposition is unique)."""
    for body in R.bodies_from(prefix, stack, maxlen):
        if count_tokens(body) >= minlen:
            yield body


_TOKS_BY_LEN = sorted(R.TOKENS, key=len, reverse=True)


def count_tokens(body):
    i = 0
    n = 0
    while i < len(body):
        for t in _TOKS_BY_LEN:
            if body.startswith(t, i):
                i += len(t)
                n += 1
                break
        else:
            raise core.HarnessError("untokenisable body %r" % (body,))
    return n


def count_balanced(maxlen):
    """Number of balanced token sequences of 1..maxlen tokens, by dynamic programming over
    (length, nesting depth): an opener has len(TOK_OPEN) choices, the closer is determined by
    the innermost opener, a neutral token has len(TOK_NEUTRAL) choices."""
    no, nn = len(R.TOK_OPEN), len(R.TOK_NEUTRAL)
    row = {0: 1}
    tot = 0
    for _ in range(maxlen):
        nxt = {}
        for d, c in row.items():
            nxt[d + 1] = nxt.get(d + 1, 0) + c * no
            nxt[d] = nxt.get(d, 0) + c * nn
            if d > 0:
                nxt[d - 1] = nxt.get(d - 1, 0) + c
        row = nxt
        tot += row.get(0, 0)
    return tot


def replay(ctx, path):
    with open(path) as f:
        case = json.load(f)
    setup()
    try:
        v = eval_case(case)
    finally:
        scratch_off()
    if v is not None:
        why, ids = v
        known = bool(ids) and all(i in ctx.known for i in ids)
        print("VIOLATION property=%s replay=%s" % (ctx.pid, path))
        print("  %s%s" % (why, ("  [rule %s%s]" % ("+".join(ids), ", listed as known finding" if known else "")) if ids else ""))
        return 1
    print("replay: property holds on this case")
    return 0
