"""C20  Macro resolution equals standard C preprocessing under the patched macro set.

Four finite spaces, each enumerated completely, all driven through the real PreprocessorHexagon
(with Conf.get_path rebound to a scratch directory, so nothing is ever written under the repository):

 (i)  bundled: run_preprocess_steps() on the bundled inputs; the regenerated shortcode_resolved.h must
      equal the bundled one (byte-wise, `#line` path prefixes normalised); every resolved instruction
      must equal, token-wise, reference-merge + clang -E + reference do-while(0) stripper; the macro set
      of the regenerated macros_patched.h must equal the reference macro set (clang -dM); names
      one-to-one; no invocation of a defined macro survives.
 (A)  generated macro files x patch files through the real cleanup_macros/patch_macros
      (preprocess_macros), compared with the reference merge by expanding probes with clang.
 (B1) generated macro files x patch files through the whole pipeline (pcpp twice + stripping).
 (B2) fixed wrapper macro sets x generated bodies through the whole pipeline.
 (C)  generated valid-C bodies through the real replace_do_while_0 against the brace-matching stripper.

A failing case is attributed to a known finding only if the code's result equals the reference
evaluated under exactly that finding's deviation rule; everything else is a VIOLATION.
"""
import contextlib
import functools
import io
import itertools
import json
import multiprocessing
import os
import re
import shutil
import signal
import tempfile
from pathlib import Path

from vf import core
from vf import c20ref as R

LEVEL = "exploration"

PP_DIR = "Resources/Hexagon/Preprocessor"
INPUT_FILES = ["shortcode.h", "macros.h", "macros.inc", "macros_mmvec.h", "patches_macros.h"]

F_JOIN = "KF-C20-continuation-join-drops-space"
F_FILTER = "KF-C20-line-filter-before-splice"
F_SPC = "KF-C20-dowhile-space-inside-parens"
F_PAIR = "KF-C20-dowhile-no-brace-matching"

# --------------------------------------------------------------------------------------
# scratch directory and the real preprocessor

_S = {"root": None, "orig_get_path": None, "bundled_dir": None, "top": None}


def _scratch_get_path(file, arch_name=""):
    root = _S["root"]
    if root is None:
        raise core.HarnessError("scratch root not set")
    p = str(file).replace("<REPO>", root).replace("<ARCH>", arch_name)
    if not p.startswith(_S["top"]):
        raise core.HarnessError("path escapes the scratch directory: %s" % p)
    return Path(p)


def _quiet():
    core.quiet_tqdm()
    with contextlib.redirect_stdout(io.StringIO()):
        import rzilcompiler.Helper as H

        H.LOG_LEVEL = -1
        import rzilcompiler.Preprocessor.Hexagon.PreprocessorHexagon as PH

    def _log(*a, **k):
        return None

    H.log = _log
    PH.log = _log


def scratch_base():
    """tmpfs if there is one (rewriting a small file costs 3 ms on the disk-backed /tmp here, 16 us on
    tmpfs, and the generated spaces rewrite the inputs for every case); /tmp otherwise."""
    b = os.environ.get("VERIF_SCRATCH_BASE")
    if b:
        return b
    if os.path.isdir("/dev/shm") and os.access("/dev/shm", os.W_OK | os.X_OK):
        return "/dev/shm"
    return "/tmp"


@contextlib.contextmanager
def scratch():
    """Rebind Conf.get_path into a fresh scratch tree; always restored and deleted."""
    _quiet()
    from rzilcompiler.Configuration import Conf, InputFile

    if _S["orig_get_path"] is None:
        _S["orig_get_path"] = Conf.__dict__["get_path"]
    try:
        bundled = Path(_S["orig_get_path"].__func__(InputFile.HEXAGON_PP_SHORTCODE_H)).parent
    except Exception:
        bundled = Path(core.REPO) / PP_DIR
    if not (bundled / "shortcode.h").exists():
        raise core.HarnessError("bundled preprocessor inputs not found in %s" % bundled)
    _S["bundled_dir"] = str(bundled)
    top = tempfile.mkdtemp(prefix="verif_c20_", dir=scratch_base())
    owner = os.getpid()
    _S["top"] = top
    _S["root"] = None
    Conf.get_path = staticmethod(_scratch_get_path)
    janitor = _start_janitor(owner, top)
    try:
        yield top
    finally:
        if os.getpid() == owner:
            Conf.get_path = _S["orig_get_path"]
            _S["root"] = None
            shutil.rmtree(top, ignore_errors=True)
            try:
                os.kill(janitor, signal.SIGKILL)
                os.waitpid(janitor, 0)
            except OSError:
                pass


def _start_janitor(owner, top):
    """A small forked process that removes the scratch tree if the check is killed (the finally
    clause does not run on SIGTERM/SIGKILL)."""
    pid = os.fork()
    if pid:
        return pid
    try:
        devnull = os.open(os.devnull, os.O_RDWR)
        for fd in (0, 1, 2):
            os.dup2(devnull, fd)
        os.closerange(3, 256)
        import time

        while os.getppid() == owner:
            time.sleep(0.5)
        shutil.rmtree(top, ignore_errors=True)
    finally:
        os._exit(0)


def use_root(name):
    """Select (and create) the scratch repository `name` under the scratch top directory."""
    root = os.path.join(_S["top"], name)
    os.makedirs(os.path.join(root, PP_DIR), exist_ok=True)
    _S["root"] = root
    return os.path.join(root, PP_DIR)


def worker_dir():
    return use_root("w%d" % os.getpid())


_WCACHE = {}


def write_inputs(d, files, outputs=("macros_patched.h", "combined.h", "shortcode_resolved_tmp.h", "shortcode_resolved.h")):
    """Input files of one case (rewritten only when the content changes); stale outputs removed so
    that a step that silently writes nothing cannot pass on the previous case's file."""
    for n in INPUT_FILES:
        p = os.path.join(d, n)
        c = files.get(n, "")
        if _WCACHE.get(p) != c:
            with open(p, "w") as f:
                f.write(c)
            _WCACHE[p] = c
    for n in outputs:
        try:
            os.unlink(os.path.join(d, n))
        except FileNotFoundError:
            pass


def new_pp():
    from rzilcompiler.Configuration import Conf, InputFile
    from rzilcompiler.Preprocessor.Hexagon.PreprocessorHexagon import PreprocessorHexagon

    return PreprocessorHexagon(Conf.get_path(InputFile.HEXAGON_PP_SHORTCODE_H))


def call_code(fn):
    """-> ('ok', None) | ('exc', class name, message).  pcpp may call sys.exit."""
    err = io.StringIO()
    try:
        with contextlib.redirect_stderr(err), contextlib.redirect_stdout(io.StringIO()):
            fn()
    except (Exception, SystemExit) as e:
        return ("exc", type(e).__name__, (str(e) + " " + err.getvalue())[:300])
    return ("ok", None)


def read(p):
    with open(p) as f:
        return f.read()


# --------------------------------------------------------------------------------------
# reference helpers

UNIVERSE = ["A", "B", "F", "G", "H", "U", "V", "W", "W2", "W3", "SEQ", "CAT", "ID"]


def macro_files_of(files):
    return [(files.get("macros.inc", ""), False), (files.get("macros.h", ""), False), (files.get("macros_mmvec.h", ""), True)]


def kind_probes(names):
    return "".join("#ifdef %s\nC20KIND_%s %s\n#endif\n" % (n, n, n) for n in names)


def cpp_checked(text):
    """clang's expansion; gcc must agree token-wise (the generated space stays inside what both
    standard preprocessors define identically)."""
    a = R.cpp(text, "clang")
    b = R.cpp(text, "gcc")
    if R.ctokens(a) != R.ctokens(b):
        raise core.HarnessError("clang and gcc disagree on a generated input:\n%s\n--- clang\n%s\n--- gcc\n%s" % (text[:1500], a[:800], b[:800]))
    return a


def ref_resolve(files, names=UNIVERSE, deviate=()):
    """Reference: merge + standard preprocessing + wrapper stripping.
    -> (list of (name, tokens)) for every insn line, dict macro name -> function_like, other lines"""
    out = cpp_checked(ref_input(files, deviate) + "\n" + kind_probes(names))
    insns = []
    kinds = {}
    stray = []
    for ln in out.split("\n"):
        if not ln.strip():
            continue
        if ln.startswith("C20KIND_"):
            toks = R.ctokens(ln)
            name = toks[0][len("C20KIND_") :]
            kinds[name] = (toks[1:] == [name], ())
            continue
        sp = R.split_insn_line(ln)
        if sp is None:
            stray.append(ln)
            continue
        insns.append((sp[0], R.strip_wrappers(R.ctokens(sp[1]))))
    return insns, kinds, stray


def code_resolved_lines(text):
    """Lines of a resolved file produced by the code: ('#line', ..) dropped; the rest split with the
    reference scanner."""
    out = []
    stray = []
    for ln in text.split("\n"):
        if not ln.strip() or ln.startswith("#line"):
            continue
        sp = R.split_insn_line(ln)
        if sp is None:
            stray.append(ln)
        else:
            out.append((sp[0], R.ctokens(sp[1])))
    return out, stray


# ---- deviation rules of the known findings (macro file level)


_COMMENT_LOOK = re.compile(r"(\s*//)|(/\*)|(\s*\*)")


def ref_macros(files, rules=()):
    """Active text of the three macro headers.  rules = () is the standard reading (splice, then
    directives; comments left to the preprocessor).  Deviation rules of the known findings:
    F_FILTER: physical lines are filtered *before* continuation lines are spliced - blank lines,
              lines that look like comment lines (start with //, /* at column 0, or white space and *)
              and directive lines are removed/evaluated one physical line at a time, so a logical line
              loses such a physical line and, if it was its last one, swallows the next kept line
              (also across header boundaries);
    F_JOIN:   white space in front of a backslash-newline is lost, so an unindented continuation line
              merges with the token before the backslash."""
    defined = set()
    parts = []
    filt = F_FILTER in rules
    for text, is_vec in macro_files_of(files):
        if filt:
            text = "".join(ln + "\n" for ln in text.split("\n") if ln != "" and not _COMMENT_LOOK.match(ln))
        parts.append(R.ref_macro_text(text, is_vec, defined, physical=filt))
    t = "".join(parts) if filt else "\n".join(parts)
    if F_JOIN in rules:
        t = re.sub(r"[ \t]+\\\n(?=\S)", r"\\\n", t)
    return t


def ref_input(files, rules=(), shortcode=True):
    """What the reference hands to the C preprocessor: originals, then the patch file (a later
    definition replaces all earlier ones; new names are added), then the shortcode."""
    p = files.get("patches_macros.h", "")
    return ref_macros(files, rules) + "\n" + p + ("" if p.endswith("\n") else "\n") + "\n" + (files.get("shortcode.h", "") if shortcode else "")


_TRIG_JOIN = re.compile(r"[ \t]\\\n\S")
_TRIG_FILTER = re.compile(r"\\\n(?:\n|\s*//|/\*|\s*\*|#\s*(?:if|else|endif|include))")


def macro_rule_candidates(files):
    """Rule sets whose syntactic trigger occurs in the raw headers (cheap filter; attribution itself
    is by outcome)."""
    raw = "\n".join(t for t, _ in macro_files_of(files))
    tj = _TRIG_JOIN.search(raw) is not None
    tf = _TRIG_FILTER.search(raw) is not None or any(t.rstrip("\n").endswith("\\") for t, _ in macro_files_of(files))
    out = []
    if tj:
        out.append((F_JOIN,))
    if tf:
        out.append((F_FILTER,))
        out.append((F_JOIN, F_FILTER))
    return out


def ends_in_continuation(files, rules):
    return ref_macros(files, rules).rstrip("\n").endswith("\\")


# ---- deviation rules of the known findings (do-while level)

def tokens_glue(text):
    """[(token, glued)] glued = no white space between this token and the previous one."""
    out = []
    glued = False
    for kind, tok in ((m.lastgroup, m.group(0)) for m in R._TOK.finditer(text)):
        if kind == "ws":
            glued = False
            continue
        out.append((tok, glued))
        glued = True
    return out


def _is_close(tg, j, tight):
    if [t for t, _ in tg[j : j + 5]] != ["}", "while", "(", "0", ")"]:
        return False
    if tight and not (tg[j + 3][1] and tg[j + 4][1]):
        return False
    return True


def strip_model(text, tight, pair_last):
    """Stripper under deviation rules: tight = only `(0)` without inner white space is a wrapper end
    (F_SPC); pair_last = no brace matching: the last `do {` is paired with the last `} while (0)` that
    follows it, repeatedly (F_PAIR)."""
    tg = tokens_glue(text)
    if not pair_last:
        return _strip_tight(tg, tight)
    while True:
        found = None
        for i in range(len(tg) - 2, -1, -1):
            if tg[i][0] == "do" and tg[i + 1][0] == "{":
                for j in range(len(tg) - 5, i + 1, -1):
                    if _is_close(tg, j, tight):
                        found = (i, j)
                        break
                if found:
                    break
        if not found:
            return [t for t, _ in tg]
        i, j = found
        tg = tg[:i] + tg[i + 2 : j] + tg[j + 5 :]


def _strip_tight(tg, tight):
    toks = [t for t, _ in tg]
    out = []
    i = 0
    while i < len(tg):
        if toks[i] == "do" and i + 1 < len(tg) and toks[i + 1] == "{":
            j = R.match_brace(toks, i + 1)
            if j is not None and _is_close(tg, j, tight):
                out.extend(_strip_tight(tg[i + 2 : j], tight))
                i = j + 5
                continue
        out.append(toks[i])
        i += 1
    return out


def attribute_strip(pre_text, got_toks):
    """Which do-while findings explain `got` as the stripping of `pre_text`?"""
    if got_toks == strip_model(pre_text, True, False):
        return [F_SPC]
    if got_toks == strip_model(pre_text, False, True):
        return [F_PAIR]
    if got_toks == strip_model(pre_text, True, True):
        return [F_SPC, F_PAIR]
    return None


# --------------------------------------------------------------------------------------
# (C) replace_do_while_0 on generated bodies

ATOMS = ["a = 1;", "redo(x);", "do_x = while0;", "undo = redo + do_x;"]
UNARY_C = [
    "do { %s } while (0);",
    "do{%s}while(0);",
    "do  {\t%s }  while  (0) ;",
    "do { %s } while ( 0 );",
    "do { %s } while (1);",
    "if (c) { %s }",
    "{ %s }",
    "while (0) { %s }",
]
BINARY_C = ["if (c) { %s } else { %s }"]


def make_grammar(atoms, unary, binary):
    """Statement sequences by node count: an atom is one node, a compound statement is one node plus
    the nodes of its (possibly empty) bodies."""

    @functools.lru_cache(maxsize=None)
    def stmts(n):
        if n == 0:
            return ("",)
        out = []
        for k in range(1, n + 1):
            for s in stmt(k):
                for rest in stmts(n - k):
                    out.append((s + " " + rest).strip())
        return tuple(out)

    @functools.lru_cache(maxsize=None)
    def stmt(n):
        out = []
        if n == 1:
            out.extend(atoms)
        for inner in stmts(n - 1):
            for u in unary:
                out.append(u % inner)
        for k in range(0, n):
            for i1 in stmts(k):
                for i2 in stmts(n - 1 - k):
                    for b in binary:
                        out.append(b % (i1, i2))
        return tuple(out)

    return stmts


def bodies(atoms, unary, binary, nmax):
    """All statement sequences with 1..nmax nodes."""
    g = make_grammar(tuple(atoms), tuple(unary), tuple(binary))
    out = []
    for n in range(1, nmax + 1):
        out.extend(g(n))
    return out


def check_body_line(line):
    """-> None | (why, finding_ids or None)"""
    from rzilcompiler.Preprocessor.Hexagon.PreprocessorHexagon import PreprocessorHexagon as P

    try:
        got = P.replace_do_while_0(line)
    except Exception as e:
        return ("replace_do_while_0 raises %r" % (e,), None)
    exp = R.strip_wrappers(R.ctokens(line))
    if not isinstance(got, str):
        return ("replace_do_while_0 returns %r" % type(got).__name__, None)
    gt = R.ctokens(got)
    if gt != exp:
        return ("stripping differs: expected `%s` got `%s`" % (" ".join(exp), got.strip()), attribute_strip(line, gt))
    if got.count("\n") != 1 or not got.endswith("\n"):
        return ("line structure changed: %r" % got[-20:], None)
    return None


_C_BODIES = None


def work_c(item):
    lo, hi = item
    n = 0
    nontrivial = 0
    bad = []
    for b in _C_BODIES[lo:hi]:
        line = "insn(X, { %s })\n" % b
        n += 1
        if R.count_wrappers(R.ctokens(line)):
            nontrivial += 1
        r = check_body_line(line)
        if r:
            bad.append((line, r[0], r[1]))
    return n, nontrivial, bad


# --------------------------------------------------------------------------------------
# (A)/(B1) generated macro files and patch files

ITEMS = {
    "obj": ["#define A (a1 + B)"],
    "dup": ["#define A (a2)"],
    "objB": ["#define B b1"],
    "fun": ["#define F(x) (x + A)"],
    "fdup": ["#define F(x) f2(x)"],
    "cont": ["#define G(x, y) do { x = y; \\", "        F(y); } while (0)"],
    "cont3": ["#define B (b3 + \\", "    b4 + \\", "    b5)"],
    "contU": ["#define B b6 - \\", "-b7"],
    "contT": ["#define B b10\t\\", "b11"],  # a TAB before the backslash, next line in column 0: two tokens
    "contN": ["#define B b12\t\\", "+ b13"],
    "contS": ["#define H(x) x \\", "    * A"],
    "qg": ["#ifdef QEMU_GENERATE", "#define A (a3)", "#endif"],
    "qge": ["#ifdef QEMU_GENERATE", "#define F(x) f3(x, \\", "    ctx)", "#else", "#define F(x) f4(x)", "#endif"],
    "uo": ["#ifdef CONFIG_USER_ONLY", "#define G(x, y) do { } while (0) /* nothing */", "#else", "#define G(x, y) g5(x, y);", "#endif"],
    "uo1": ["#ifdef CONFIG_USER_ONLY", "#define B b8", "#endif"],
    # negated guards of the two special symbols (both are undefined: the block is active), and guards of other symbols
    "qgn": ["#ifndef QEMU_GENERATE", "#define A (a4)", "#endif"],
    "uone": ["#ifndef CONFIG_USER_ONLY", "#define B b14", "#else", "#define B b15", "#endif"],
    "oth": ["#ifdef TARGET_SOMETHING", "#define A (a5)", "#endif"],
    "othn": ["#ifndef TARGET_SOMETHING", "#define F(x) f6(x)", "#endif"],
    # nested guards: a block inside a dropped block is dropped whatever its own guard says
    "nestDK": ["#ifdef QEMU_GENERATE", "#ifndef CONFIG_USER_ONLY", "#define A (a6)", "#endif", "#endif"],
    "nestDE": ["#ifdef QEMU_GENERATE", "#ifdef CONFIG_USER_ONLY", "#define B b16", "#else", "#define B b17", "#endif", "#endif"],
    "nestKD": ["#ifndef QEMU_GENERATE", "#ifdef CONFIG_USER_ONLY", "#define A (a7)", "#else", "#define F(x) f7(x)", "#endif", "#define B b18", "#endif"],
    "nestEK": ["#ifdef QEMU_GENERATE", "#define A (a8)", "#else", "#ifndef TARGET_SOMETHING", "#define A (a9)", "#endif", "#endif"],
    "nest3": ["#ifndef TARGET_SOMETHING", "#ifdef CONFIG_USER_ONLY", "#ifndef QEMU_GENERATE", "#define B b19", "#endif", "#define F(x) f8(x)", "#endif", "#endif"],
    "cm1": ["/* #define A (c1) */"],
    "cm2": ["// #define A (c2)"],
    "cm3": ["/*", " * #define B c3", " */"],
    "inc": ['#include "cpu.h"'],
    "blank": [""],
    "tc": ["#define B b9 /* trailing */"],
}
ITEM_NAMES = list(ITEMS)

PATCH_HEAD = ["// patches", "", "#define DEF_SHORTCODE(TAG, SHORTCODE) insn(TAG, SHORTCODE)", ""]
PATCHES = {
    "pA": ["#define A (pa)"],
    "pF": ["#define F(x) pf(x, B)"],
    "pG": ["#define G(x, y) \\", "    pg(x); \\", "    pg(y)"],
    "pU": ["#define U(x) u(x, A)"],
    "pV": ["#define V \\", "  (v1 + B)", ""],
}
PATCH_NAMES = list(PATCHES)

SHORTCODE_HEAD = "#ifndef DEF_SHORTCODE\n#define DEF_SHORTCODE(TAG,SHORTCODE)    /* Nothing */\n#endif\n"
PROBES = [
    ("p_obj", "{ r = A; s = B; }"),
    ("p_fun", "{ F(1); G(r, s); H(3); }"),
    ("p_usr", "{ U(2); t = V; }"),
    ("p_mix", "{ G(p, q); if (c) { G(p, F(q)); } redo(A); do_x = while0; }"),
    ("p_plain", "{ x = 1; }"),
]
PROBE_TEXT = SHORTCODE_HEAD + "".join("DEF_SHORTCODE(%s, %s)\n" % p for p in PROBES)
PLACEMENTS = ["h", "split", "vec"]


def macro_case_files(items, placement, patch):
    lines = [ITEMS[i] for i in items]
    flat = lambda ls: "".join(x + "\n" for grp in ls for x in grp)  # noqa
    files = {"macros.inc": "", "macros.h": "", "macros_mmvec.h": ""}
    if placement == "h":
        files["macros.h"] = flat(lines)
    elif placement == "split":
        files["macros.inc"] = flat(lines[:1])
        files["macros.h"] = flat(lines[1:])
    elif placement == "vec":
        files["macros_mmvec.h"] = flat(lines)
    else:
        raise core.HarnessError("placement %r" % (placement,))
    files["patches_macros.h"] = "".join(x + "\n" for x in PATCH_HEAD) + "".join(x + "\n" for p in patch for x in PATCHES[p])
    return files


def patch_sets(max_patches):
    return [c for k in range(0, max_patches + 1) for c in itertools.combinations(PATCH_NAMES, k)]


def macro_pairs(k):
    """(items, placement) with exactly k items - complete; `qge` in the vector header is outside the
    documented contract (no meaning for #else of a transparent block) and is left out; split needs
    two items."""
    out = []
    for items in itertools.product(ITEM_NAMES, repeat=k):
        for pl in PLACEMENTS:
            if pl == "vec" and ("qge" in items or "nestEK" in items):
                continue
            if pl == "split" and k < 2:
                continue
            out.append((items, pl))
    return out


def macro_cases(table):
    """table: {number of items: max patches}.  (items, placement, patch) - the complete product."""
    return [(items, pl, patch) for k, mp in sorted(table.items()) for items, pl in macro_pairs(k) for patch in patch_sets(mp)]


UNDEFS = "".join("#undef %s\n" % n for n in UNIVERSE + ["DEF_SHORTCODE"])


def code_patched_text(d, files):
    """macros_patched.h as written by the real preprocess_macros()."""
    write_inputs(d, files, outputs=("macros_patched.h",))
    pp = new_pp()
    st = call_code(pp.preprocess_macros)
    if st[0] != "ok":
        return st
    p = os.path.join(d, "macros_patched.h")
    if not os.path.exists(p):
        return ("exc", "NoOutput", "macros_patched.h not written")
    return ("ok", read(p))


def ref_patched_text(files, deviate=()):
    return ref_input(files, deviate, shortcode=False)


class Sec:
    """Expansion of one section: compared as text first (white space runs collapsed), token-wise only
    when the texts differ."""

    __slots__ = ("text", "_t")

    def __init__(self, text):
        self.text = text
        self._t = None

    @property
    def toks(self):
        if self._t is None:
            self._t = R.ctokens(self.text)
        return self._t

    def __eq__(self, o):
        return isinstance(o, Sec) and (self.text == o.text or self.toks == o.toks)

    def __ne__(self, o):
        return not self.__eq__(o)

    __hash__ = None


_WS = re.compile(r"[ \t]+")
_SECLINE = re.compile(r"C20SEC_(\d+)")


def _split_sections(out, n):
    res = []
    cur = None
    seen_end = False
    for ln in out.split("\n"):
        s = ln.strip()
        if not s:
            continue
        m = _SECLINE.fullmatch(s)
        if m:
            if int(m.group(1)) != len(res):
                return None
            cur = []
            res.append(cur)
            continue
        if s == "C20END":
            seen_end = True
            cur = None
            continue
        if cur is not None:
            cur.append(_WS.sub(" ", s))
    if not seen_end or len(res) != n:
        return None
    return [Sec("\n".join(x)) for x in res]


_ERRLINE = re.compile(r"^<stdin>:(\d+):(?:\d+:)? (?:fatal )?error", re.M)


def _run_tool(text, tool, starts, n):
    """-> (list of Sec or None if the section markers did not survive, set of sections with errors)"""
    rc, out, err = R.cpp_try(text, tool)
    bad = set()
    for m in _ERRLINE.finditer(err):
        ln = int(m.group(1))
        k = 0
        while k + 1 < len(starts) and starts[k + 1] <= ln:
            k += 1
        bad.add(k)
    secs = _split_sections(out, n)
    if rc != 0 and not bad:
        secs = None
    return secs, bad


def expand_sections(sections):
    """sections: list of macro texts; each is followed by the probes and by #undef of every name of
    the universe; one clang run and one gcc run for all (both keep going after an error, and report
    its line).  -> per section a Sec, or a string saying why there is none (an error was reported
    inside the section, or the two preprocessors disagree on it).  A batch whose section markers do
    not survive (an unterminated invocation or comment swallows them) is split and re-run."""
    parts = []
    starts = []
    line = 1
    for k, s in enumerate(sections):
        t = "C20SEC_%d\n%s\n%s%s" % (k, s, PROBE_TEXT, UNDEFS)
        starts.append(line)
        line += t.count("\n")
        parts.append(t)
    parts.append("C20END\n")
    text = "".join(parts)
    n = len(sections)
    rc_, bc = _run_tool(text, "clang", starts, n)
    rg_, bg = _run_tool(text, "gcc", starts, n) if rc_ is not None else (None, set())
    if rc_ is None or rg_ is None:
        if n == 1:
            return ["rejected: the preprocessor output cannot be delimited"]
        h = n // 2
        return expand_sections(sections[:h]) + expand_sections(sections[h:])
    out = []
    for k in range(n):
        if k in bc or k in bg:
            out.append("rejected: %s reports an error" % ("clang" if k in bc else "gcc"))
        elif rc_[k] != rg_[k]:
            out.append("clang and gcc disagree")
        else:
            out.append(rc_[k])
    return out


_TRIVIAL = None


def trivial_tokens():
    global _TRIVIAL
    if _TRIVIAL is None:
        _TRIVIAL = expand_sections(["#define DEF_SHORTCODE(TAG, SHORTCODE) insn(TAG, SHORTCODE)"])[0]
    return _TRIVIAL


def judge_macro_case(files, code, ref_toks, code_toks, dev):
    """code: result of code_patched_text; ref_toks/code_toks: probe expansions (code_toks is a string
    if the code's file was rejected, None if there is no file); dev: [(rules, deviated text or None,
    its expansion or a string)] for the candidate rule sets.
    -> None | (why, finding ids or None)"""
    if isinstance(ref_toks, str):
        raise core.HarnessError("reference input %s:\n%s" % (ref_toks, ref_patched_text(files)))
    rejected = isinstance(code_toks, str)
    if code[0] != "ok":
        why = "preprocess_macros raises %s: %s" % (code[1], code[2])
    elif rejected:
        why = "macros_patched.h is not accepted by the C preprocessor (%s): %r" % (code_toks, code[1][-200:])
    elif code_toks != ref_toks:
        ct, rt = code_toks.toks, ref_toks.toks
        k = next((i for i, (x, y) in enumerate(itertools.zip_longest(ct, rt)) if x != y), 0)
        why = "patched macro set differs: probes expand to `.. %s`, reference `.. %s`" % (" ".join(ct[max(0, k - 8) : k + 10]), " ".join(rt[max(0, k - 8) : k + 10]))
    else:
        return None
    for rules, dtext, dt in dev:
        if dtext is None:
            continue
        if code[0] != "ok":
            if code[1] == "IndexError" and F_FILTER in rules and ends_in_continuation(files, rules):
                return (why, list(rules))
            continue
        if not rejected:
            if not isinstance(dt, str) and dt == code_toks:
                return (why, list(rules))
        elif isinstance(dt, str) and _macro_defs(dtext) == _macro_defs(code[1]):
            # both texts are rejected when the probes are expanded (unbalanced garbage): the same
            # macro definitions (clang -dM, no expansion involved) is the strongest statement left
            return (why, list(rules))
    return (why, None)


def _macro_defs(text):
    try:
        return R.macro_set(text)
    except core.HarnessError:
        return {"__rejected__": len(text)}


def dev_text(files, rules):
    try:
        return ref_patched_text(files, rules)
    except core.HarnessError:
        return None  # the deviated reading is not a well-formed header: this rule set explains nothing


def check_macro_case(d, files):
    """One case on its own (replay)."""
    code = code_patched_text(d, files)
    cands = [(rules, dev_text(files, rules)) for rules in macro_rule_candidates(files)]
    secs = [ref_patched_text(files)] + ([code[1]] if code[0] == "ok" else []) + [t for _, t in cands if t is not None]
    ex = expand_sections(secs)
    ref_toks = ex[0]
    code_toks = ex[1] if code[0] == "ok" else None
    it = iter(ex[2 if code[0] == "ok" else 1 :])
    dev = [(rules, t, next(it) if t is not None else None) for rules, t in cands]
    return ref_toks, judge_macro_case(files, code, ref_toks, code_toks, dev)


_A_PAIRS = None
_A_PATCHSETS = None
A_CASES_PER_BATCH = 360


def work_a(item):
    k, lo, hi = item
    d = worker_dir()
    cases = [(items, pl, patch) for items, pl in _A_PAIRS[k][lo:hi] for patch in _A_PATCHSETS[k]]
    plan = []  # per case: files, code, index of R section, index of C section, [(rules, text, index)]
    secs = []
    memo = {}  # the reference reading of the headers does not depend on the patch file

    def ref_of(c, files, rules):
        key = (c[0], c[1], rules)
        if key not in memo:
            try:
                memo[key] = ref_macros(files, rules)
            except core.HarnessError:
                if not rules:
                    raise
                memo[key] = None  # the deviated reading is not a well-formed header
        m = memo[key]
        if m is None:
            return None
        p = files["patches_macros.h"]
        return m + "\n" + p + ("" if p.endswith("\n") else "\n") + "\n"

    for c in cases:
        files = macro_case_files(*c)
        code = code_patched_text(d, files)
        ri = len(secs)
        secs.append(ref_of(c, files, ()))
        ci = None
        if code[0] == "ok":
            ci = len(secs)
            secs.append(code[1])
        dv = []
        ck = (c[0], c[1], "cand")
        if ck not in memo:
            memo[ck] = macro_rule_candidates(files)
        for rules in memo[ck]:
            t = ref_of(c, files, rules)
            dv.append((rules, t, len(secs) if t is not None else None))
            if t is not None:
                secs.append(t)
        plan.append((files, code, ri, ci, dv))
    toks = expand_sections(secs)
    bad = []
    nontrivial = 0
    triv = trivial_tokens()
    for c, (files, code, ri, ci, dv) in zip(cases, plan):
        rt = toks[ri]
        r = judge_macro_case(files, code, rt, toks[ci] if ci is not None else None, [(rules, t, toks[i] if i is not None else None) for rules, t, i in dv])
        if rt != triv:
            nontrivial += 1
        if r:
            bad.append((c, r[0], r[1]))
    return len(cases), nontrivial, bad


# --------------------------------------------------------------------------------------
# (B) whole pipeline


def run_pipeline(d, files):
    """run_preprocess_steps() on `files` -> ('ok', resolved text) | ('exc', ..)"""
    write_inputs(d, files)
    pp = new_pp()
    st = call_code(pp.run_preprocess_steps)
    if st[0] != "ok":
        return st
    p = os.path.join(d, "shortcode_resolved.h")
    if not os.path.exists(p):
        return ("exc", "NoOutput", "shortcode_resolved.h not written")
    return ("ok", read(p))


def pre_strip_text(d, files):
    """The resolved file before remove_onetime_do_whiles (steps called one by one; used only to
    attribute an already detected failure)."""
    write_inputs(d, files)
    pp = new_pp()
    st = call_code(lambda: (pp.preprocess_macros(), pp.preprocess_shortcode()))
    if st[0] != "ok":
        return None
    return read(os.path.join(d, "shortcode_resolved.h"))


def compare_pipeline(files, code, insns, kinds, stray):
    """-> list of (line name, why)"""
    fails = []
    if stray:
        raise core.HarnessError("reference produced non-insn output: %r" % stray[:3])
    if code[0] != "ok":
        return [("*", "run_preprocess_steps raises %s: %s" % (code[1], code[2]))]
    got, gstray = code_resolved_lines(code[1])
    if gstray:
        fails.append(("*", "resolved file has lines that are not insn(NAME, BODY): %r" % gstray[:2]))
    if [n for n, _ in got] != [n for n, _ in insns]:
        fails.append(("*", "instruction names not preserved one-to-one: %r vs %r" % ([n for n, _ in got][:8], [n for n, _ in insns][:8])))
        return fails
    for (n, gt), (_, et) in zip(got, insns):
        if gt != et:
            fails.append((n, "resolved body differs: expected `%s` got `%s`" % (" ".join(et)[:300], " ".join(gt)[:300])))
            continue
        sv = R.surviving_invocations(gt, kinds)
        if sv:
            fails.append((n, "invocation of defined macro survives: %s" % sorted(set(sv))))
    return fails


def check_pipeline_case(d, files, level):
    """-> (n lines, n nontrivial, None | (why, finding ids or None))"""
    code = run_pipeline(d, files)
    insns, kinds, stray = ref_resolve(files)
    raw = dict((n, R.ctokens(b)) for n, b in raw_shortcode(files["shortcode.h"]))
    nontrivial = sum(1 for n, t in insns if raw.get(n) != t)
    # cases outside the domain of the property: standard preprocessing itself leaves an invocation
    for n, t in insns:
        if R.surviving_invocations(t, kinds):
            return len(insns), nontrivial, ("__out_of_domain__", None)
    fails = compare_pipeline(files, code, insns, kinds, stray)
    if not fails:
        return len(insns), nontrivial, None
    why = "; ".join("%s: %s" % f for f in fails[:3])
    ids = None
    if level == "B1":
        for rules in macro_rule_candidates(files):
            if code[0] != "ok":
                if code[1] == "IndexError" and F_FILTER in rules and ends_in_continuation(files, rules):
                    ids = list(rules)
                    break
                continue
            try:
                di, dk, ds = ref_resolve(files, deviate=rules)
            except core.HarnessError:
                continue
            got, gstray = code_resolved_lines(code[1])
            if not ds and not gstray and got == di:
                ids = list(rules)
                break
            # stray text in the deviated reference is compared as a whole token stream
            if (ds or gstray) and _all_tokens(code[1]) == _deviated_stream(files, rules):
                ids = list(rules)
                break
            # the deviated macro set is recursive (standard preprocessing under it leaves an
            # invocation): the property says nothing about how such a set resolves; what can still be
            # stated is that the code's macros_patched.h holds exactly the deviated definitions
            if any(R.surviving_invocations(t, dk) for _, t in di):
                mp = os.path.join(d, "macros_patched.h")
                if os.path.exists(mp) and _macro_defs(read(mp)) == _macro_defs(ref_patched_text(files, rules)):
                    ids = list(rules)
                    break
    elif level == "B2" and code[0] == "ok":
        pre = pre_strip_text(d, files)
        if pre is not None:
            ids = attribute_pipeline_strip(pre, code[1], files)
    return len(insns), nontrivial, (why, ids)


def _all_tokens(resolved_text):
    return R.ctokens("\n".join(l for l in resolved_text.split("\n") if not l.startswith("#line")))


def _deviated_stream(files, rules):
    out = cpp_checked(ref_input(files, rules))
    return R.strip_wrappers(R.ctokens(out))


def attribute_pipeline_strip(pre, post, files):
    """All failing lines must be explained by the same do-while rule applied to the code's own
    pre-strip text, and that pre-strip text must be the standard expansion."""
    pre_l = [l for l in pre.split("\n") if l.strip() and not l.startswith("#line")]
    post_l = [l for l in post.split("\n") if l.strip() and not l.startswith("#line")]
    exp = cpp_checked(ref_input(files))
    exp_l = [l for l in exp.split("\n") if l.strip()]
    if not (len(pre_l) == len(post_l) == len(exp_l)):
        return None
    ids = set()
    for a, b, e in zip(pre_l, post_l, exp_l):
        if R.ctokens(a) != R.ctokens(e):
            return None
        bt = R.ctokens(b)
        if bt == R.strip_wrappers(R.ctokens(a)):
            continue
        r = attribute_strip(a, bt)
        if r is None:
            return None
        ids.update(r)
    return sorted(ids) or None


_DEF_SC = re.compile(r"^DEF_SHORTCODE\s*\(\s*(\w+)\s*,(.*)\)\s*$")


def raw_shortcode(text):
    out = []
    for ln in text.split("\n"):
        m = _DEF_SC.match(ln.strip())
        if m:
            out.append((m.group(1), m.group(2).strip()))
    return out


_B_CASES = None


def work_b(item):
    level, payload = _B_CASES[item]
    d = worker_dir()
    if level == "B1":
        files = macro_case_files(*payload)
        files["shortcode.h"] = PROBE_TEXT
    else:
        files = payload
    n, nt, r = check_pipeline_case(d, files, level)
    return level, n, nt, r


# ---- (B2) fixed wrapper macro sets x generated bodies

B2_MACROS = [
    "#define W(s) do { s; } while (0)\n"
    "#define W2(s, t) do { s; do { t; } while (0); } while (0)\n"
    "#define SEQ(s, t) do { s; } while (0); do { t; } while (0)\n"
    "#define CAT(x) x##_do\n"
    "#define ID(x) x\n"
    "#define A (a1 + B)\n"
    "#define B b1\n",
]
B2_MACROS_SPC = B2_MACROS[0] + "#define W3(s) do { s; } while ( 0 )\n"
B2_PATCH = "".join(x + "\n" for x in PATCH_HEAD) + "#define U(x) do { u(x); } while (0)\n"
B2_ATOMS = [
    "a = A;",
    "redo(x);",
    "do_x = while0;",
    "W(a = 1);",
    "W(W(b = 2));",
    "W2(a = 1, redo(B));",
    "SEQ(undo = 1, do_x = 2);",
    "CAT(re)(ID(x));",
    "U(3);",
]
B2_UNARY = ["do { %s } while (0);", "if (c) { %s }", "{ %s }", "W(if (c) { %s });"]
B2_BINARY = ["if (c) { %s } else { %s }"]
B2_CHUNK = 160


def b2_cases(table):
    """table: {header that receives the wrapper macro set: node bound}."""
    atoms = list(B2_ATOMS) + ["W3(a = 3);"]
    macros = B2_MACROS_SPC
    g = make_grammar(tuple(atoms), tuple(B2_UNARY), tuple(B2_BINARY))
    out = []
    total = 0
    for where, nmax in sorted(table.items()):
        bs = []
        for n in range(1, nmax + 1):
            bs.extend(g(n))
        total += len(bs)
        for lo in range(0, len(bs), B2_CHUNK):
            sc = SHORTCODE_HEAD + "".join("DEF_SHORTCODE(b%d, { %s })\n" % (lo + k, b) for k, b in enumerate(bs[lo : lo + B2_CHUNK]))
            files = {"macros.inc": "", "macros.h": "", "macros_mmvec.h": "", "patches_macros.h": B2_PATCH, "shortcode.h": sc}
            files[where] = macros
            out.append(files)
    return out, total


# --------------------------------------------------------------------------------------
# (i) bundled sources


def norm_line_directives(text):
    """`#line N "dir/file"` -> `#line N "file"`: the only place where the location of the checkout
    enters the generated files."""
    return re.sub(r'^(#line \d+ )"(?:[^"]*/)?([^"/]*)"$', r'\1"\2"', text, flags=re.M)


def bundled_check(_=None):
    """Runs in a forked child.  -> dict(counters), list of (case, why)"""
    d = use_root("bundled")
    src = _S["bundled_dir"]
    files = {n: read(os.path.join(src, n)) for n in INPUT_FILES}
    fails = []
    cnt = {}
    code = run_pipeline(d, files)
    if code[0] != "ok":
        return cnt, [({"clause": "regenerate"}, "run_preprocess_steps raises %s: %s" % (code[1], code[2]))]
    # clause: regeneration reproduces the bundled resolved file
    bundled_resolved = read(os.path.join(src, "shortcode_resolved.h"))
    a = norm_line_directives(code[1]).split("\n")
    b = norm_line_directives(bundled_resolved).split("\n")
    cnt["resolved_lines_compared"] = max(len(a), len(b))
    if a != b:
        diff = [(i + 1, x, y) for i, (x, y) in enumerate(itertools.zip_longest(a, b)) if x != y]
        fails.append(({"clause": "regeneration", "first_line": diff[0][0]}, "regenerated shortcode_resolved.h differs from the bundled one in %d lines; first at line %d: `%s` vs bundled `%s`" % (len(diff), diff[0][0], str(diff[0][1])[:120], str(diff[0][2])[:120])))
    for gen in ("macros_patched.h", "combined.h", "shortcode_resolved_tmp.h"):
        bp = os.path.join(src, gen)
        if os.path.exists(bp):
            same = norm_line_directives(read(os.path.join(d, gen))) == norm_line_directives(read(bp))
            cnt["bundled_%s_reproduced" % gen.replace(".", "_")] = bool(same)
    # reference expansion (clang, cross-checked by gcc line by line)
    text = ref_input(files)
    exp_c = [l for l in R.cpp(text, "clang").split("\n") if l.strip()]
    exp_g = [l for l in R.cpp(text, "gcc").split("\n") if l.strip()]
    if len(exp_c) != len(exp_g):
        raise core.HarnessError("clang and gcc produce different line counts on the bundled sources")
    ref = []
    uncertain = 0
    for lc, lg in zip(exp_c, exp_g):
        sp = R.split_insn_line(lc)
        if sp is None:
            raise core.HarnessError("reference expansion has a non-insn line: %r" % lc[:200])
        ok = R.ctokens(lc) == R.ctokens(lg)
        uncertain += 0 if ok else 1
        ref.append((sp[0], R.strip_wrappers(R.ctokens(sp[1])), ok))
    if uncertain * 100 > len(ref):
        raise core.HarnessError("clang and gcc disagree on %d bundled lines" % uncertain)
    cnt["oracle_uncertain_lines"] = uncertain
    # macro sets
    ms_ref = R.macro_set(ref_input(files, shortcode=False))
    ms_code = R.macro_set(read(os.path.join(d, "macros_patched.h")))
    cnt["macros_in_patched_set"] = len(ms_ref)
    for k in sorted(set(ms_ref) | set(ms_code)):
        if ms_ref.get(k) != ms_code.get(k):
            fails.append(({"clause": "macro_set", "macro": k}, "macro %s: macros_patched.h defines `%s`, reference merge `%s`" % (k, " ".join(ms_code[k][1]) if k in ms_code else None, " ".join(ms_ref[k][1]) if k in ms_ref else None)))
    # patch clauses stated directly on the reference side: every patch name is defined by its patch text
    patch_set = R.macro_set(files["patches_macros.h"])
    cnt["patches"] = len(patch_set)
    orig_set = R.macro_set(ref_macros(files))
    cnt["patches_replacing"] = sum(1 for k in patch_set if k in orig_set)
    cnt["patches_user_only"] = sum(1 for k in patch_set if k not in orig_set)
    for k, v in patch_set.items():
        if ms_code.get(k) != v:
            fails.append(({"clause": "patch", "macro": k}, "patch of %s is not the definition in effect in macros_patched.h" % k))
    # names and bodies
    got, gstray = code_resolved_lines(code[1])
    if gstray:
        fails.append(({"clause": "shape"}, "resolved file has %d lines that are not insn(NAME, BODY): %r" % (len(gstray), gstray[0][:120])))
    raw = raw_shortcode(files["shortcode.h"])
    cnt["definitions"] = len(raw)
    names_raw = [n for n, _ in raw]
    names_got = [n for n, _ in got]
    if len(set(names_raw)) != len(names_raw):
        raise core.HarnessError("bundled shortcode.h has duplicate names")
    if names_got != names_raw or [n for n, _, _ in ref] != names_raw:
        if [n for n, _, _ in ref] != names_raw:
            raise core.HarnessError("reference expansion does not preserve the names")
        miss = [n for n in names_raw if n not in set(names_got)]
        extra = [n for n in names_got if n not in set(names_raw)]
        fails.append(({"clause": "names"}, "names not preserved one-to-one: %d in shortcode.h, %d resolved; missing %r extra %r" % (len(names_raw), len(names_got), miss[:5], extra[:5])))
    gd = dict(got)
    rawd = dict((n, R.ctokens(b)) for n, b in raw)
    nontrivial = 0
    compared = 0
    for n, et, ok in ref:
        if n not in gd:
            continue
        if not ok:
            continue
        compared += 1
        if rawd.get(n) != et:
            nontrivial += 1
        if R.surviving_invocations(et, ms_ref):
            cnt["out_of_domain"] = cnt.get("out_of_domain", 0) + 1
            continue
        gt = gd[n]
        if gt != et:
            k = next((i for i, (x, y) in enumerate(itertools.zip_longest(gt, et)) if x != y), 0)
            fails.append(({"clause": "body", "name": n}, "%s: resolved body differs from standard preprocessing at token %d: got `%s` expected `%s`" % (n, k, " ".join(gt[max(0, k - 6) : k + 8]), " ".join(et[max(0, k - 6) : k + 8]))))
            continue
        sv = R.surviving_invocations(gt, ms_ref)
        if sv:
            fails.append(({"clause": "survivor", "name": n}, "%s: invocation of defined macro survives: %s" % (n, sorted(set(sv)))))
    cnt["bodies_compared"] = compared
    cnt["bodies_changed_by_resolution"] = nontrivial
    cnt["wrappers_stripped"] = sum(1 for lc in exp_c if R.count_wrappers(R.ctokens(lc)))
    return cnt, fails


def _bundled_child(conn):
    try:
        conn.send(("ok", bundled_check()))
    except core.HarnessError as e:
        conn.send(("harness", str(e)))
    except BaseException as e:  # noqa
        import traceback

        conn.send(("harness", "%r\n%s" % (e, traceback.format_exc()[-2000:])))
    finally:
        conn.close()


# --------------------------------------------------------------------------------------
# run / replay

TIERS = {
    # c_full/c_reduced: node bounds of (C) over the full / the reduced constructor set;
    # a: {number of macro-file items: max patches per patch file}; b1: the same for the pipeline;
    # b2: {placement: node bound}
    "quick": dict(c_full=4, c_reduced=0, a={1: 2, 2: 2, 3: 1}, b1={1: 1, 2: 1}, b2={"macros.h": 3, "macros_mmvec.h": 2}),
    "thorough": dict(c_full=4, c_reduced=5, a={1: 3, 2: 3, 3: 2, 4: 1}, b1={1: 2, 2: 2}, b2={"macros.h": 4, "macros_mmvec.h": 3}),
}
ATOMS_RED = ["a = 1;", "redo(x);", "do_x = while0;"]
UNARY_RED = ["do { %s } while (0);", "do { %s } while ( 0 );", "do { %s } while (1);", "if (c) { %s }", "while (0) { %s }"]


def ranges(n, size):
    return [(i, min(n, i + size)) for i in range(0, n, size)]


def run(ctx):
    global _C_BODIES, _A_PAIRS, _A_PATCHSETS, _B_CASES
    T = TIERS[ctx.tier]
    cov = {}
    pending = {"I": [], "C": [], "A": [], "B": []}
    with scratch():
        # (i) in a child of its own while the generated spaces use the pool
        mp = multiprocessing.get_context("fork")
        pconn, cconn = mp.Pipe(duplex=False)
        child = mp.Process(target=_bundled_child, args=(cconn,))
        child.start()
        cconn.close()
        try:
            # ---- (C)
            _C_BODIES = bodies(ATOMS, UNARY_C, BINARY_C, T["c_full"])
            n_full = len(_C_BODIES)
            if T["c_reduced"]:
                g = make_grammar(tuple(ATOMS_RED), tuple(UNARY_RED), tuple(BINARY_C))
                for n in range(T["c_full"] + 1, T["c_reduced"] + 1):
                    _C_BODIES.extend(g(n))
                del g
            res = core.pmap(work_c, ranges(len(_C_BODIES), 2000), seed=ctx.seed, chunk=1)
            cov["dowhile_bodies"] = sum(r[0] for r in res)
            cov["dowhile_bodies_full_alphabet"] = n_full
            cov["dowhile_bodies_with_wrapper"] = sum(r[1] for r in res)
            for n, nt, bad in res:
                for line, why, ids in bad:
                    pending["C"].append(({"kind": "dowhile", "line": line, "why": why}, ids, "replace_do_while_0(%r): %s" % (line.strip(), why)))
            ctx.sample({"kind": "dowhile", "line": "insn(X, { %s })" % _C_BODIES[n_full // 3]})
            ctx.log("C: %d bodies" % cov["dowhile_bodies"])
            _C_BODIES = None
            # ---- (A)
            _A_PAIRS = {k: macro_pairs(k) for k in T["a"]}
            _A_PATCHSETS = {k: patch_sets(mp) for k, mp in T["a"].items()}
            trivial_tokens()
            items = [(k, lo, hi) for k in sorted(_A_PAIRS) for lo, hi in ranges(len(_A_PAIRS[k]), max(1, A_CASES_PER_BATCH // len(_A_PATCHSETS[k])))]
            res = core.pmap(work_a, items, seed=ctx.seed, chunk=1)
            cov["macro_set_cases"] = sum(r[0] for r in res)
            cov["macro_set_cases_nontrivial"] = sum(r[1] for r in res)
            for n, nt, bad in res:
                for case, why, ids in bad:
                    pending["A"].append(({"kind": "macroset", "items": list(case[0]), "placement": case[1], "patch": list(case[2]), "files": macro_case_files(*case), "why": why}, ids, "macro files %s/%s patches %s: %s" % ("+".join(case[0]), case[1], "+".join(case[2]) or "-", why)))
            kmax = max(_A_PAIRS)
            mid = _A_PAIRS[kmax][len(_A_PAIRS[kmax]) // 2] + (_A_PATCHSETS[kmax][-1],)
            ctx.sample({"kind": "macroset", "items": list(mid[0]), "placement": mid[1], "patch": list(mid[2]), "files": macro_case_files(*mid)})
            ctx.log("A: %d macro-set cases" % cov["macro_set_cases"])
            del res
            # ---- (B1) + (B2)
            b1 = macro_cases(T["b1"])
            b2, nb2 = b2_cases(T["b2"])
            _B_CASES = [("B1", c) for c in b1] + [("B2", f) for f in b2]
            res = core.pmap(work_b, range(len(_B_CASES)), seed=ctx.seed, chunk=4)
            cov["pipeline_runs_macro_sets"] = len(b1)
            cov["pipeline_runs_body_chunks"] = len(b2)
            cov["pipeline_generated_bodies"] = nb2
            cov["pipeline_lines"] = sum(r[1] for r in res)
            cov["pipeline_lines_nontrivial"] = sum(r[2] for r in res)
            cov["pipeline_out_of_domain"] = 0
            for (level, payload), (_, n, nt, r) in zip(_B_CASES, res):
                if r is None:
                    continue
                if r[0] == "__out_of_domain__":
                    cov["pipeline_out_of_domain"] += 1
                    continue
                if level == "B1":
                    files = macro_case_files(*payload)
                    files["shortcode.h"] = PROBE_TEXT
                    label = "macro files %s/%s patches %s" % ("+".join(payload[0]), payload[1], "+".join(payload[2]) or "-")
                else:
                    files = payload
                    label = "wrapper macro set x %d bodies" % n
                pending["B"].append(({"kind": "pipeline", "level": level, "files": files, "why": r[0]}, r[1], "pipeline, %s: %s" % (label, r[0])))
            ctx.sample({"kind": "pipeline", "level": "B2", "shortcode_head": b2[0]["shortcode.h"].split("\n")[3:8], "macros": B2_MACROS_SPC.split("\n")})
            ctx.log("B: %d pipeline runs, %d lines" % (len(_B_CASES), cov["pipeline_lines"]))
            if cov["pipeline_out_of_domain"]:
                raise core.HarnessError("the generated pipeline space contains %d cases outside the property's domain" % cov["pipeline_out_of_domain"])
        finally:
            _C_BODIES = _A_PAIRS = _B_CASES = None
            try:
                msg = pconn.recv() if (child.is_alive() or pconn.poll()) else ("harness", "bundled child died")
            except EOFError:
                msg = ("harness", "bundled child died without a result")
            child.join()
        if msg[0] != "ok":
            raise core.HarnessError("bundled check: %s" % msg[1])
        cnt, fails = msg[1]
        for case, why in fails:
            case = dict(case)
            case["kind"] = "bundled"
            case["why"] = why
            pending["I"].append((case, None, "bundled sources: " + why))
        for k, v in cnt.items():
            cov["bundled_" + k if not k.startswith("bundled_") else k] = v
        ctx.sample({"kind": "bundled", "definitions": cnt.get("definitions"), "bodies_compared": cnt.get("bodies_compared")})
        ctx.log("i: bundled sources done")
    # every space gets its share of the printed VIOLATION lines (new violations before known findings)
    order = []
    rest = []
    for key, head in (("I", 8), ("C", 5), ("A", 5), ("B", 5)):
        new = [x for x in pending[key] if not (x[1] and all(i in ctx.known for i in x[1]))]
        old = [x for x in pending[key] if x[1] and all(i in ctx.known for i in x[1])]
        order.extend(new[:head])
        rest.extend(new[head:])
        rest.extend(old)
    for case, ids, what in order + rest:
        ctx.report(case, ids, what=what)
    evaluations = cov["dowhile_bodies"] + cov["macro_set_cases"] + cov["pipeline_lines"] + cov.get("bundled_bodies_compared", 0)
    nontrivial = cov["dowhile_bodies_with_wrapper"] + cov["macro_set_cases_nontrivial"] + cov["pipeline_lines_nontrivial"] + cov.get("bundled_bodies_changed_by_resolution", 0)
    cov.update(
        {
            "evaluations": evaluations,
            "distinct_nontrivial": nontrivial,
            "exhaustive": True,
            "rule": "(i) all DEF_SHORTCODE definitions of the working tree's shortcode.h under its macro/patch files through the real run_preprocess_steps in a scratch tree; "
            "(C) every statement sequence of <= %d nodes over atoms %r, unary %r, binary %r (and of %s nodes over atoms %r, unary %r) as `insn(X, { .. })` through replace_do_while_0; "
            "(A) every sequence of k macro-file items from %r x placement %r (qge not in the vector header; split needs 2 items) x every set of <= p patches from %r, {k: p} = %r, through preprocess_macros, %d probes expanded by clang (gcc must agree); "
            "(B1) the same product with {k: p} = %r through run_preprocess_steps on the probe definitions; "
            "(B2) every statement sequence of <= n nodes over atoms %r, unary %r, binary %r under the wrapper macro set placed in the header h, {h: n} = %r, through run_preprocess_steps. "
            "non-trivial = resolution changes the text (macro expanded / wrapper stripped / probe affected by the generated macro set)"
            % (T["c_full"], ATOMS, UNARY_C, BINARY_C, "%d..%d" % (T["c_full"] + 1, T["c_reduced"]) if T["c_reduced"] else "no further", ATOMS_RED, UNARY_RED, ITEM_NAMES, PLACEMENTS, PATCH_NAMES, T["a"], len(PROBES), T["b1"], B2_ATOMS + ["W3(a = 3);"], B2_UNARY, B2_BINARY, T["b2"]),
        }
    )
    return ctx.finish(
        cov,
        assumptions=[
            "standard C preprocessing = clang 14 -E -P -x assembler-with-cpp -undef (gcc 12 -E must agree token-wise; lines where they disagree are counted as oracle_uncertain and not judged)",
            "configuration of the macro headers: QEMU_GENERATE and CONFIG_USER_ONLY undefined; in macros_mmvec.h blocks guarded by QEMU_GENERATE (either polarity) are transparent; headers are read in the order macros.inc, macros.h, macros_mmvec.h; a later #define of a name replaces earlier ones",
            "directives start in column 0 in the form `#define NAME`, `#ifdef NAME`; conditionals are not nested except for a header guard; comment lines start with //, /* or ` *` (QEMU style) - other spellings are outside the generated alphabet",
            "generated macro sets are acyclic, so standard preprocessing leaves no invocation of a defined macro; cases where it would are outside the property's domain (none generated)",
            "token-wise comparison: white space between tokens is not significant",
        ],
    )


def replay(ctx, path):
    case = json.load(open(path))
    kind = case.get("kind")
    failing = []
    with scratch():
        if kind == "dowhile":
            r = check_body_line(case["line"])
            if r:
                failing.append((r[0], r[1]))
        elif kind == "macroset":
            d = use_root("replay")
            _, r = check_macro_case(d, case["files"])
            if r:
                failing.append((r[0], r[1]))
        elif kind == "pipeline":
            d = use_root("replay")
            n, nt, r = check_pipeline_case(d, case["files"], case.get("level", "B1"))
            if r and r[0] != "__out_of_domain__":
                failing.append((r[0], r[1]))
        elif kind == "bundled":
            cnt, fails = bundled_check()
            for c, why in fails:
                if c.get("clause") == case.get("clause") and c.get("name") == case.get("name") and c.get("macro") == case.get("macro"):
                    failing.append((why, None))
        else:
            raise core.HarnessError("unknown replay kind %r" % (kind,))
    status = 0
    for why, ids in failing:
        if ids and all(i in ctx.known for i in ids):
            print("KNOWN-FINDING: property=%s %s" % (ctx.pid, " ".join(ids)))
            print("  " + why[:400])
            continue
        print("VIOLATION property=%s replay=%s" % (ctx.pid, path))
        print("  " + why[:400])
        status = 1
    if not failing:
        print("replay: property holds on this case")
    return status
