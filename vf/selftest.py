"""Harness self-tests (run by setup.sh): hand-computed cases for the IL reader, the static
checkers, the IL machine and the C reference, and a check that the native cross-validation
really rejects a wrong reference."""
import sys

from vf import ceval, core, cparse, il, ilvm, prog


def il_run(text, loc=None, regs=None, letters=None, imm=None):
    b = il.parse_body(text)
    assert not b.errors, b.errors
    p = ilvm.Program(b, {})
    m = ilvm.Machine()
    m.loc.update(loc or {})
    for k, (w, v) in (regs or {}).items():
        m.regw[k] = w
        m.cur[k] = v
    m.letters.update(letters or {})
    m.imm.update(imm or {})
    p.run(m)
    return m


def expect(cond, what):
    if not cond:
        raise core.HarnessError("selftest failed: " + what)


def main():
    n = 0
    # ---- IL machine, hand-computed
    cases = [
        ("ADD(UN(8, 250), UN(8, 10))", (8, 4)),
        ("SUB(UN(8, 3), UN(8, 5))", (8, 254)),
        ("MUL(SN(16, -2), SN(16, 3))", (16, 65530)),
        ("DIV(UN(8, 7), UN(8, 0))", (8, 255)),
        ("MOD(UN(8, 7), UN(8, 0))", (8, 7)),
        ("CAST(16, MSB(SN(8, -1)), SN(8, -1))", (16, 0xFFFF)),
        ("CAST(16, IL_FALSE, SN(8, -1))", (16, 0xFF)),
        ("CAST(4, IL_TRUE, UN(8, 0xAB))", (4, 0xB)),
        ("SIGNED(32, SN(8, -2))", (32, 0xFFFFFFFE)),
        ("UNSIGNED(32, SN(8, -2))", (32, 0xFE)),
        ("SHIFTRA(SN(8, -128), UN(8, 9))", (8, 0xFF)),
        ("SHIFTR0(SN(8, -128), UN(8, 7))", (8, 1)),
        ("SHIFTL0(UN(8, 1), UN(32, 8))", (8, 0)),
        ("LOGNOT(UN(4, 5))", (4, 10)),
        ("NEG(UN(8, 1))", (8, 255)),
        ("ITE(SLT(SN(8, -1), SN(8, 0)), UN(8, 1), UN(8, 2))", (8, 1)),
        ("ITE(ULT(SN(8, -1), SN(8, 0)), UN(8, 1), UN(8, 2))", (8, 2)),
        ("ITE(INV(EQ(UN(8, 1), UN(8, 1))), UN(8, 1), UN(8, 2))", (8, 2)),
        ("INC(UN(8, 255), 8)", (8, 0)),
        ("EXTRACT64(UN(64, 0xABCD), SN(32, 4), SN(32, 8))", (64, 0xBC)),
        ("SEXTRACT64(UN(64, 0x80), SN(32, 0), SN(32, 8))", (64, 0xFFFFFFFFFFFFFF80)),
        ("DEPOSIT32(UN(32, 0), SN(32, 8), SN(32, 8), UN(32, 0x1FF))", (32, 0xFF00)),
        ("BSWAP32(UN(32, 0x11223344))", (32, 0x44332211)),
        ("LET(\"c\", UN(8, 5), ADD(VARLP(\"c\"), VARLP(\"c\")))", (8, 10)),
    ]
    for e, want in cases:
        m = il_run('RzILOpEffect *s = SETL("r", %s);\nreturn s;' % e)
        expect(m.loc["r"] == want, "%s gave %r, expected %r" % (e, m.loc["r"], want))
        n += 1
    # effects: order, BRANCH, REPEAT, registers (rules W / P / X), memory little endian
    m = il_run(
        'const HexOp *Rd_op = ISA2REG(hi, \'d\', false);\nconst HexOp *Rx_op = ISA2REG(hi, \'x\', false);\nconst HexOp *Ry_op = ISA2REG(hi, \'y\', false);\n'
        'RzILOpEffect *a = SETL("i", UN(32, 0));\nRzILOpEffect *b = SETL("i", INC(VARL("i"), 32));\nRzILOpEffect *l = REPEAT(ULT(VARL("i"), UN(32, 3)), b);\n'
        'RzILOpEffect *w = WRITE_REG(bundle, Rx_op, ADD(READ_REG(pkt, Rx_op, false), VARL("i")));\nRzILOpEffect *w2 = WRITE_REG(bundle, Rx_op, ADD(READ_REG(pkt, Rx_op, false), UN(32, 1)));\n'
        'RzILOpEffect *wy = WRITE_REG(bundle, Ry_op, UN(32, 9));\nRzILOpEffect *ry = SETL("y", READ_REG(pkt, Ry_op, false));\nRzILOpEffect *rd = SETL("d", READ_REG(pkt, Rd_op, true));\n'
        'RzILOpEffect *st = STOREW(UN(32, 0x10), UN(16, 0xABCD));\nRzILOpEffect *ld = SETL("m", LOADW(8, UN(32, 0x11)));\n'
        'RzILOpEffect *br = BRANCH(IL_FALSE, SETL("t", UN(8, 1)), SETL("t", UN(8, 2)));\n'
        "RzILOpEffect *s = SEQN(10, a, l, w, w2, wy, ry, rd, st, ld, br);\nreturn s;",
        regs={"Rx": (32, 100), "Ry": (32, 7), "Rd": (32, 55)},
        letters={"x": "Rx", "y": "Ry", "d": "Rd"},
    )
    expect(m.loc["i"] == (32, 3), "REPEAT")
    expect(m.new["Rx"] == 104, "rule X: Rx is re-read after its own write (got %r)" % m.new.get("Rx"))
    expect(m.loc["y"] == (32, 7), "READ_REG(false) of y returns the committed value")
    expect(m.loc["d"] == (32, 55), "rule P: READ_REG(true) without pending value returns the committed one")
    expect(m.loc["m"] == (8, 0xAB) and m.mem[0x10] == 0xCD, "little endian store/load")
    expect(m.loc["t"] == (8, 2), "BRANCH else arm")
    n += 6
    # ---- static checkers
    good = 'RzILOpPure *x = UN(8, 1);\nRzILOpEffect *e = SETL("a", ADD(x, DUP(x)));\nreturn e;'
    b = il.parse_body(good)
    expect(not il.check_wellformed(b) and not il.check_linearity(b) and not il.check_sorts(b), "clean body flagged")
    for bad_text, checker, frag in [
        ('RzILOpPure *x = UN(8, 1);\nRzILOpEffect *e = SETL("a", ADD(x, x));\nreturn e;', il.check_linearity, "consumed 2 times"),
        ('RzILOpPure *x = UN(8, 1);\nRzILOpEffect *e = SETL("a", UN(8, 2));\nreturn e;', il.check_linearity, "never used"),
        ('RzILOpEffect *e = SETL("a", ADD(UN(8, 1), UN(16, 1)));\nreturn e;', il.check_sorts, "width 8 and 16"),
        ('RzILOpEffect *e = SETL("a", CAST(8, IL_FALSE, IL_TRUE));\nreturn e;', il.check_sorts, "bitvector expected"),
        ('RzILOpEffect *e = BRANCH(UN(8, 1), EMPTY(), EMPTY());\nreturn e;', il.check_sorts, "bool expected"),
        ('RzILOpEffect *e = SEQN(3, EMPTY(), EMPTY());\nreturn e;', il.check_sorts, "SEQN count"),
        ('RzILOpEffect *e = SETL("a", y);\nreturn e;', il.check_wellformed, "not declared"),
        ('RzILOpEffect *e = SETL("a", UN(8, 1))\nreturn e;', il.check_wellformed, "not a declaration"),
        ('RzILOpEffect *e = SETL("a", foo(UN(8, 1)));\nreturn e;', il.check_wellformed, "neither a plugin macro"),
    ]:
        errs = checker(il.parse_body(bad_text))
        expect(any(frag in x for x in errs), "checker missed %r (got %r)" % (frag, errs))
        n += 1
    # ---- C reference, hand-computed (C11, LP64)
    it = ceval.Interp({})
    for src, want in [
        ("{ int64_t r; r = (int8_t)200; }", -56),
        ("{ int64_t r; r = (uint8_t)-1 + 1; }", 256),
        ("{ int64_t r; r = -1 < 1U; }", 0),
        ("{ int64_t r; r = (int8_t)-1 < (uint8_t)1; }", 1),
        ("{ int64_t r; r = (int8_t)0x40 << 2; }", 256),
        ("{ int64_t r; r = -8 >> 1; }", -4),
        ("{ int64_t r; r = 2147483648; }", 2147483648),
        ("{ int64_t r; r = 0xffffffff; }", 4294967295),
        ("{ int64_t r; r = -7 / 2; }", -3),
        ("{ int64_t r; r = -7 % 2; }", -1),
        ("{ int64_t r; int32_t i = 3; r = i++ + 10; r = r * 10 + i; }", 134),
        ("{ int64_t r; int32_t i; r = 0; for (i = 0; i < 4; i++) { if (i == 2) { continue; } r += i; } }", 4),
        ("{ int64_t r; r = 1 ? (int8_t)-1 : (uint32_t)0; }", 4294967295),
        ("{ int64_t r; r = sizeof(int16_t) - 3 > 0; }", 1),
    ]:
        out = it.run(cparse.parse_behaviour(src), ceval.World(), {})
        expect(out["r"][1] == want, "%s gave %r, expected %r" % (src, out["r"], want))
        n += 1
    try:
        it.run(cparse.parse_behaviour("{ int64_t r; int32_t a = 1; r = a << 32; }"), ceval.World(), {})
        expect(False, "shift by the width must be undefined")
    except ceval.CUndefined:
        n += 1
    expect(ceval.has_unsequenced(cparse.parse_behaviour("{ r = v + v++; }")), "unsequenced v + v++")
    expect(not ceval.has_unsequenced(cparse.parse_behaviour("{ r = c ? v++ : v++; }")), "?: is sequenced")
    n += 2
    print("selftest: %d cases ok" % n)
    return 0


def native_selftest():
    """The gcc/clang cross-validation must reject a deliberately wrong reference."""
    from vf import drive, native

    comp = drive.get_compiler()
    env = prog.Env(comp)
    ctx = core.Ctx("SELFTEST", "quick", 0, "other")
    specs = [prog.ProgSpec([("int8_t", "a", "input"), ("uint8_t", "b", "input"), ("int64_t", "r", "local")], "r = a < b;", ["r"]), prog.ProgSpec([("int8_t", "a", "input"), ("int64_t", "r", "local")], "r = a >> 1;", ["r"])]
    nn = native.validate_space(ctx, specs, 256, env)
    saved = ceval.promote
    ceval.promote = lambda T: T  # a wrong reference: no integer promotion
    try:
        try:
            native.validate_space(ctx, specs, 256, env)
        except core.HarnessError:
            print("native selftest: %d comparisons agree; a reference without integer promotion is rejected" % nn)
            return 0
        raise core.HarnessError("native cross-validation accepted a wrong reference")
    finally:
        ceval.promote = saved


if __name__ == "__main__":
    rc = main()
    rc = rc or native_selftest()
    sys.exit(rc)
