"""Shared implementation of C10 (sorts), C11 (well-formed C + metadata) and C12 (linearity):
one static sweep over every emitted text, each property owning one checker column."""
import json
import re

from vf import core, corpus, deviations, drive, prog, sweep
from vf.props import c02, c03, c05, c06

T8 = c02.T8
ASSIGN_OPS = ["=", "+=", "-=", "*=", "/=", "%=", "<<=", ">>=", "&=", "^=", "|="]


def P(decls, stmts, tag):
    return prog.ProgSpec(decls, stmts, [], tag=tag)


def gen_assignments(types_t, types_s):
    out = []
    for op in ASSIGN_OPS:
        for t in types_t:
            for s in types_s:
                out.append(P([(t, "a", "input"), (s, "b", "input")], "a %s b;" % op, ("assign", op, t, s)))
    for op in ASSIGN_OPS:
        for s in types_s:
            out.append(P([(s, "b", "input")], "RdV = RsV; RdV %s b;" % op, ("assign-reg", op, s)))
            out.append(P([(s, "b", "input")], "RxxV %s b;" % op, ("assign-pair", op, s)))
            out.append(P([(s, "b", "input")], "PdV = PsV; PdV %s b;" % op, ("assign-pred", op, s)))
    return out


REG_TARGETS = ["RxV", "RyV", "RsV", "RdV", "RxxV", "RttV", "PxV", "PvV", "CxV", "MuV", "R31", "R0", "P0", "P3", "C4", "R1:0",
               "HEX_REG_ALIAS_SP", "HEX_REG_ALIAS_LR", "HEX_REG_ALIAS_USR", "HEX_REG_ALIAS_LC0", "HEX_REG_ALIAS_P3_0",
               "HEX_REG_ALIAS_UTIMER", "HEX_REG_ALIAS_PKTCOUNT", "HEX_REG_ALIAS_UPCYCLE"]  # (the last three are 64 bit wide)
REG_UPDATES = ["%s++;", "%s--;", "%s = %s + 1;", "%s += 2;", "%s = a;"]
REG_CONTEXTS = [
    ("alone", "%(u)s"), ("read-before", "r = %(t)s + a; %(u)s"), ("read-after", "%(u)s r = %(t)s + a;"), ("both", "r = %(t)s; %(u)s q = %(t)s;"),
    ("twice", "%(u)s %(u)s"), ("twice-read", "%(u)s r = %(t)s; %(u)s q = %(t)s;"), ("in-if", "if (a) { %(u)s } r = %(t)s;"),
    ("read-in-if", "if (%(t)s) { %(u)s } else { r = %(t)s; }"), ("operand-of-next", "%(u)s RdV = %(t)s + RsV;"),
]


def gen_reg_updates(targets=None):
    """Every way to update a register-like target (operand letters, explicit numbers, aliases) next to reads of the same
    target before / after / around the update."""
    out = []
    for t in targets or REG_TARGETS:
        for u in REG_UPDATES:
            upd = u % ((t,) * u.count("%s"))
            for cname, c in REG_CONTEXTS:
                if t == "RdV" and cname == "operand-of-next":
                    continue
                text = c % {"t": t, "u": upd}
                if text.startswith("R1:0"):
                    text = "r = 0; " + text  # an explicit pair as the first token of a statement parses as a label
                out.append(P([("int32_t", "a", "input"), ("int64_t", "r", "local"), ("int64_t", "q", "local")], text, ("regupd", t, u, cname)))
    return out


def gen_bool_mix(types):
    out = []
    cmps = ["<", "==", "!=", ">="]
    for c in cmps:
        for t in types:
            for u in types:
                d = [(t, "a", "input"), (u, "b", "input"), ("int64_t", "r", "local")]
                out.append(P(d, "r = (a %s b) + b;" % c, ("cmp+", c, t, u)))
                out.append(P(d, "r = (a %s b) * 3;" % c, ("cmp*", c, t, u)))
                out.append(P(d, "r = (a %s b) | (b %s a);" % (c, c), ("cmp|cmp", c, t, u)))
                out.append(P(d, "r = (a %s b) == (b %s a);" % (c, c), ("cmp==cmp", c, t, u)))
                out.append(P(d, "r = -(a %s b);" % c, ("-cmp", c, t, u)))
                out.append(P(d, "r = ~(a %s b);" % c, ("~cmp", c, t, u)))
                out.append(P(d, "r = (a %s b) ? a : b;" % c, ("cmp?", c, t, u)))
                out.append(P(d, "r = a ? (a %s b) : b;" % c, ("?cmp", c, t, u)))
                out.append(P(d, "r = (a && b) + (a || b);", ("logic+", c, t, u)))
                out.append(P(d, "r = !a + !b;", ("not+", c, t, u)))
                out.append(P(d, "r = (a %s b) << 2;" % c, ("cmp<<", c, t, u)))
                out.append(P(d, "if ((a %s b) & 1) { r = a; } else { r = b; }" % c, ("if-cmp&", c, t, u)))
                out.append(P(d, "PdV = (a %s b) ? 0xff : 0x00;" % c, ("pred-cmp", c, t, u)))
                out.append(P(d, "RdV = (a %s b);" % c, ("reg=cmp", c, t, u)))
                out.append(P(d, "%s q = (a %s b); r = q;" % (u, c), ("init=cmp", c, t, u)))
                out.append(P(d, "%s q = !a; %s p = a && b; r = q + p;" % (u, t), ("init=logic", c, t, u)))
                out.append(P(d, "%s q = (a %s b) ? a : b; r = q;" % (u, c), ("init=cond", c, t, u)))
                out.append(P(d, "mem_store_u8(EA, (a %s b));" % c, ("store-cmp", c, t, u)))
    return out


BOOL_EXPRS = ["(a < b)", "(a == 1)", "!a", "(a && b)", "(a || b)", "((a < b) ? (a == b) : !a)", "((a < b) == (b < a))", "(!a != !b)"]
BIN_OPS = ["+", "-", "*", "/", "%", "&", "|", "^", "<<", ">>", "<", "<=", "==", "!=", "&&", "||"]


def gen_bool_positions(bools=BOOL_EXPRS):
    """A boolean-sorted expression in every operand position the language has."""
    out = []
    d = [("int32_t", "a", "input"), ("uint8_t", "b", "input"), ("int64_t", "r", "local"), ("int16_t", "h", "local"), ("uint64_t", "w", "local")]
    for B in bools:
        pos = []
        for op in ASSIGN_OPS:
            for tgt in ("r", "h", "w", "RdV", "RxxV", "PdV"):
                pre = "" if op == "=" else ("%s = a; " % tgt)
                pos.append(("assign", op, tgt, "%s%s %s %s;" % (pre, tgt, op, B)))
        for op in BIN_OPS:
            pos.append(("bin-l", op, "", "r = %s %s a;" % (B, op)))
            pos.append(("bin-r", op, "", "r = a %s %s;" % (op, B)))
            pos.append(("bin-lr", op, "", "r = %s %s %s;" % (B, op, B)))
            pos.append(("bin-r8", op, "", "r = b %s %s;" % (op, B)))
        for u in ("-", "~", "!", "+"):
            pos.append(("un", u, "", "r = %s%s;" % (u, B)))
        for t in ("int8_t", "uint8_t", "int32_t", "uint32_t", "int64_t", "uint64_t"):
            pos.append(("cast", t, "", "r = (%s)%s;" % (t, B)))
            pos.append(("init", t, "", "%s q = %s; r = q;" % (t, B)))
        pos += [
            ("cond", "", "", "r = %s ? a : b;" % B),
            ("arm1", "", "", "r = a ? %s : b;" % B),
            ("arm2", "", "", "r = a ? b : %s;" % B),
            ("arms", "", "", "r = a ? %s : %s;" % (B, B)),
            ("if", "", "", "if (%s) { r = a; }" % B),
            ("for-cond", "", "", "for (i = 0; %s; i++) { r = a; }" % B),
            ("for-init", "", "", "for (i = %s; i < 2; i++) { r = a; }" % B),
            ("for-step", "", "", "for (i = 0; i < 2; i += %s) { r = a; }" % B),
            ("call-arg", "", "", "r = clz32(%s);" % B),
            ("call-arg64", "", "", "r = clo64(%s);" % B),
            ("store-addr", "", "", "mem_store_u8(%s, a);" % B),
            ("store-val", "", "", "mem_store_u32(a, %s);" % B),
            ("load-addr", "", "", "r = mem_load_u8(%s);" % B),
            ("jump", "", "", "JUMP(%s);" % B),
            ("stmt-expr", "", "", "r = ({ h = a; %s; });" % B),
            ("extract", "", "", "r = extract64(a, %s, 3);" % B),
            ("incdec", "", "", "h = %s; h++; r = h;" % B),
        ]
        for kind, x, y, st in pos:
            out.append(P(d, st, ("boolpos", kind, x, y, B)))
    return out


INT_CONDS = ["a", "c", "RsV", "RssV", "PuV", "siV", "(a - i)", "((a >> i) & 1)", "(RsV & 0xff)", "((int8_t)RtV)", "((int64_t)a)", "clz32(a)", "mem_load_u8(RsV)", "(r = a)", "a++", "3", "0", "HEX_REG_ALIAS_LC0", "PuN", "(a ? c : 0)", "({ r = a; r + 1; })", "-a", "~c", "sizeof(a)"]


def gen_cond_positions(conds=INT_CONDS):
    """An integer-valued (non-boolean) expression in every position that wants a truth value."""
    out = []
    d = [("int32_t", "a", "input"), ("uint8_t", "c", "input"), ("int64_t", "r", "local")]
    for e in conds:
        for kind, st in [
            ("if", "if (%s) { r = 1; }" % e),
            ("ifelse", "if (%s) { r = 1; } else { r = 2; }" % e),
            ("for", "for (i = 0; %s; i++) { r += i; }" % e),
            ("for-after", "for (i = 0; %s; i++) { r += i; } RdV = %s;" % (e, e)),
            ("cond", "r = %s ? 1 : 2;" % e),
            ("not", "r = !%s;" % e),
            ("and-l", "r = %s && c;" % e),
            ("and-r", "r = c && %s;" % e),
            ("or-l", "r = %s || c;" % e),
            ("or-r", "r = c || %s;" % e),
            ("if-and", "if (%s && %s) { r = 1; }" % (e, e)),
            ("nested", "if (c) { if (%s) { r = 1; } }" % e),
            ("for-if", "for (i = 0; i < 2; i++) { if (%s) { r += 1; } }" % e),
        ]:
            out.append(P(d, st, ("condpos", kind, e)))
    return out


VALUE_CALLS = ["clz32(%s)", "clz64(%s)", "clo32(%s)", "clo64(%s)", "revbit16(%s)", "revbit32(%s)", "revbit64(%s)", "fbrev(%s)", "conv_round(%s, 2)", "conv_round(5, %s)", "bswap16(%s)", "bswap32(%s)", "bswap64(%s)",
               "extract64(%s, 0, 8)", "extract64(RttV, %s, 4)", "sextract64(%s, 4, 4)", "deposit64(%s, 0, 8, RttV)", "deposit32(RtV, 0, 8, %s)", "extract32(%s, 8, 8)", "mem_load_u8(%s)", "mem_load_s32(%s)", "get_usr_field(bundle, HEX_REG_FIELD_USR_OVF) + %s"]
VOID_CALLS = ["set_usr_field(bundle, HEX_REG_FIELD_USR_OVF, %s)", "set_usr_field(bundle, HEX_REG_FIELD_USR_LPCFG, %s)", "trap(%s, 1)", "trap(0, %s)", "mem_store_u8(%s, RtV)", "mem_store_u32(RtV, %s)", "JUMP(%s)"]
CALL_ARGS = ["RsV", "a", "c", "(RsV + 1)", "(RsV & 0xff)", "clz32(RsV)", "5", "((int8_t)RsV)", "RuuV", "a++", "(a < c)", "(c ? a : 1)", "mem_load_u8(RsV)", "siV", "PuV", "-a"]


def gen_calls(args=CALL_ARGS):
    """Every callable with every kind of argument expression in every statement context."""
    out = []
    d = [("int32_t", "a", "input"), ("uint8_t", "c", "input"), ("int64_t", "r", "local")]
    for x in args:
        for f in VOID_CALLS:
            e = f % x
            for kind, st in [("stmt", "%s;" % e), ("stmt-after", "RdV = RsV; %s;" % e), ("stmt-before", "%s; RdV = RsV;" % e), ("twice", "%s; %s;" % (e, e)), ("if", "if (a) { %s; }" % e), ("else", "if (a) { r = 1; } else { %s; }" % e),
                             ("for", "for (i = 0; i < 2; i++) { %s; }" % e), ("gcc", "r = ({ %s; 3; });" % e)]:
                out.append(P(d, st, ("vcall", f, x, kind)))
        for f in VALUE_CALLS:
            e = f % x
            for kind, st in [("rhs", "r = %s;" % e), ("unused", "%s;" % e), ("unused-after", "RdV = RsV; %s;" % e), ("sum", "r = %s + %s;" % (e, e)), ("if", "if (%s) { r = 1; }" % e), ("regw", "RdV = %s;" % e), ("for", "for (i = 0; i < 2; i++) { r += %s; }" % e)]:
                out.append(P(d, st, ("call", f, x, kind)))
    return out


SINKS = ["mem_store_%s%d(RsV, %%s);" % (sg, w) for sg in "su" for w in (8, 16, 32, 64)] + ["mem_store_u32(%s, RsV);", "r = mem_load_s16(%s);", "RdV = %s;", "RddV = %s;", "PdV = %s;", "JUMP(%s);", "r = %s;", "r = clz32(%s);",
         "r = clo64(%s);", "if (%s) { r = 1; }", "r = %s ? 1 : 2;", "HEX_REG_ALIAS_LR = %s;", "R5:4 = %s;", "r = extract64(%s, 0, 8);", "r = -%s;", "r = (int8_t)%s;"]
SOURCES = ["RtV", "RttV", "PuV", "R3", "R11:10", "R1:0", "P0", "HEX_REG_ALIAS_LR", "HEX_REG_ALIAS_UPCYCLE", "siV", "uiV", "SiV", "5", "5U", "5LL", "5ULL", "0xffffffff", "0x100000000", "(4U + 4U)", "(1 + 2LL)", "-3", "~0U", "(3 < 4)",
           "sizeof(RtV)", "sizeof(R11:10)", "a", "c", "((int64_t)a)", "((uint32_t)a)", "(a + 1)", "PuN", "P0_NEW", "(a < c)", "clz32(a)", "a++", "({ r = a; r + 1; })", "get_npc(pkt)", "HEX_REG_ALIAS_PC"]


def gen_sinks():
    """Every kind of operand / constant / expression as the source of every sink (store data and address, register, pair,
    predicate and alias writes, jump, argument, condition, cast)."""
    out = []
    d = [("int32_t", "a", "input"), ("uint8_t", "c", "input"), ("int64_t", "r", "local")]
    for sk in SINKS:
        for src in SOURCES:
            out.append(P(d, sk % src, ("sink", sk, src)))
    return out


OPERANDS = [("a", [("int32_t", "a", "input")]), ("c", [("uint8_t", "c", "input")]), ("RsV", []), ("RssV", []), ("PuV", []), ("siV", []), ("5", []), ("0x1234LL", []), ("HEX_REG_ALIAS_LR", []), ("PuN", []), ("RxV", []), ("MuV", [])]


def gen_reuse():
    out = []
    for name, d in OPERANDS:
        for k in range(1, 6):
            e = " + ".join([name] * k)
            out.append(P(d + [("int64_t", "r", "local")], "r = %s;" % e, ("reuse1", name, k)))
            out.append(P(d + [("int64_t", "r", "local")], "r = %s; RdV = %s; if (%s) { RdV = %s & 1; }" % (e, name, name, name), ("reuse3", name, k)))
            out.append(P(d + [("int64_t", "r", "local")], "r = (%s) * (%s);" % (e, e), ("reuse-sq", name, k)))
            out.append(P(d + [("int64_t", "r", "local")], "for (i = 0; i < 2; i++) { r = %s; }" % e, ("reuse-loop", name, k)))
    for k in range(1, 5):
        e = " + ".join(["clz32(RsV)"] * k)
        out.append(P([("int64_t", "r", "local")], "r = %s;" % e, ("reuse-call", k)))
        e = " + ".join(["(RsV & 0xff)"] * k)
        out.append(P([("int64_t", "r", "local")], "r = %s;" % e, ("reuse-sub", k)))
        e = " + ".join(["mem_load_u8(EA)"] * k)
        out.append(P([("int64_t", "r", "local")], "EA = RsV; r = %s;" % e, ("reuse-load", k)))
        e = " + ".join(["((int64_t)RsV)"] * k)
        out.append(P([("int64_t", "r", "local")], "r = %s;" % e, ("reuse-cast", k)))
    return out


def gen_folding():
    out = []
    lits = ["1", "0", "7", "0x10", "3U", "5LL", "9ULL"]
    d = [("int32_t", "a", "input"), ("int64_t", "r", "local")]
    for x in lits:
        for y in lits:
            for op in ["+", "-", "*", "<", "==", "!="]:
                out.append(P(d, "r = %s %s %s;" % (x, op, y), ("fold", x, op, y)))
                out.append(P(d, "r = (%s %s %s) + a;" % (x, op, y), ("fold+a", x, op, y)))
        for u in ["-", "~", "+"]:
            out.append(P(d, "r = %s%s;" % (u, x), ("foldu", u, x)))
            out.append(P(d, "r = a + %s%s;" % (u, x), ("foldu+a", u, x)))
        for dead in ["a", "RsV", "siV", "clz32(RsV)", "(a + 1)", "PuN", "sizeof(a)", "mem_load_u8(RsV)", "a++", "a--", "RxV++", "({ r = a; r + 1; })", "fbrev(a++)", "(a = 3)", "(a++ + clz32(RsV))"]:
            for live in ["a", "RsV", "siV", "clz32(RsV)", "a++"]:
                out.append(P(d, "r = %s ? %s : %s;" % (x, dead, live), ("cfold", x, dead, live)))
                out.append(P(d, "r = %s ? %s : %s;" % (x, live, dead), ("cfold2", x, live, dead)))
                out.append(P(d, "r = %s; r = %s ? %s : %s; RdV = %s;" % (dead, x, dead, live, dead), ("cfold3", x, dead, live)))
    # a folded ?: with value-producing operations next to more of them in the same statement (their temporaries are
    # numbered in creation order; removing the dead ones must not disturb the live ones)
    HY = ["clz32(RsV)", "clo32(RtV)", "a++", "fbrev(a)", "({ r = a; r + 1; })"]
    for x in ("0", "1"):
        for dead in HY:
            for live in HY + ["a"]:
                for tail in HY[:3]:
                    t, e = (live, dead) if x == "1" else (dead, live)
                    out.append(P(d, "r = (%s ? %s : %s) + %s;" % (x, t, e, tail), ("cfold4", x, dead, live, tail)))
                    out.append(P(d, "r = %s + (%s ? %s : %s);" % (tail, x, t, e), ("cfold5", x, dead, live, tail)))
    # the folded-away arm is itself conditional code (its own condition is shared with a guarded statement-expression)
    DC = [("uint8_t", "c", "input")]
    for x in ("0", "1"):
        for inner in ["(a ? ({ r = a; r + 1; }) : c)", "(a ? c : ({ r = c; r; }))", "((a > 0) ? ({ int32_t t = a + 1; t; }) : RtV)", "((int64_t)(a ? ({ r = a; r; }) : 3))", "((a ? ({ r = a; r; }) : 3) + 1)",
                      "(a ? clz32(a) : c)", "(a && clz32(a))", "(a ? a++ : 1)", "((a < c) ? RsV : RtV)", "(c ? (a ? ({ r = 1; r; }) : 2) : 3)"]:
            for live in ["RuV", "a", "clz32(c)"]:
                t, e = (live, inner) if x == "1" else (inner, live)
                out.append(P(d + DC, "r = %s ? %s : %s;" % (x, t, e), ("cfold6", x, inner, live)))
                out.append(P(d + DC, "RdV = %s ? %s : %s; r = %s;" % (x, t, e, inner), ("cfold7", x, inner, live)))
    # two folded conditionals in one behaviour whose dead arms are built from the same operand (what the first one leaves
    # behind meets what the second one removes), with every shape of dead arm, and a live use before / between / after / never
    DEAD2 = ["RsV", "(int64_t)RsV", "((RsV + 1) * 2)", "(RsV + RtV)", "-RsV", "clz32(RsV)", "(uint8_t)RsV", "(RsV ? 1 : 2)", "siV", "(int64_t)siV", "(siV + 1)"]
    for d1 in DEAD2:
        for d2 in DEAD2:
            if ("siV" in d1) != ("siV" in d2):
                continue
            out.append(P(d, "ReV = 0 ? %s : 3; RddV = 1 ? 7 : %s;" % (d1, d2), ("cfold8", d1, d2, "none")))
            out.append(P(d, "ReV = 0 ? %s : 3; RddV = 1 ? 7 : %s; r = %s;" % (d1, d2, "siV" if "siV" in d1 else "RsV"), ("cfold8", d1, d2, "after")))
            out.append(P(d, "r = %s; ReV = 0 ? %s : 3; RddV = 1 ? 7 : %s;" % ("siV" if "siV" in d1 else "RsV", d1, d2), ("cfold8", d1, d2, "before")))
            out.append(P(d, "ReV = 0 ? %s : 3; r = %s; RddV = 1 ? 7 : %s;" % (d1, "siV" if "siV" in d1 else "RsV", d2), ("cfold8", d1, d2, "between")))
    # folded unary operators on constants at the upper end of their type (the result has to be spelled as a C constant)
    for x in ["0xffffffff", "4294967295U", "0x80000000", "2147483648", "0xffffffffffffffff", "18446744073709551615U", "0x8000000000000000", "9223372036854775807"]:
        for u in ["-", "~"]:
            out.append(P(d, "r = %s%s;" % (u, x), ("foldu-big", u, x)))
            out.append(P(d, "RddV = %s%s; r = a;" % (u, x), ("foldu-big-reg", u, x)))
    for t in T8:
        out.append(P([(t, "v", "input"), ("int64_t", "r", "local")], "r = sizeof(v) + v;", ("sizeof", t)))
    return out


def gen_control():
    out = []
    d = [("int32_t", "a", "input"), ("int32_t", "b", "input"), ("int64_t", "r", "local")]
    for st in ["r = RdV = a;", "RdV = RxV = RyV = RsV;", "r = RdV = RxV = RyV = a;", "RdV = RxV = i++;", "RdV = RxV = clz32(a);", "RdV = RxV = get_npc(pkt);", "r = b = RdV = a + b;", "RdV = RxV = ({ r = a; r + 1; });"]:
        out.append(P(d, st, ("chain", st)))
    bodies = ["r = a;", "r = a + b; RdV = r;", "mem_store_u32(a, b);", "JUMP(a);", "r = clz32(a);", "r = a++;", "{ r = b; }", ";", "if (b) { r = a; }", "for (i = 0; i < 2; i++) { r += a; }",
              "cancel_slot;", "STORE_SLOT_CANCELLED(pkt, slot);", 'fatal("C is broken");', "trap(0, 1);"]
    for x in bodies:
        out.append(P(d, "if (a) { %s }" % x, ("if", x)))
        out.append(P(d, "if (a < b) { %s } else { r = b; }" % x, ("ifelse", x)))
        out.append(P(d, "for (i = 0; i < 3; i++) { %s }" % x, ("for", x)))
        for y in bodies:
            out.append(P(d, "if (a) { %s } else { %s }" % (x, y), ("ifelse2", x, y)))
            out.append(P(d, "%s %s" % (x, y), ("seq", x, y)))
    return out


def gen_stmt_exprs():
    """Statement-expressions with every kind of statement in front of the value (also statements that have no effect
    of their own), with 1..3 statements, in every position a value can stand in."""
    out = []
    d = [("int32_t", "a", "input"), ("int32_t", "b", "input"), ("int64_t", "r", "local")]
    stmts = [";", "{}", "{ ; }", 'fatal("unreachable");', "r = b;", "RxV = b;", "mem_store_u8(a, b);", "trap(0, 1);", "int32_t t = b;", "int32_t t;", "if (b) { r = 1; }", "for (i = 0; i < 2; i++) { r += b; }",
             "cancel_slot;", "b++;", "clz32(b);", "JUMP(b);"]
    positions = [("assign", "r = %s;"), ("reg", "RdV = %s;"), ("sum", "r = %s + b;"), ("if-arm", "if (a > 1) { RdV = %s; }"), ("cond-arm", "r = a ? %s : b;"), ("cond-arm2", "r = a ? b : %s;"), ("arg", "r = clz32(%s);"),
                 ("unused", "%s;"), ("cond", "if (%s) { r = 1; }"), ("init", "int32_t q = %s; r = q;"), ("const-arm", "r = 1 ? %s : b;"), ("store", "mem_store_u16(b, %s);")]
    for x in stmts:
        for pn, pos in positions:
            out.append(P(d, pos % ("({ %s a; })" % x), ("stmtexpr", x, pn)))
        for y in stmts[:8]:
            out.append(P(d, "r = ({ %s %s a; });" % (x, y), ("stmtexpr2", x, y)))
            out.append(P(d, "RdV = ({ %s %s a + b; });" % (y, x), ("stmtexpr2r", x, y)))
    return out


def gen_same_name_operands():
    """Two spellings that name one register in two ways (plain / .new, single explicit / alias) or similar registers, in one
    behaviour: each keeps its own declarations."""
    out = []
    d = [("int32_t", "a", "input"), ("int64_t", "r", "local"), ("int64_t", "q", "local")]
    pairs = [("PuV", "PuN"), ("PvV", "PvN"), ("RsV", "RsN"), ("RtV", "RtN"), ("P0", "P0_NEW"), ("P3", "P3_NEW"), ("R0", "R0_NEW"), ("R31", "R31_NEW"), ("HEX_REG_ALIAS_LR", "HEX_REG_ALIAS_LR_NEW"),
             ("HEX_REG_ALIAS_USR", "HEX_REG_ALIAS_USR_NEW"), ("HEX_REG_ALIAS_PC", "HEX_REG_ALIAS_PC_NEW"), ("R1", "R11"), ("R1:0", "R1"), ("R3", "C3"), ("P1", "R1"), ("NsN", "RtV"), ("siV", "SiV"), ("RsV", "uiV")]  # (no immediate letter that is also the name of a local: IL variables share one name space)
    for x, y in pairs:
        for u, v in ((x, y), (y, x)):
            out.append(P(d, "r = %s; q = %s;" % (u, v), ("same-name", u, v, "seq")))
            out.append(P(d, "r = %s + %s;" % (u, v), ("same-name", u, v, "sum")))
            out.append(P(d, "if (%s) { r = %s; } else { q = %s; }" % (u, v, u), ("same-name", u, v, "if")))
            out.append(P(d, "RdV = %s ? %s : a;" % (u, v), ("same-name", u, v, "cond")))
    return out


def gen_rw_operands():
    """Read-write / write-only register operands in every read/write pattern."""
    out = []
    d = [("int32_t", "a", "input"), ("int64_t", "res", "local")]
    for sp in ["RdV", "ReV", "RxV", "RyV", "RzV", "RddV", "RxxV", "RyyV", "PdV", "PxV", "CdV", "MxV", "P0", "R31", "HEX_REG_ALIAS_LR"]:
        for st in ["%s = a;", "%s = a; %s = a + 1;", "res = %s; %s = a;", "%s = a; res = %s;", "if (a) { %s = a; }", "if (a) { %s = a; } else { %s = 2; }", "for (i = 0; i < 2; i++) { %s = %s + i; }", "%s += a;", "%s = %s + %s;"]:
            out.append(P(d, st.replace("%s", sp), ("rw", sp, st)))
    return out


def static_space(tier):
    specs = []
    if tier == "quick":
        specs += c02.depth1()
        specs += gen_assignments(["int8_t", "uint16_t", "int32_t", "uint64_t"], ["int8_t", "uint8_t", "int32_t", "uint64_t"])
        specs += gen_bool_mix(["int8_t", "uint32_t", "int64_t"])
    else:
        specs += c02.space("quick")
        specs += gen_assignments(T8, T8)
        specs += gen_bool_mix(["int8_t", "uint8_t", "uint16_t", "int32_t", "uint32_t", "int64_t", "uint64_t"])
    specs += gen_reuse() + gen_folding() + gen_control() + gen_rw_operands() + gen_reg_updates() + gen_stmt_exprs() + gen_same_name_operands()
    specs += gen_bool_positions(BOOL_EXPRS[:4] if tier == "quick" else BOOL_EXPRS)
    specs += gen_cond_positions()
    specs += gen_calls(CALL_ARGS[:8] if tier == "quick" else CALL_ARGS)
    specs += gen_sinks()
    specs += c06.space("quick")
    if tier == "thorough":
        specs += c03.space("quick") + c05.space("quick") + c06.space("thorough")
    seen = set()
    out = []
    for s in specs:
        if s.text not in seen:
            seen.add(s.text)
            if not letters_consistent(s.text):
                # one operand letter names one register of an instruction: a text which uses a letter for two
                # classes or widths (RsV next to RssV) is not a behaviour any instruction can have
                raise core.HarnessError("generated program uses one operand letter for two registers: %s" % s.text)
            out.append(s)
    return out


def letters_consistent(text):
    by = {}
    for o in drive.scan_operands(text).values():
        if o.kind == "reg":
            by.setdefault(o.letter, set()).add((o.cls, o.pair))
    return all(len(v) == 1 for v in by.values())


# ---- known static findings: (finding id, property column, message regex, source predicate)
CONST_COND = re.compile(r"(?<![\w.])(0[xX][0-9a-fA-F]+|\d+)[uUlL]*\s*\?")


def has_const_cond(src):
    return CONST_COND.search(src) is not None


PURE_CALLS = {"extract64", "sextract64", "extract32", "deposit64", "deposit32", "bswap16", "bswap32", "bswap64", "REGFIELD", "fUNFLOAT", "fUNDOUBLE", "IS_INF"}


def _has_effect(e):
    """Is the value of the whole expression produced by something the compiler turns into an effect
    (assignment, ++/--, statement-expression, a call that is not a pure macro or a load)?  Only the
    outermost operator counts: in `extract64(RttV, clz32(RsV), 4);` the inner call has its own effect,
    the outer pure is dropped and its other operands are left over."""
    from vf import cparse

    n = cparse.strip_paren(e)
    if n[0] in ("assign", "post", "pre", "stmtexpr"):
        return True
    if n[0] == "call":
        f = cparse.strip_paren(n[1])
        return not (f[0] == "id" and (f[1] in PURE_CALLS or f[1].startswith("mem_load_")))
    return False


def unused_pure_statement_ids(src):
    """Identifiers used in expression statements whose value is unused and which have no side effect
    (`RsV + 1;`, `extract64(RsV, 0, 8);`); None if there is no such statement."""
    from vf import cparse
    from vf.deviations import walk

    try:
        ast = cparse.parse_behaviour(src)
    except cparse.CSyntaxError:
        return None
    ids = None
    for n in walk(ast):
        unused = None
        if isinstance(n, tuple) and len(n) == 2 and n[0] == "expr" and isinstance(n[1], tuple) and not _has_effect(n[1]):
            unused = n[1]
        elif isinstance(n, tuple) and len(n) == 2 and n[0] == "sizeof_e":
            unused = n[1]  # the operand of sizeof is not evaluated: only its type is used
        if unused is not None:
            ids = ids or set()
            for m in walk(unused):
                if isinstance(m, tuple) and len(m) == 2 and m[0] == "id":
                    ids.add(m[1])
    return ids


def unused_pure_statement_leak(src, msg=""):
    ids = unused_pure_statement_ids(src)
    if ids is None:
        return False
    m = re.search(r"pure (\w+) is initialised", msg)
    if m and re.match(r"^[A-Z][a-z]{1,2}$", m.group(1)):
        # a register / immediate pure: it has to be an operand of such a statement
        return any(i in (m.group(1) + "V", m.group(1) + "N", m.group(1)) for i in ids)
    if m and re.match(r"^[A-Z]\d+_\d+$", m.group(1)):
        return m.group(1).replace("_", ":") in ids  # explicit pair R11:10 -> R11_10
    return True


def dead_arm_ids(src):
    """Identifiers that occur in the dead arm of a ?: whose condition is a literal; None if there is none."""
    from vf import cparse
    from vf.deviations import walk

    try:
        ast = cparse.parse_behaviour(src)
    except cparse.CSyntaxError:
        return None
    ids = None
    for n in walk(ast):
        if isinstance(n, tuple) and len(n) == 4 and n[0] == "cond":
            c = cparse.strip_paren(n[1])
            if c[0] != "num":
                continue
            dead = n[3] if c[1] else n[2]
            ids = ids if ids is not None else set()
            for m in walk(dead):
                if isinstance(m, tuple) and len(m) == 2 and m[0] == "id":
                    ids.add(m[1])
    return ids


def const_cond_dead_operand(src, msg=""):
    """KF-const-cond-dead-arm on the linearity column: the operand named by the message has to occur in a dead arm
    (register / immediate pures are named after their operand; computed pures cannot be traced by name)."""
    if not has_const_cond(src):
        return False
    m = re.search(r"pure (\w+) is (?:initialised|consumed)", msg)
    if m and re.match(r"^[A-Z][a-z]{1,2}$", m.group(1)):
        ids = dead_arm_ids(src)
        if ids is None:
            return True  # the reference parser does not see the ?: (folded operand inside a macro argument)
        return any(i in (m.group(1) + "V", m.group(1) + "N") for i in ids)
    return True


def const_cond_dead_identifier(src, msg=""):
    """KF-const-cond-dead-arm on the well-formedness / sort columns: the identifier that lost its declaration has to be an
    operand (register, immediate, alias) that occurs in a dead arm - never a computed pure (op_, cast_, ite_ ...)."""
    if not has_const_cond(src):
        return False
    m = re.search(r"identifier '?(\w+)'? (?:is not declared|does not hold)|local (\w+) is read but no path", msg)
    if not m:
        return True
    name = m.group(1) or m.group(2)
    if re.match(r"^(op|cast|ite|ml|ms|seq|branch|jump|gcc|cond|c_call|param_cast|arg_cast|for|empty|nop|imm_assign)_", name) or re.match(r"^h_tmp", name):
        return False
    ids = dead_arm_ids(src)
    if ids is None:
        return True
    cands = {name, name + "V", name + "N", name + "iV", name.replace("_", ":"), "HEX_REG_ALIAS_" + name.upper(), name.replace("_new", "") + "N", name.upper().replace("_NEW", "") + "_NEW", "HEX_REG_ALIAS_" + name.upper().replace("_NEW", "") + "_NEW"}
    return bool(cands & ids)


def rw_operand_written(src, msg):
    """the operand the message names is assigned (or updated) by the source"""
    m = re.search(r"pure ([A-Z][yzstuvw]{1,2}) is initialised but never used", msg)
    return bool(m) and re.search(r"\b%sV\s*(=[^=]|\+\+|--|[-+*/%%&|^]=|<<=|>>=)" % m.group(1), src) is not None


STATIC_FINDINGS = [
    ("KF-const-cond-dead-arm", "sorts", r"identifier \w+ does not hold a pure|local \w+ is read but no path ever sets it", const_cond_dead_identifier),
    ("KF-const-cond-dead-arm", "wellformed", r"identifier '\w+' is not declared before use", const_cond_dead_identifier),
    ("KF-rw-operand-read-leak", "linearity", r"pure [A-Z][yzstuvw]{1,2} is initialised but never used", rw_operand_written),
    ("KF-const-cond-dead-arm", "linearity", r"pure \w+ is initialised but never used \(leak\)|pure \w+ is consumed \d+ times without DUP", const_cond_dead_operand),
    ("KF-unary-fold-unreduced", "wellformed", r"an integer constant does not fit any C integer type", lambda src: re.search(r"[-~]\s*(0[xX][0-9a-fA-F]+|\d+)", src) is not None),
    ("KF-unused-value-statement-leak", "linearity", r"pure \w+ is initialised but never used \(leak\)", unused_pure_statement_leak),
]


def attribute(col, msg, src):
    for fid, c, rx, pred in STATIC_FINDINGS:
        if c == col and re.search(rx, msg) and (pred(src, msg) if pred in (unused_pure_statement_leak, const_cond_dead_operand, const_cond_dead_identifier, rw_operand_written) else pred(src)):
            return fid
    return None


TITLES = {"sorts": "ill-sorted", "linearity": "ownership not linear", "wellformed": "not a well-formed C body"}


def run(ctx, col):
    specs = static_space(ctx.tier)
    res = sweep.run_sweep(ctx, specs, "static-" + ctx.tier)
    n = len(res)
    bad = 0
    origins = {"corpus": 0, "sub": 0, "program": 0}
    for origin, src, r in res:
        origins[origin[0]] += 1
        errs = r.get(col) or []
        if not errs:
            continue
        bad += 1
        fids = []
        unexplained = []
        for e in errs:
            f = attribute(col, e, src)
            if f:
                fids.append(f)
            else:
                unexplained.append(e)
        case = {"origin": list(origin[:3]) if origin[0] != "program" else ["program", origin[1]], "source": src[:2000], "errors": errs[:5], "column": col}
        what = "%s %s: %s" % (TITLES[col], origin[:3] if origin[0] != "program" else src[:100], errs[0][:200])
        if unexplained:
            ctx.report(case, None, what=what)
        else:
            ctx.report(case, sorted(set(fids)), what=what)
    extra = {}
    # bodies of registered sub-routines (the only texts with RzILOpPure parameters)
    gen = generated_routine_texts()
    for (fmt, rname), (src, r) in sorted(gen.items()):
        if r[0] != "ok":
            continue
        origins["sub"] += 1
        n += 1
        errs = r[1].get(col) or []
        if not errs:
            continue
        bad += 1
        fids = [attribute(col, e, src) for e in errs]
        case = {"origin": ["generated-sub", fmt, rname], "source": src[:2000], "errors": errs[:5], "column": col}
        ctx.report(case, None if not all(fids) else sorted(set(fids)), what="%s generated sub-routine %s (%s layout) %s: %s" % (TITLES[col], rname, fmt, src[:160], errs[0][:200]))
    extra["generated_sub_routines_checked"] = len([1 for v in gen.values() if v[1][0] == "ok"])
    extra["generated_sub_routines_rejected"] = len([1 for v in gen.values() if v[1][0] != "ok"])
    if col == "wellformed":
        extra.update(metadata_checks(ctx))
    for origin, src, r in res[:2] + res[-2:]:
        ctx.sample({"origin": [str(x)[:120] for x in origin[:3]], "errors": r.get(col)})
    return ctx.finish(
        dict(
            evaluations=n,
            distinct_nontrivial=len(set((o[0], o[1], str(o[2])) for o, _s, _r in res)),
            texts_with_errors=bad,
            corpus_parts=origins["corpus"],
            sub_routine_texts=origins["sub"],
            generated_program_texts=origins["program"],
            rule="every text emitted for: all accepted corpus parts x 2 layouts, the bundled sub-routines x 2 layouts, and %d generated programs x 2 layouts "
            "(operator/type space of C02, all assignment operators x type pairs, comparison/logical results mixed with arithmetic, operand re-use 1..5 times over 1..3 statements, "
            "constant folding with dead operands (also side-effecting, nested conditional, next to further value-producing operations), control-flow nests, a boolean-sorted expression in every operand position, an integer-valued expression in every truth-value position, "
            "every callable x argument kind x statement context, every sink (stores, addresses, register / pair / predicate / alias writes, jump, argument, condition, cast) x 38 source kinds, read-write operand patterns); each text is parsed by the independent C-level reader and checked by the %s checker on all paths; "
            "distinct = distinct (origin, layout, source) triples, each a non-empty emitted body" % (len(specs), col),
            exhaustive=True,
            **extra
        ),
        assumptions=["the sort rules mirror rz_il_validate as documented in DESIGN.md 3/E2", "the plugin template provides `bundle`, `hi`, `pkt` to instruction bodies"],
    )


# parts built only from explicitly numbered registers (which need neither `hi` nor `pkt` to be written), plus one
# construct that brings in `hi`, `pkt`, both or none: the flags must follow the text, part by part
META_BASES = ["R1 = 5;", "P0 = 0xff;", ""]
META_CONSTRUCTS = [
    "", "STORE_SLOT_CANCELLED(pkt, slot);", "cancel_slot;", "R2 = get_npc(pkt);", "R2 = HEX_REG_ALIAS_PC;", "R2 = R3;", "R2 = RsV;", "RdV = 1;", "R2 = siV;", "R2 = NsN;", "R2 = P0_NEW;", "R2 = PuN;",
    "mem_store_u8(0x10, 1);", "R2 = mem_load_u8(0x10);", "JUMP(0x100);", "R2 = clz32(5);", "set_usr_field(bundle, HEX_REG_FIELD_USR_OVF, 1);", "R2 = get_usr_field(bundle, HEX_REG_FIELD_USR_OVF);", "trap(0, 1);",
    "HEX_REG_ALIAS_LR = 4;", "R2 = HEX_REG_ALIAS_LR;", "R5:4 = 7;", "R2 = extract32(0xff00, 8, 8);", "R2 = 1 ? 5 : RsV;", "R2 = sizeof(RsV);", "int32_t t = 3; R2 = t;", 'fatal("C is broken");',
]
META_CONTEXTS = ["%s", "if (1) { %s }", "{ %s }", "for (i = 0; i < 2; i++) { %s }"]


def meta_parts():
    out = []
    for b in META_BASES:
        for c in META_CONSTRUCTS:
            for cx in META_CONTEXTS:
                t = "{ %s %s }" % (b, cx % c if c else "")
                if t not in out:
                    out.append(t)
    return out


def _meta_work(item):
    fmt, texts = item
    comp = _MJOB["comps"][fmt]
    pc = _MJOB["pc"]
    trees = []
    for t in texts:
        r = pc.get(t)
        if r[0] != "ok":
            return ("parse-rejected",)
        trees.append(r[1])
    v = drive.transform_fresh(comp, "V11_meta", trees, list(texts))
    if v[0] != "ok":
        return ("rejected", v[1])
    return ("ok", v[1])


_MJOB = {}


def generated_metadata(ctx):
    """needs_hi / needs_pkt / getter records of generated one- and two-part instructions, both layouts."""
    from vf import il

    parts = meta_parts()
    pc = drive.ParseCache("c11-meta")
    pc.ensure(parts, seed=ctx.seed)
    pc.save()
    comps = {f: drive.get_compiler(f) for f in ("stmt", "exec")}
    _MJOB.update(comps=comps, pc=pc)
    singles = [(f, (t,)) for f in ("stmt", "exec") for t in parts]
    # two-part instructions: the flags are per part (a part must not inherit the other part's flag)
    step = max(1, len(parts) // 24)
    sl = parts[::step]
    pairs = [(f, (a, b)) for f in ("stmt", "exec") for a in sl for b in sl if a != b]
    items = singles + pairs
    res = core.pmap(_meta_work, items, seed=ctx.seed)
    n_ok = n_rej = 0
    combos = set()
    for (fmt, texts), r in zip(items, res):
        if r[0] != "ok":
            n_rej += 1
            continue
        n_ok += 1
        rec = r[1]
        k = len(texts)
        if not (len(rec["rzil"]) == len(rec["needs_hi"]) == len(rec["needs_pkt"]) == len(rec["getter"]["name"]) == len(rec["getter"]["fcn_decl"]) == k):
            ctx.report({"parts": list(texts), "layout": fmt, "why": "companion record lengths"}, None, what="generated instruction %s: companion record lengths differ from the number of parts" % (list(texts),))
            continue
        if len(set(rec["getter"]["name"])) != k:
            ctx.report({"parts": list(texts), "layout": fmt, "getter": rec["getter"]["name"]}, None, what="generated instruction: getter names of the parts are not distinct: %s" % rec["getter"]["name"])
        for pi, text in enumerate(rec["rzil"]):
            mh, mp = il.mentions(text, "hi"), il.mentions(text, "pkt")
            combos.add((mh, mp))
            for var, m, flag in (("hi", mh, rec["needs_hi"][pi]), ("pkt", mp, rec["needs_pkt"][pi])):
                if m and not flag:
                    ctx.report({"parts": list(texts), "part": pi, "layout": fmt, "why": "text mentions %s but needs_%s is false" % (var, var), "text_tail": text[-400:]}, None,
                               what="generated part %s (%s layout): needs_%s is false although the body uses %s" % (texts[pi], fmt, var, var))
    return {"generated_metadata_instructions": n_ok, "generated_metadata_rejected": n_rej, "generated_metadata_hi_pkt_mention_combinations": sorted(combos)}


# generated sub-routines for the static checks: parameters read 0..4 times, inside statement-expressions, conditionals,
# loops, calls and casts; by-reference operands; void routines
GEN_ROUTINES = [
    ("g_once", "int32_t", ["int32_t a"], "{ return a; }"),
    ("g_unused", "int32_t", ["int32_t a", "int32_t b"], "{ return b; }"),
    ("g_twice", "int32_t", ["int32_t a"], "{ return a + a; }"),
    ("g_four", "uint32_t", ["uint32_t a", "uint32_t b"], "{ uint32_t g_four_r = (a > b) ? a : (a - b); return g_four_r + a + b; }"),
    ("g_se_param", "uint32_t", ["uint32_t a", "uint32_t b"], "{ uint32_t g_sp_r = (a > b) ? ({ trap(0, 1); a; }) : (a - b); return g_sp_r + a; }"),
    ("g_se_param2", "uint32_t", ["uint32_t a"], "{ uint32_t g_sq_r = ({ trap(0, 1); a; }); return g_sq_r + a + a; }"),
    ("g_se_op", "int32_t", ["int32_t a", "int32_t b"], "{ int32_t g_so_r = ({ ; a + 1; }); return g_so_r * a + b; }"),
    ("g_se_first", "int64_t", ["int64_t a"], "{ int64_t g_sf_r = ({ int64_t g_sf_t = a; g_sf_t + a; }); return g_sf_r - a; }"),
    ("g_inc", "int32_t", ["int32_t a"], "{ int32_t g_inc_t = a; g_inc_t++; return g_inc_t + a; }"),
    ("g_loop", "int32_t", ["int32_t a", "uint8_t n"], "{ int32_t g_loop_s = 0; int32_t g_loop_i; for (g_loop_i = 0; g_loop_i < n; g_loop_i++) { g_loop_s += a; } return g_loop_s + a + n; }"),
    ("g_call", "uint32_t", ["uint32_t a"], "{ return clz32(a) + clo32(a) + a; }"),
    ("g_cast", "int64_t", ["int8_t a", "uint16_t b"], "{ return (int64_t)a + (uint8_t)b + a + b; }"),
    ("g_cond", "int32_t", ["int32_t a", "int32_t b"], "{ if (a > b) { return a; } else { return b - a; } }"),
    ("g_const", "int32_t", ["int32_t a"], "{ return 1 ? a : a + 1; }"),
    ("g_void", "void", ["HexInsnPktBundle *bundle", "int32_t a"], "{ set_usr_field(bundle, HEX_REG_FIELD_USR_OVF, a & 1); trap(a, a); }"),
    ("g_ref", "int32_t", ["HexInsnPktBundle *bundle", "const HexOp *RxV", "int32_t a"], "{ RxV = RxV + a; return RxV + a; }"),
    ("g_nested", "uint32_t", ["uint32_t a", "uint32_t b"], "{ return g_four(a, b) + g_twice(a) + b; }"),
    ("g_empty_se", "int32_t", ["int32_t a", "int32_t b"], "{ return ({ ; a; }) + b; }"),
    ("g_mem", "int32_t", ["HexInsnPktBundle *bundle", "uint32_t a"], "{ mem_store_u8(a, a); return mem_load_u8(a) + a; }"),
]
_GEN_CACHE = {}


def _gen_routines(fmt):
    from rzilcompiler.Transformer.Hybrids.SubRoutine import SubRoutineInitType
    from vf import prog

    comp = drive.get_compiler(fmt)
    ok = {}
    for n, r, p_, b in GEN_ROUTINES:
        try:
            comp.add_sub_routine(n, r, p_, b)
            ok[n] = comp.sub_routines[n].il_init(SubRoutineInitType.DEF)
        except Exception as e:
            ok[n] = None
    env = prog.Env(comp, extra_routines={n: {"return_type": r, "params": p_, "code": b} for n, r, p_, b in GEN_ROUTINES if ok[n] is not None})
    out = {}
    for n, r, p_, b in GEN_ROUTINES:
        if ok[n] is None:
            out[n] = (b, ("rejected",))
            continue
        try:
            res = sweep.check_text(ok[n], b, env, is_sub=True, sub_name=n)
        except Exception as e:  # reader crash = malformed text
            res = {"wellformed": ["reader failed: %r" % (e,)], "linearity": [], "sorts": []}
        out[n] = (b, ("ok", res, ok[n][-600:]))
    return out


def generated_routine_texts():
    """{(layout, routine): (source, ('ok', static errors, text tail) | ('rejected',))}; compiled in a forked child so that
    the routines never reach the compilers the other parts of the check use."""
    if not _GEN_CACHE:
        for fmt in ("stmt", "exec"):
            r = core.fresh_call(_gen_routines, fmt)
            if r[0] != "ok":
                raise core.HarnessError("compiling the generated sub-routines failed: %s" % (r[1:],))
            for n, v in r[1].items():
                _GEN_CACHE[(fmt, n)] = v
    return _GEN_CACHE


META_ROUTINES = [
    ("m_none", "int32_t", ["int32_t x"], "{ return x + 1; }"),
    ("m_none_b", "int32_t", ["HexInsnPktBundle *bundle", "int32_t x"], "{ return x + 1; }"),
    ("m_npc", "int32_t", ["HexInsnPktBundle *bundle", "int32_t x"], "{ return x + get_npc(pkt); }"),
    ("m_lr", "int32_t", ["HexInsnPktBundle *bundle", "int32_t x"], "{ return x + HEX_REG_ALIAS_LR; }"),
    ("m_slot", "void", ["HexInsnPktBundle *bundle", "int32_t x"], "{ if (x) { STORE_SLOT_CANCELLED(pkt, slot); } }"),
    ("m_imm", "int32_t", ["HexInsnPktBundle *bundle", "int32_t x"], "{ return x + siV; }"),
    ("m_reg", "int32_t", ["HexInsnPktBundle *bundle", "int32_t x"], "{ return x + RsV; }"),
    ("m_expl", "int32_t", ["HexInsnPktBundle *bundle", "int32_t x"], "{ R3 = x; return x; }"),
    ("m_usr", "void", ["HexInsnPktBundle *bundle", "int32_t x"], "{ set_usr_field(bundle, HEX_REG_FIELD_USR_OVF, x); }"),
    ("m_load", "int32_t", ["HexInsnPktBundle *bundle", "int32_t x"], "{ return mem_load_u8(x); }"),
    ("m_jump", "void", ["HexInsnPktBundle *bundle", "int32_t x"], "{ JUMP(x); }"),
]


def _routine_texts(fmt):
    from rzilcompiler.Transformer.Hybrids.SubRoutine import SubRoutineInitType

    comp = drive.get_compiler(fmt)
    out = {}
    for n, r, p_, b in META_ROUTINES:
        try:
            comp.add_sub_routine(n, r, p_, b)
            out[n] = ("ok", comp.sub_routines[n].il_init(SubRoutineInitType.DEF))
        except Exception as e:
            out[n] = ("exc", type(e).__name__)
    return out


def generated_routine_prologues(ctx):
    """A registered sub-routine whose body mentions hi / pkt declares them (and only through its bundle parameter)."""
    from vf import il

    n_ok = 0
    combos = set()
    for fmt in ("stmt", "exec"):
        r = core.fresh_call(_routine_texts, fmt)
        if r[0] != "ok":
            raise core.HarnessError("registering generated routines failed: %s" % (r[1:],))
        for n, v in sorted(r[1].items()):
            if v[0] != "ok":
                continue
            n_ok += 1
            text = v[1]
            header, body = text.split("{", 1)
            decls = {"hi": "const HexInsn *hi = bundle->insn;", "pkt": "HexPkt *pkt = bundle->pkt;"}
            used = tuple(il.mentions(body.replace(decls["hi"], "").replace(decls["pkt"], ""), v_) for v_ in ("hi", "pkt"))
            combos.add(used)
            for var, decl in decls.items():
                uses = il.mentions(body.replace(decl, ""), var)
                if uses and decl not in body:
                    ctx.report({"routine": n, "layout": fmt, "why": "%s used but not declared" % var, "text_head": text[:400]}, None, what="generated sub-routine %s (%s layout) uses %s without declaring it" % (n, fmt, var))
                if body.count(decl) > 1:
                    ctx.report({"routine": n, "layout": fmt, "why": "%s declared twice" % var}, None, what="generated sub-routine %s declares %s twice" % (n, var))
    return {"generated_routine_prologues_checked": n_ok, "generated_routine_hi_pkt_use_combinations": sorted(combos)}


def metadata_checks(ctx):
    """C11 second half: needs_hi / needs_pkt, getter names."""
    from vf import il

    beh, _pc = corpus.parsed_corpus(ctx.seed)
    names = {}
    n_parts = 0
    comp = drive.get_compiler("stmt")
    for fmt in ("stmt", "exec"):
        res = corpus.compile_corpus(fmt, ctx.seed)
        for name, v in sorted(res.items()):
            if v[0] != "ok":
                continue
            r = v[1]
            k = len(r["rzil"])
            if not (len(r["getter"]["name"]) == len(r["getter"]["fcn_decl"]) == k == len(r["needs_hi"]) == len(r["needs_pkt"]) == len(beh[name])):
                ctx.report({"insn": name, "why": "getter/flag lists do not have one entry per part"}, None, what="%s: companion record lengths" % name)
                continue
            for pi, text in enumerate(r["rzil"]):
                n_parts += 1
                for var, flag in (("hi", r["needs_hi"][pi]), ("pkt", r["needs_pkt"][pi])):
                    if il.mentions(text, var) and not flag:
                        ctx.report({"insn": name, "part": pi, "layout": fmt, "why": "text mentions %s but needs_%s is false" % (var, var)}, None, what="%s part %d: needs_%s false although the body uses %s" % (name, pi, var, var))
                g = r["getter"]["name"][pi]
                d = r["getter"]["fcn_decl"][pi]
                if not re.match(r"^[A-Za-z_]\w*$", g) or ("RzILOpEffect *%s(HexInsnPktBundle *bundle)" % g) != d:
                    ctx.report({"insn": name, "part": pi, "getter": g, "decl": d}, None, what="%s: getter name/declaration malformed" % name)
                if fmt == "stmt":
                    names.setdefault(g, []).append((r["name"], pi))
    for g, users in names.items():
        if len(set(users)) > 1:
            ctx.report({"getter": g, "users": users}, None, what="getter name %s used by %s" % (g, users))
    # getter names over ALL corpus names (also the ones the compiler rejects today)
    from rzilcompiler.Compiler import RZILInstruction

    allg = {}
    for name in beh:
        try:
            insn = comp.ext.transform_insn_name(name)
        except Exception:
            continue
        parts = beh[name]
        for pi in range(len(parts)):
            g = RZILInstruction.gen_hex_il_op_getter_name(insn, pi if len(parts) > 1 else -1)
            allg.setdefault(g, set()).add((name, pi))
    for g, users in allg.items():
        if len(users) > 1:
            ctx.report({"getter": g, "users": sorted(users)}, None, what="getter name collision: %s" % g)
    # sub-routine bodies declare what they mention
    for n, text in sorted(drive.sub_routine_texts(comp).items()):
        body = text.split("{", 1)[1]
        header = text.split("{", 1)[0]
        for var, decl in (("hi", "const HexInsn *hi = bundle->insn;"), ("pkt", "HexPkt *pkt = bundle->pkt;")):
            if il.mentions(body.replace(decl, ""), var) and decl not in body and not re.search(r"\b%s\b" % var, header):
                ctx.report({"sub_routine": n, "why": "%s used but not declared" % var}, None, what="sub-routine %s uses %s without declaring it" % (n, var))
            if decl in body and not re.search(r"\bbundle\b", header):
                ctx.report({"sub_routine": n, "why": "prologue uses bundle but the routine has no bundle parameter"}, None, what="sub-routine %s: prologue needs bundle" % n)
    out = {"metadata_parts_checked": n_parts, "getter_names_checked": len(allg)}
    out.update(generated_metadata(ctx))
    out.update(generated_routine_prologues(ctx))
    return out


def replay(ctx, path, col):
    case = json.load(open(path))
    print(json.dumps(case, indent=1)[:3000])
    src = case.get("source")
    if case.get("origin", [""])[0] == "program" and src:
        fmt = case["origin"][1]
        comp = drive.get_compiler(fmt)
        env = prog.Env(comp)
        r = drive.compile_stmt_fresh(comp, src)
        if r[0] != "ok":
            print("now rejected:", r[1])
            return 0
        out = sweep.check_text(r[1], src, env, extra_inputs=None)
        errs = out.get(col) or []
        unexplained = [e for e in errs if not attribute(col, e, src)]
        print("errors now:", errs[:5])
        if unexplained:
            print("VIOLATION property=%s replay=%s" % (ctx.pid, path))
            return 1
    return 0
