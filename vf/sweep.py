"""E8: static-check sweep.  Every text the compiler emits for (a) the bundled corpus in both
layouts, (b) the bundled sub-routines, (c) generated program spaces in both layouts is read by
the independent C-level reader and put through the well-formedness (C11), linearity (C12) and
sort (C10) checkers.  C10/C11/C12 each own one column of the result."""
import json
import os
import re

from vf import core, corpus, cparse, drive, il, prog

_JOB = {}


def declared_sorts(text):
    """name -> sort of every integer local declared in the C source (independent of the
    compiler's "// Declare" comments); names declared with two different types are dropped."""
    out = {}
    bad = set()
    try:
        ast = cparse.parse_behaviour(text)
    except cparse.CSyntaxError:
        return {}

    def walk(n):
        if isinstance(n, tuple):
            if n and n[0] == "decl":
                for (name, init, tt) in n[3]:
                    if len(tt) == 2 and isinstance(tt[0], bool):
                        s = il.bv(tt[1])
                        if name in out and out[name] != s:
                            bad.add(name)
                        out[name] = s
            for x in n[1:]:
                walk(x)
        elif isinstance(n, list):
            for x in n:
                walk(x)

    walk(ast)
    for b in bad:
        out.pop(b, None)
    return out


def check_text(text, src, env, is_sub=False, sub_name=None, extra_inputs=None):
    """-> {'wellformed': [...], 'linearity': [...], 'sorts': [...]}"""
    b = il.parse_body(text, is_sub=is_sub)
    ops = drive.scan_operands(src)
    opw = drive.letter_widths(ops)
    res = {}
    if is_sub:
        res["wellformed"] = il.check_wellformed(b, allow_free=())
        ps = {}
        sorts = env.sub_sorts.get(sub_name, [])
        for (pn, pk, _t), s in zip(b.params, sorts):
            if pk == "pure" and s is not None:
                ps[pn] = s
        for (pn, pk, _t) in b.params:
            if pk == "op":
                opw.setdefault("x", 32)
                m = re.match(r"^[A-Z]([a-z])", pn)
                if m:
                    opw[m.group(1)] = 64 if re.match(r"^[A-Z](dd|ss|tt|uu|vv|xx|yy)", pn) else 32
        res["sorts"] = il.check_sorts(b, opwidth=opw, subs=env.sub_sorts, param_sorts=ps, declared=declared_sorts(src))
    else:
        res["wellformed"] = il.check_wellformed(b)
        res["sorts"] = il.check_sorts(b, opwidth=opw, subs=env.sub_sorts, inputs=extra_inputs, declared=declared_sorts(src))
    res["linearity"] = il.check_linearity(b)
    return res


# ---- workers


def _corpus_part(item):
    fmt, name, pi, part, text = item
    try:
        r = check_text(text, part, _JOB["env"][fmt])
    except Exception as e:  # reader crash = malformed text
        r = {"wellformed": ["reader failed: %r" % (e,)], "linearity": [], "sorts": []}
    return r


def _program(item):
    fmt, spec = item
    comp = _JOB["comp"][fmt]
    r = drive.compile_stmt_fresh(comp, spec.text)
    if r[0] != "ok":
        return None
    inputs = {n: il.bv(T[1]) for n, T, _r in spec.inputs()}
    try:
        out = check_text(r[1], spec.text, _JOB["env"][fmt], extra_inputs=inputs)
    except Exception as e:
        out = {"wellformed": ["reader failed: %r" % (e,)], "linearity": [], "sorts": []}
    return out


def run_sweep(ctx, specs, bucket, fmts=("stmt", "exec"), with_corpus=True):
    """Returns list of (origin, source text, emitted-text errors dict)."""
    comps = {f: drive.get_compiler(f) for f in fmts}
    envs = {f: prog.Env(comps[f]) for f in fmts}
    _JOB.update(comp=comps, env=envs)
    out = []
    if with_corpus:
        beh, _pc = corpus.parsed_corpus(ctx.seed)
        for f in fmts:
            res = corpus.compile_corpus(f, ctx.seed)
            items = []
            for name in sorted(res):
                v = res[name]
                if v[0] != "ok":
                    continue
                for pi, (part, text) in enumerate(zip(beh[name], v[1]["rzil"])):
                    items.append((f, name, pi, part, text))
            rs = core.pmap(_corpus_part, items, seed=ctx.seed)
            for it, r in zip(items, rs):
                out.append((("corpus", it[0], it[1], it[2]), it[3], r))
            ctx.log("corpus layout %s: %d parts" % (f, len(items)))
        for f in fmts:
            for n, text in sorted(drive.sub_routine_texts(comps[f]).items()):
                src = envs[f].sub_src[n][2]
                try:
                    r = check_text(text, src, envs[f], is_sub=True, sub_name=n)
                except Exception as e:
                    r = {"wellformed": ["reader failed: %r" % (e,)], "linearity": [], "sorts": []}
                out.append((("sub", f, n, 0), src, r))
    if specs:
        pc = drive.ParseCache(bucket)
        pc.ensure([s.text for s in specs], seed=ctx.seed)
        pc.save()
        for f in fmts:
            drive.install_cache(comps[f], pc)
        items = [(f, s) for f in fmts for s in specs]
        rs = core.pmap(_program, items, seed=ctx.seed)
        nrej = 0
        for (f, s), r in zip(items, rs):
            if r is None:
                nrej += 1
                continue
            out.append((("program", f, s.text, 0), s.text, r))
        ctx.log("programs: %d x %d layouts, %d rejected" % (len(specs), len(fmts), nrej))
    return out
