"""Float operations as uninterpreted deterministic functions of their argument bit patterns,
shared by ILVM and the C reference (IEEE semantics are outside every claim: only the name
mapping, argument order and the integer conversions around them are under test)."""
import hashlib


def H(term, bits):
    h = hashlib.sha256(repr(term).encode()).digest()
    return int.from_bytes(h[:16], "little") & ((1 << bits) - 1)


def bv2f(width, bits):
    return ("f", width, ("bits", bits & ((1 << width) - 1)))


def f2bv(f):
    if f[2][0] == "bits":
        return (f[1], f[2][1])
    return (f[1], H(("f2bv", f[2]), f[1]))


def fbin(op, a, b):
    return ("f", a[1], (op, a[2], b[2]))


def fcmp(op, a, b):
    return bool(H((op, a[2], b[2]), 1))


def int_to_f(op, width, v):
    return ("f", width, (op, v))


def f_to_int(op, f):
    return (64, H((op, f[2]), 64))


def fpred(op, f):
    return bool(H((op, f[2]), 1))


FLOAT_FMT_BITS = {"RZ_FLOAT_IEEE754_BIN_32": 32, "RZ_FLOAT_IEEE754_BIN_64": 64}
FLOAT_PURES = {
    "BV2F", "F2BV", "FADD", "FSUB", "FMUL", "FDIV", "FEQ", "FGT", "FGE", "FLT", "FLE", "IS_INF",
    "HEX_INT_TO_D", "HEX_SINT_TO_D", "HEX_INT_TO_F", "HEX_SINT_TO_F",
    "HEX_D_TO_INT", "HEX_D_TO_SINT", "HEX_F_TO_INT", "HEX_F_TO_SINT",
}


def compile_float_pure(prog, n, a, fr):
    from vf.ilvm import ILError, bvv

    def fl(v, what):
        if type(v) is tuple and v[0] == "f":
            return v
        raise ILError("sort", "%s: float expected" % what)

    if n == "BV2F":
        fmt = a[0][1]
        if fmt not in FLOAT_FMT_BITS:
            raise ILError("malformed", "float format %s" % fmt)
        w = FLOAT_FMT_BITS[fmt]
        x = prog.c_pure(a[1], fr)

        def f(m):
            v = bvv(x(m), n)
            if v[0] != w:
                raise ILError("sort", "BV2F of %d bits as %s" % (v[0], fmt))
            return bv2f(w, v[1])

        return f
    if n == "F2BV":
        x = prog.c_pure(a[0], fr)
        return lambda m: f2bv(fl(x(m), n))
    if n in ("FADD", "FSUB", "FMUL", "FDIV"):
        x, y = prog.c_pure(a[1], fr), prog.c_pure(a[2], fr)

        def f(m):
            p, q = fl(x(m), n), fl(y(m), n)
            if p[1] != q[1]:
                raise ILError("sort", "%s of different formats" % n)
            return fbin(n.lower(), p, q)

        return f
    if n in ("FEQ", "FGT", "FGE", "FLT", "FLE"):
        x, y = prog.c_pure(a[0], fr), prog.c_pure(a[1], fr)
        return lambda m: fcmp(n.lower(), fl(x(m), n), fl(y(m), n))
    if n == "IS_INF":
        x = prog.c_pure(a[0], fr)
        return lambda m: fpred("is_inf", fl(x(m), n))
    if n in ("HEX_INT_TO_D", "HEX_SINT_TO_D", "HEX_INT_TO_F", "HEX_SINT_TO_F"):
        x = prog.c_pure(a[1], fr)
        w = 64 if n.endswith("_D") else 32

        def f(m):
            v = bvv(x(m), n)
            if v[0] != 64:
                raise ILError("sort", "%s of %d bits" % (n, v[0]))
            return int_to_f(n[4:].lower(), w, v[1])

        return f
    if n in ("HEX_D_TO_INT", "HEX_D_TO_SINT", "HEX_F_TO_INT", "HEX_F_TO_SINT"):
        x = prog.c_pure(a[1], fr)
        w = 64 if "_D_" in n else 32

        def f(m):
            v = fl(x(m), n)
            if v[1] != w:
                raise ILError("sort", "%s of a %d-bit float" % (n, v[1]))
            return f_to_int(n[4:].lower(), v)

        return f
    raise ILError("unknown-op", n)
