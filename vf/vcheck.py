"""Value-level check engine shared by C01, C02, C03, C05, C06, C08, C09, C16:
programs x states, IL machine vs C reference, attribution of disagreements to known
deviation rules (known findings), static checks on every emitted text."""
import itertools
import traceback

from vf import ceval, core, cparse, deviations, drive, il, ilvm, prog

_JOB = {}


def setup(compiler, env, cache, budget, extra=None):
    _JOB.clear()
    _JOB.update(compiler=compiler, env=env, cache=cache, budget=budget)
    _JOB.update(extra or {})


def compile_spec(spec):
    comp = _JOB["compiler"]
    r = drive.compile_stmt_fresh(comp, spec.text)
    return r


def check_program(spec):
    """Worker: everything for one program.  Returns a small picklable dict."""
    env = _JOB["env"]
    budget = _JOB["budget"]
    res = {"text": spec.text, "tag": spec.tag, "spec": {"decls": [list(d) for d in spec.decls], "stmts": spec.stmts, "observe": list(spec.observe)}}
    r = compile_spec(spec)
    if r[0] != "ok":
        res.update(status="rejected", exc=r[1], msg=r[2][:200])
        return res
    text = r[1]
    res["il_text_len"] = len(text)
    try:
        cp = prog.Compiled(spec, text, env)
    except cparse.CSyntaxError as e:
        if getattr(spec, "invalid_c", False):
            res.update(status="accepted-not-c", detail=str(e)[:200])
            return res
        raise core.HarnessError("reference parser rejects generated program %r: %s" % (spec.text, e))
    if _JOB.get("static", True):
        st = cp.static_errors()
        res["static"] = {k: v[:3] for k, v in st.items() if v}
    slots, states = prog.states_for(spec, cp.ops, budget, _JOB.get("extra_slots", ()))
    res["n_states"] = len(states)
    n_ub = n_unsup = 0
    bad = []  # (vec, kind, detail)
    il_results = []
    c_strict = []
    for vec in states:
        # C side, strict
        try:
            cobs = cp.run_c(slots, vec)
        except ceval.CUndefined:
            n_ub += 1
            il_results.append(None)
            c_strict.append(None)
            continue
        except ceval.CUnsupported as e:
            n_unsup += 1
            res.setdefault("unsupported", str(e)[:100])
            il_results.append(None)
            c_strict.append(None)
            continue
        # IL side
        try:
            m = cp.run_il(slots, vec)
            iobs = m.observation(spec.observe)
            cur = dict(m.cur)
            extra = {}
            if m.widthchg:
                extra["widthchg"] = m.widthchg[:2]
            ires = ("ok", iobs, cur, extra)
        except ilvm.HelperUB:
            n_ub += 1
            il_results.append(None)
            c_strict.append(None)
            continue
        except ilvm.ILError as e:
            ires = ("err", e.kind, e.msg)
        il_results.append(ires)
        c_strict.append(cobs)
        if ires[0] == "err":
            bad.append((vec, "il-error", "%s: %s" % (ires[1], ires[2])))
        else:
            d = prog.diff_obs(cobs, ires[1], ires[2])
            if d:
                if any("IL holds a" in x for x in d):
                    il_results[-1] = ("err", "sort", "; ".join(x for x in d if "IL holds a" in x))
                    bad.append((vec, "il-error", "sort: " + il_results[-1][2]))
                else:
                    bad.append((vec, "mismatch", "; ".join(d[:3])))
    res["n_ub"] = n_ub
    res["n_unsupported"] = n_unsup
    res["n_compared"] = sum(1 for x in il_results if x is not None)
    if not bad:
        res["status"] = "agree"
        return res
    # ---- attribution to deviation rules
    res["status"] = "disagree"
    res["n_bad"] = len(bad)
    res["first_bad"] = {"state": dict(zip([s[0] for s in slots], bad[0][0])), "kind": bad[0][1], "detail": bad[0][2][:300]}
    kinds = sorted(set(b[1] for b in bad))
    res["bad_kinds"] = kinds
    cands = deviations.triggered(cp.cast, cp.ops, cp)
    res["triggered"] = [r.id for r in cands]
    expl = None
    if any(b[1] == "il-error" and not b[2].startswith("horizon") for b in bad):
        # ill-sorted / unexecutable IL: explained only by a static rule whose signature matches
        msgs = sorted(set(b[2] for b in bad if b[1] == "il-error"))
        st = deviations.explain_il_errors(msgs, cands, cp)
        if st is not None and all(b[1] == "il-error" for b in bad):
            expl = st
        elif st is not None:
            # mixture: value rules must explain the states that did execute
            val = explain_values(cp, slots, states, il_results, cands, require=st)
            expl = val
    else:
        expl = explain_values(cp, slots, states, il_results, cands)
    if expl is not None:
        res["explained_by"] = sorted(expl)
    return res


def explain_values(cp, slots, states, il_results, cands, require=None):
    """Smallest set D of triggered value rules with cref(D) == IL on every comparable state."""
    vrules = [r for r in cands if r.kind == "value"]
    base = set(require or ())
    for k in range(0 if require else 1, min(len(vrules), 4) + 1):
        for combo in itertools.combinations(vrules, k):
            D = frozenset(r.id for r in combo)
            if agrees_under(cp, slots, states, il_results, D):
                return set(D) | base
    return None


def agrees_under(cp, slots, states, il_results, D):
    for vec, ires in zip(states, il_results):
        if ires is None:
            continue
        if ires[0] == "err" and ires[1] != "horizon":
            continue  # covered by the static rule in `require`
        try:
            cobs = cp.run_c(slots, vec, D)
        except ceval.CHorizon:
            if ires[0] == "err":
                continue  # both sides do not terminate within the horizon
            return False
        except (ceval.CUndefined, ceval.CUnsupported):
            return False
        if ires[0] == "err":
            return False
        if prog.diff_obs(cobs, ires[1], ires[2]):
            return False
    return True


def run_space(ctx, specs, bucket, budget, compiler=None, env=None, extra=None, static=True):
    """Runs the whole space; returns the list of per-program results (in spec order)."""
    comp = compiler or drive.get_compiler()
    env = env or prog.Env(comp)
    pc = drive.ParseCache(bucket)
    texts = [s.text for s in specs]
    ctx.log("programs: %d; parsing (cache has %d) ..." % (len(specs), len(pc.z)))
    pc.ensure(texts, seed=ctx.seed)
    pc.save()
    ctx.log("parsed now: %d" % pc.n_parsed_now)
    drive.install_cache(comp, pc)
    ex = {"static": static}
    ex.update(extra or {})
    setup(comp, env, pc, budget, ex)
    results = core.pmap(check_program, specs, seed=ctx.seed)
    return results


def summarize(ctx, specs, results, finding_of, prop_rules=None):
    """Common aggregation: counts, violations, known findings.  finding_of: rule id -> KF id."""
    cov = {"programs": len(specs), "accepted": 0, "rejected": 0, "agree": 0, "disagree_explained": 0, "states_compared": 0, "ub_skipped": 0, "unsupported_by_reference": 0}
    outcomes = set()
    for spec, r in zip(specs, results):
        if r["status"] == "rejected":
            cov["rejected"] += 1
            continue
        cov["accepted"] += 1
        cov["states_compared"] += r.get("n_compared", 0)
        cov["ub_skipped"] += r.get("n_ub", 0)
        cov["unsupported_by_reference"] += r.get("n_unsupported", 0)
        if r["status"] == "agree":
            cov["agree"] += 1
            continue
        expl = r.get("explained_by")
        case = {"program": r["text"], "spec": r.get("spec"), "budget": _JOB.get("budget"), "tag": r.get("tag"), "first_bad": r.get("first_bad"), "n_bad_states": r.get("n_bad"), "triggered_rules": r.get("triggered")}
        if expl:
            fids = sorted(set(finding_of.get(x, x) for x in expl))
            case["explained_by"] = sorted(expl)
            if not ctx.report(case, fids, what="%s  [%s]" % (r["text"][:120], r["first_bad"]["detail"][:160])):
                cov["disagree_explained"] += 1
        else:
            ctx.report(case, None, what="%s  [%s]" % (r["text"][:160], r["first_bad"]["detail"][:200]))
    return cov


def replay(ctx, path, bucket="replay", extra=None):
    """Re-runs one recorded program (all states of its domain) without the explorer."""
    import json

    case = json.load(open(path))
    sp = case["spec"]
    spec = prog.ProgSpec([tuple(d) for d in sp["decls"]], sp["stmts"], sp["observe"])
    results = run_space(ctx, [spec], bucket, case.get("budget") or 256, extra=extra)
    r = results[0]
    print("program :", r["text"])
    print("status  :", r["status"], "explained_by:", r.get("explained_by"))
    if r.get("first_bad"):
        print("first bad state:", json.dumps(r["first_bad"]))
    if r["status"] == "disagree":
        fids = sorted(set(deviations.FINDING_OF.get(x, x) for x in (r.get("explained_by") or [])))
        if fids and all(f in ctx.known for f in fids):
            print("KNOWN-FINDING: property=%s %s" % (ctx.pid, " ".join(fids)))
            return 0
        print("VIOLATION property=%s replay=%s" % (ctx.pid, path))
        return 1
    if r["status"] == "rejected":
        print("rejected:", r.get("exc"), r.get("msg"))
    return 0


def check_rejections(ctx, specs, results, name):
    """Acceptance side: a program of a supported alphabet that is rejected although the committed
    baseline lists it as accepted is reported (a supported construct turned into a rejection).
    VERIF_MAKE_BASELINE=1 rewrites the baseline (deliberate act, never done by a normal run)."""
    import json
    import os

    path = os.path.join(core.VERIF, "baselines", "rejected_%s_%s.json" % (name, ctx.tier))
    now = sorted(r["text"] for r in results if r["status"] == "rejected")
    if os.environ.get("VERIF_MAKE_BASELINE") == "1":
        os.makedirs(os.path.dirname(path), exist_ok=True)
        json.dump(now, open(path, "w"), indent=0)
        ctx.log("baseline of rejected programs written: %d" % len(now))
    if not os.path.exists(path):
        raise core.HarnessError("missing baseline %s (run once with VERIF_MAKE_BASELINE=1)" % path)
    base = set(json.load(open(path)))
    n = 0
    for r in results:
        if r["status"] == "rejected" and r["text"] not in base:
            n += 1
            ctx.report({"program": r["text"], "spec": r.get("spec"), "rejected_with": r["exc"], "msg": r["msg"]}, None, what="construct of the supported alphabet is rejected: %s (%s)" % (r["text"][-140:], r["exc"]))
    return {"rejected_in_baseline": len(base), "newly_rejected": n}
