"""E7  Controlled worker pool: a drop-in for multiprocessing.Pool whose scheduler is the harness.

What is real and what is controlled
-----------------------------------
* Workers are real forked processes (os.fork from the process that constructs the pool, as the
  real pool does with the fork start method).  Per-worker module state is therefore isolated
  exactly as in the real pool.  The worker loop is a transcription of multiprocessing.pool.worker:
  `except Exception` around the call, ExceptionWithTraceback wrapping, MaybeEncodingError when the
  result cannot be pickled.  Tasks and results cross the process boundary as ForkingPickler bytes.
* Every nondeterministic decision of the real pool is a choice point handed to a chooser
  (vf.core.Chooser or anything with choose(n, label)):
    dispatch(w)   the next pending task (tasks leave the queue in submission order, as with the
                  real pool's shared FIFO task queue) is taken by idle worker w;
    complete(w)   the result of the task running on worker w arrives at the result handler;
                  the order of these moves is the completion order, which is what
                  imap_unordered / map's "first failure" / callbacks observe;
    reject        the task at the head of the queue could not be pickled (the real task handler
                  then fails that one task without involving a worker);
    timeout       a wait with a timeout may expire before the next pool move.
  Workers run one task at a time.  The consumer API (imap, imap_unordered, map, map_async,
  starmap, apply, apply_async, close/join/terminate, context manager) is layered on these moves
  exactly as multiprocessing.pool layers it on its queues: IMapIterator re-orders by index,
  IMapUnorderedIterator delivers in completion order, MapResult keeps the first failure to arrive
  and becomes ready when all chunks are in.
* Pool moves happen only while the consumer is blocked in next()/get()/wait()/join() and only as
  many as are needed to unblock it.  The consumer cannot observe pool state in between (workers
  are other processes), so every total order of moves of the real pool is represented.

Symmetry reduction
------------------
All workers of a pool are forked from the same parent state, and a worker's state is a function
of that state and of the sequence of tasks it has run.  Two idle workers with equal task histories
are therefore in equal states; exchanging them maps every continuation to one with identical
results (results carry no worker identity).  Only the lowest-numbered idle worker of each history
class is offered for dispatch.  Controller(symmetry=False) switches the reduction off.

History-indexed result memo (optional, off by default)
------------------------------------------------------
By the same argument the reply to task t of a worker with history h is a function of (h, t).  With
a `memo` mapping the pool looks the reply bytes up under sha1(initialiser, h, t) and forks no
process on a hit.  On a miss a real worker is forked, runs h (every reply is compared with the
memo; a difference raises HarnessError: the code is not a function of its history and must be
explored live), then t, and the reply is stored.  Every memo entry was thus produced by a real
process with exactly that history.  In this mode workers are forked on first use rather than in
Pool().  Without a memo (live mode) all workers are forked in Pool() and every task is executed.

Hangs
-----
Situations in which the real pool blocks the consumer forever are raised as PoolHang (a
BaseException, so that code under test cannot swallow it): a result that cannot be unpickled in
the parent (the real result-handler thread dies), a worker that dies while running a task (the
job is lost), waiting on a terminated pool, and "no enabled move while something is awaited"
(deadlock).  A worker that does not answer within task_timeout raises WorkerTimeout; more than
max_moves choice points in one execution raise HorizonExceeded.
"""
import collections
import hashlib
import itertools
import os
import pickle
import select
import signal
import struct
import time
from multiprocessing import TimeoutError as MPTimeoutError
from multiprocessing.pool import (
    ExceptionWithTraceback,
    MaybeEncodingError,
    Pool as _StdPool,
    _helper_reraises_exception,
    mapstar,
    starmapstar,
)
from multiprocessing.reduction import ForkingPickler

from vf import core


class PoolSignal(BaseException):
    """Raised by the controlled pool into the consumer; never an ordinary Exception."""


class PoolHang(PoolSignal):
    """The real pool would block the consumer forever at this point."""


class WorkerTimeout(PoolSignal):
    """A worker did not answer within the time limit (the task hangs)."""


class HorizonExceeded(PoolSignal):
    """More choice points in one execution than the stated horizon."""


RUN, CLOSE, TERMINATE = "RUN", "CLOSE", "TERMINATE"

_HDR = struct.Struct("<cQ")


# --------------------------------------------------------------------------------------
# framing over pipes


def _write_all(fd, data):
    view = memoryview(data)
    while view:
        n = os.write(fd, view)
        view = view[n:]


def _send(fd, kind, data=b""):
    _write_all(fd, _HDR.pack(kind, len(data)) + bytes(data))


def _read_exact(fd, n, deadline=None):
    """-> bytes, or None on EOF; raises TimeoutError past the deadline."""
    chunks = []
    while n:
        if deadline is not None:
            left = deadline - time.time()
            if left <= 0:
                raise TimeoutError()
            r, _, _ = select.select([fd], [], [], left)
            if not r:
                raise TimeoutError()
        b = os.read(fd, min(n, 1 << 20))
        if not b:
            return None
        chunks.append(b)
        n -= len(b)
    return b"".join(chunks)


def _recv(fd, deadline=None):
    h = _read_exact(fd, _HDR.size, deadline)
    if h is None:
        return None, b""
    kind, n = _HDR.unpack(h)
    data = _read_exact(fd, n, deadline) if n else b""
    if data is None:
        return None, b""
    return kind, data


# --------------------------------------------------------------------------------------
# the worker process (transcription of multiprocessing.pool.worker)


def _worker_main(rfd, wfd, initializer, initargs, close_fds):
    try:
        for fd in close_fds:
            try:
                os.close(fd)
            except OSError:
                pass
        if initializer is not None:
            initializer(*initargs)
        while True:
            kind, data = _recv(rfd)
            if kind is None or kind == b"Q":
                break
            try:
                func, args, kwds = pickle.loads(data)
            except BaseException as e:  # the real worker dies in get(): the job is lost
                _send(wfd, b"U", repr(e).encode("utf8", "replace"))
                break
            try:
                result = (True, func(*args, **kwds))
            except Exception as e:
                if func is not _helper_reraises_exception:
                    e = ExceptionWithTraceback(e, e.__traceback__)
                result = (False, e)
            except BaseException as e:  # SystemExit, KeyboardInterrupt: the real worker exits
                _send(wfd, b"D", repr(e).encode("utf8", "replace"))
                break
            try:
                out = bytes(ForkingPickler.dumps(result))
            except Exception as e:
                wrapped = MaybeEncodingError(e, result[1])
                out = bytes(ForkingPickler.dumps((False, wrapped)))
            _send(wfd, b"R", out)
    except BaseException as e:  # noqa
        try:
            _send(wfd, b"D", repr(e).encode("utf8", "replace"))
        except BaseException:  # noqa
            pass
    finally:
        os._exit(0)


class _Proc:
    """Parent-side handle of one real worker process."""

    def __init__(self, initializer, initargs, close_fds):
        p2c_r, p2c_w = os.pipe()
        c2p_r, c2p_w = os.pipe()
        pid = os.fork()
        if pid == 0:
            os.close(p2c_w)
            os.close(c2p_r)
            _worker_main(p2c_r, c2p_w, initializer, initargs, close_fds)
            os._exit(0)  # not reached
        os.close(p2c_r)
        os.close(c2p_w)
        self.pid = pid
        self.to_fd = p2c_w
        self.from_fd = c2p_r
        self.alive = True

    def fds(self):
        return [self.to_fd, self.from_fd]

    def send_task(self, payload):
        try:
            _send(self.to_fd, b"T", payload)
        except OSError as e:
            raise PoolHang("worker %d is gone (%r): the real pool loses the job and the consumer waits forever" % (self.pid, e))

    def recv(self, timeout):
        try:
            kind, data = _recv(self.from_fd, time.time() + timeout)
        except TimeoutError:
            self.kill()
            raise WorkerTimeout("worker %d did not answer within %.0f s" % (self.pid, timeout))
        if kind is None:
            self.kill()
            return b"D", b"worker exited without a reply"
        return kind, data

    def quit(self):
        """Explicit quit message: forked siblings inherit each other's pipe ends, so a worker
        never sees EOF on its task pipe."""
        if not self.alive:
            return
        self.alive = False
        try:
            _send(self.to_fd, b"Q")
        except OSError:
            pass
        for fd in (self.to_fd, self.from_fd):
            try:
                os.close(fd)
            except OSError:
                pass
        deadline = time.time() + 5.0
        while True:
            try:
                pid, _ = os.waitpid(self.pid, os.WNOHANG)
            except ChildProcessError:
                return
            if pid:
                return
            if time.time() > deadline:
                break
            time.sleep(0.0005)
        self._sigkill()

    def kill(self):
        if not self.alive:
            return
        self.alive = False
        for fd in (self.to_fd, self.from_fd):
            try:
                os.close(fd)
            except OSError:
                pass
        self._sigkill()

    def _sigkill(self):
        try:
            os.kill(self.pid, signal.SIGKILL)
        except OSError:
            pass
        try:
            os.waitpid(self.pid, 0)
        except ChildProcessError:
            pass


# --------------------------------------------------------------------------------------
# controller: one per execution (one complete choice sequence)


class Controller:
    def __init__(self, chooser, workers, memo=None, symmetry=True, task_timeout=120.0, max_moves=400):
        if workers < 1:
            raise core.HarnessError("controller needs at least one worker")
        self.chooser = chooser
        self.workers = workers
        self.memo = memo
        self.symmetry = symmetry
        self.task_timeout = task_timeout
        self.max_moves = max_moves
        self.trace = []  # executed moves, in order (dicts)
        self.edges = []  # (abstract state before, move label, abstract state after)
        self.pools = []
        self.njobs = 0
        self.nchoices = 0
        self.forks = 0
        self.executed = 0  # tasks really executed in a worker process
        self.memo_hits = 0
        self.memo_verified = 0
        self.signals = []  # PoolSignal instances raised into the consumer

    # -- the seam: what the harness binds to <module under test>.Pool
    def pool_class(self):
        ctl = self

        class Pool(ControlledPool):
            def __init__(self, processes=None, initializer=None, initargs=(), maxtasksperchild=None, context=None):
                ControlledPool.__init__(self, ctl, processes, initializer, initargs, maxtasksperchild, context)

        Pool.__qualname__ = "ControlledPool.bound"
        return Pool

    def choose(self, n, label):
        self.nchoices += 1
        if self.nchoices > self.max_moves:
            raise self.signal(HorizonExceeded("more than %d choice points in one execution" % self.max_moves))
        return self.chooser.choose(n, label)

    def signal(self, exc):
        self.signals.append(exc)
        return exc

    def shutdown(self):
        for p in self.pools:
            p._reap()

    # -- observations used by checks
    def assignment(self):
        """Canonical task->worker assignment: the per-worker task sequences, as a sorted tuple."""
        per = collections.OrderedDict()
        for m in self.trace:
            if m["move"] == "dispatch":
                per.setdefault((m["pool"], m["worker"]), []).append(tuple(m["task"]))
        return tuple(sorted(tuple(v) for v in per.values()))

    def completion_order(self):
        return tuple(tuple(m["task"]) for m in self.trace if m["move"] in ("complete", "reject"))


# --------------------------------------------------------------------------------------
# result objects (multiprocessing.pool.ApplyResult / MapResult / IMapIterator / IMapUnorderedIterator)


class _Task:
    __slots__ = ("job", "idx", "payload", "digest", "submit_error", "label")


class ApplyResult:
    def __init__(self, pool, callback, error_callback):
        self._pool = pool
        self._job = pool._new_job(self)
        self._callback = callback
        self._error_callback = error_callback
        self._ready = False
        self._success = None
        self._value = None

    def ready(self):
        return self._ready

    def successful(self):
        if not self._ready:
            raise ValueError("{0!r} not ready".format(self))
        return self._success

    def wait(self, timeout=None):
        self._pool._run_until(lambda: self._ready, timeout, "wait")

    def get(self, timeout=None):
        self.wait(timeout)
        if not self._ready:
            raise MPTimeoutError
        if self._success:
            return self._value
        raise self._value

    def _set(self, i, obj):
        self._success, self._value = obj
        if self._callback and self._success:
            self._callback(self._value)
        if self._error_callback and not self._success:
            self._error_callback(self._value)
        self._ready = True
        self._pool._jobs.pop(self._job, None)

    __class_getitem__ = classmethod(lambda cls, item: cls)


AsyncResult = ApplyResult


class MapResult(ApplyResult):
    def __init__(self, pool, chunksize, length, callback, error_callback):
        ApplyResult.__init__(self, pool, callback, error_callback)
        self._success = True
        self._value = [None] * length
        self._chunksize = chunksize
        if chunksize <= 0:
            self._number_left = 0
            self._ready = True
            pool._jobs.pop(self._job, None)
        else:
            self._number_left = length // chunksize + bool(length % chunksize)

    def _set(self, i, success_result):
        self._number_left -= 1
        success, result = success_result
        if success and self._success:
            self._value[i * self._chunksize:(i + 1) * self._chunksize] = result
            if self._number_left == 0:
                if self._callback:
                    self._callback(self._value)
                self._pool._jobs.pop(self._job, None)
                self._ready = True
        else:
            if not success and self._success:
                # only the first exception to arrive is kept
                self._success = False
                self._value = result
            if self._number_left == 0:
                if self._error_callback:
                    self._error_callback(self._value)
                self._pool._jobs.pop(self._job, None)
                self._ready = True


class IMapIterator:
    def __init__(self, pool):
        self._pool = pool
        self._job = pool._new_job(self)
        self._items = collections.deque()
        self._index = 0
        self._length = None
        self._unsorted = {}

    def __iter__(self):
        return self

    def next(self, timeout=None):
        if not self._items:
            if self._index == self._length:
                raise StopIteration
            self._pool._run_until(lambda: bool(self._items) or self._index == self._length, timeout, "next")
            if not self._items:
                if self._index == self._length:
                    raise StopIteration
                raise MPTimeoutError
        success, value = self._items.popleft()
        if success:
            return value
        raise value

    __next__ = next

    def _set(self, i, obj):
        if self._index == i:
            self._items.append(obj)
            self._index += 1
            while self._index in self._unsorted:
                self._items.append(self._unsorted.pop(self._index))
                self._index += 1
        else:
            self._unsorted[i] = obj
        if self._index == self._length:
            self._pool._jobs.pop(self._job, None)

    def _set_length(self, length):
        self._length = length
        if self._index == self._length:
            self._pool._jobs.pop(self._job, None)


class IMapUnorderedIterator(IMapIterator):
    def _set(self, i, obj):
        self._items.append(obj)
        self._index += 1
        if self._index == self._length:
            self._pool._jobs.pop(self._job, None)


# --------------------------------------------------------------------------------------
# the pool


class _Worker:
    __slots__ = ("wid", "history", "labels", "running", "frame", "proc", "real_len", "ntasks", "key")

    def __init__(self, wid):
        self.wid = wid
        self.history = []  # tasks started on this worker, in order
        self.labels = ()  # their labels (the symmetry class of an idle worker)
        self.running = None
        self.frame = None  # reply already known (memo hit)
        self.proc = None
        self.real_len = 0  # how many tasks of `history` the real process has run
        self.ntasks = 0
        self.key = None


class ControlledPool:
    """Use Controller.pool_class() to obtain a class with the stdlib constructor signature."""

    def __init__(self, controller, processes=None, initializer=None, initargs=(), maxtasksperchild=None, context=None):
        self._ctl = controller
        self._state = RUN
        if processes is None:
            processes = controller.workers  # "os.cpu_count()" is a parameter of the environment: the harness owns it
        if processes < 1:
            raise ValueError("Number of processes must be at least 1")
        if maxtasksperchild is not None:
            if not isinstance(maxtasksperchild, int) or maxtasksperchild <= 0:
                raise ValueError("maxtasksperchild must be a positive int or None")
        if initializer is not None and not callable(initializer):
            raise TypeError("initializer must be a callable")
        self._processes = processes
        self._initializer = initializer
        self._initargs = initargs
        self._maxtasks = maxtasksperchild
        self._index = len(controller.pools)
        controller.pools.append(self)
        self._pending = collections.deque()
        self._jobs = {}
        self._completed = []
        self._next_wid = 0
        self._workers = []
        if initializer is None:
            self._genesis = b"-"
        else:
            try:
                self._genesis = hashlib.sha1(bytes(ForkingPickler.dumps((initializer, initargs)))).digest()
            except Exception:
                self._genesis = os.urandom(20)  # unpicklable initialiser: never share memo entries
        for _ in range(processes):
            self._add_worker()

    # ---- workers
    def _add_worker(self):
        w = _Worker(self._next_wid)
        self._next_wid += 1
        self._workers.append(w)
        if self._ctl.memo is None:
            self._fork(w)
        return w

    def _fork(self, w):
        close = []
        for p in self._ctl.pools:
            for o in p._workers:
                if o.proc is not None and o.proc.alive:
                    close.extend(o.proc.fds())
        w.proc = _Proc(self._initializer, self._initargs, close)
        w.real_len = 0
        self._ctl.forks += 1

    def _reap(self):
        for w in self._workers:
            if w.proc is not None:
                w.proc.quit()

    def __del__(self):
        try:
            self._reap()
        except BaseException:  # noqa
            pass

    # ---- bookkeeping of jobs
    def _new_job(self, result):
        job = self._ctl.njobs
        self._ctl.njobs += 1
        self._jobs[job] = result
        return job

    def _check_running(self):
        if self._state != RUN:
            raise ValueError("Pool not running")

    def _submit(self, job, idx, func, args, kwds):
        t = _Task()
        t.job, t.idx = job, idx
        t.label = (job, idx)
        t.submit_error = None
        try:
            t.payload = bytes(ForkingPickler.dumps((func, args, kwds)))
            t.digest = hashlib.sha1(t.payload).digest()
        except Exception as e:  # the real task handler sets (False, e) on that one task
            t.payload = None
            t.digest = b"!"
            t.submit_error = e
        self._pending.append(t)

    # ---- abstract state (for coverage counts): workers as a multiset, queue position, completion order
    def _abstract(self):
        ws = tuple(sorted((w.labels, w.running.label if w.running is not None else None) for w in self._workers))
        return (self._index, ws, tuple(t.label for t in self._pending), tuple(self._completed))

    # ---- the scheduler
    def _enabled(self):
        moves = []
        if self._pending:
            if self._pending[0].submit_error is not None:
                moves.append(("reject", None))
            else:
                seen = set()
                for w in self._workers:
                    if w.running is None:
                        if self._ctl.symmetry:
                            if w.labels in seen:
                                continue
                            seen.add(w.labels)
                        moves.append(("dispatch", w))
        for w in self._workers:
            if w.running is not None:
                moves.append(("complete", w))
        return moves

    def _step(self, why):
        ctl = self._ctl
        if self._state == TERMINATE:
            raise ctl.signal(PoolHang("%s on a terminated pool with results outstanding: the real pool never delivers them" % why))
        moves = self._enabled()
        if not moves:
            raise ctl.signal(PoolHang("deadlock: the consumer is blocked in %s, no task is pending or running" % why))
        before = self._abstract()
        k = ctl.choose(len(moves), "%s: %s" % (why, ",".join("%s%s" % (m, "" if w is None else w.wid) for m, w in moves)))
        move, w = moves[k]
        if move == "dispatch":
            t = self._pending.popleft()
            rec = {"move": "dispatch", "pool": self._index, "task": list(t.label), "worker": w.wid}
            ctl.trace.append(rec)
            self._dispatch(w, t)
        elif move == "complete":
            t = w.running
            rec = {"move": "complete", "pool": self._index, "task": list(t.label), "worker": w.wid}
            ctl.trace.append(rec)
            self._completed.append(t.label)
            self._complete(w, t)
        else:
            t = self._pending.popleft()
            rec = {"move": "reject", "pool": self._index, "task": list(t.label), "worker": None}
            ctl.trace.append(rec)
            self._completed.append(t.label)
            self._deliver(t, (False, t.submit_error))
        ctl.edges.append((before, (move, None if w is None else w.labels, tuple(rec["task"])), self._abstract()))

    def _memo_key(self, w, t):
        h = hashlib.sha1(self._genesis)
        for p in w.history:
            h.update(p.digest)
        h.update(b"|")
        h.update(t.digest)
        return h.digest()

    def _catch_up(self, w):
        """Bring the real process of w to the state 'has run all of w.history' (memo mode only)."""
        ctl = self._ctl
        if w.proc is None:
            self._fork(w)
        h = hashlib.sha1(self._genesis)  # running hash of the history before task i
        for i, p in enumerate(w.history):
            if i >= w.real_len:
                hh = h.copy()
                hh.update(b"|")
                hh.update(p.digest)
                key = hh.digest()  # == _memo_key(worker with history[:i], p)
                w.proc.send_task(p.payload)
                frame = w.proc.recv(ctl.task_timeout)
                ctl.executed += 1
                known = ctl.memo.get(key)
                if known is None:
                    raise core.HarnessError("memo entry for an executed history is missing")
                if known != frame:
                    raise core.HarnessError(
                        "a worker's reply is not a function of the tasks it ran (task %r after %d tasks replied differently "
                        "on re-execution); the history memo is unsound for this code: explore live" % (p.label, i)
                    )
                ctl.memo_verified += 1
                w.real_len = i + 1
            h.update(p.digest)

    def _dispatch(self, w, t):
        ctl = self._ctl
        w.running = t
        w.frame = None
        if ctl.memo is not None:
            w.key = self._memo_key(w, t)
            frame = ctl.memo.get(w.key)
            if frame is not None:
                ctl.memo_hits += 1
                w.frame = frame
            else:
                self._catch_up(w)
                w.proc.send_task(t.payload)
        else:
            w.proc.send_task(t.payload)
        w.history.append(t)
        w.labels = w.labels + (t.label,)

    def _complete(self, w, t):
        ctl = self._ctl
        frame = w.frame
        if frame is None:
            frame = w.proc.recv(ctl.task_timeout)
            ctl.executed += 1
            w.real_len = len(w.history)
            if ctl.memo is not None:
                ctl.memo[w.key] = frame
        w.running = None
        w.frame = None
        w.ntasks += 1
        if self._maxtasks is not None and w.ntasks >= self._maxtasks:
            # the real worker exits after its last task and the pool forks a replacement
            if w.proc is not None:
                w.proc.quit()
            self._workers.remove(w)
            self._add_worker()
        kind, data = frame
        if kind == b"R":
            try:
                obj = pickle.loads(data)
            except Exception as e:
                raise ctl.signal(
                    PoolHang(
                        "the result of task %r cannot be unpickled in the parent (%s: %s): the real pool's result-handler "
                        "thread dies and the consumer waits forever" % (t.label, type(e).__name__, str(e)[:160])
                    )
                )
            self._deliver(t, obj)
        elif kind == b"U":
            raise ctl.signal(PoolHang("task %r cannot be unpickled in the worker (%s): the real worker dies, the job is lost" % (t.label, data.decode("utf8", "replace")[:200])))
        else:
            raise ctl.signal(PoolHang("the worker running task %r died (%s): the real pool loses the job and the consumer waits forever" % (t.label, data.decode("utf8", "replace")[:200])))

    def _deliver(self, t, obj):
        res = self._jobs.get(t.job)
        if res is not None:  # like the real result handler: unknown jobs are dropped
            res._set(t.idx, obj)

    def _run_until(self, cond, timeout, why):
        while not cond():
            if timeout is not None:
                if self._ctl.choose(2, "%s: timeout expires?" % why) == 1:
                    self._ctl.trace.append({"move": "timeout", "pool": self._index, "task": [], "worker": None})
                    return False
            self._step(why)
        return True

    # ---- consumer API (signatures of multiprocessing.pool.Pool)
    def apply(self, func, args=(), kwds={}):
        return self.apply_async(func, args, kwds).get()

    def apply_async(self, func, args=(), kwds={}, callback=None, error_callback=None):
        self._check_running()
        result = ApplyResult(self, callback, error_callback)
        self._submit(result._job, 0, func, args, kwds)
        return result

    def map(self, func, iterable, chunksize=None):
        return self._map_async(func, iterable, mapstar, chunksize).get()

    def starmap(self, func, iterable, chunksize=None):
        return self._map_async(func, iterable, starmapstar, chunksize).get()

    def starmap_async(self, func, iterable, chunksize=None, callback=None, error_callback=None):
        return self._map_async(func, iterable, starmapstar, chunksize, callback, error_callback)

    def map_async(self, func, iterable, chunksize=None, callback=None, error_callback=None):
        return self._map_async(func, iterable, mapstar, chunksize, callback, error_callback)

    def _map_async(self, func, iterable, mapper, chunksize=None, callback=None, error_callback=None):
        self._check_running()
        if not hasattr(iterable, "__len__"):
            iterable = list(iterable)
        if chunksize is None:
            chunksize, extra = divmod(len(iterable), self._processes * 4)
            if extra:
                chunksize += 1
        if len(iterable) == 0:
            chunksize = 0
        task_batches = _StdPool._get_tasks(func, iterable, chunksize)
        result = MapResult(self, chunksize, len(iterable), callback, error_callback)
        self._guarded_submit(result._job, mapper, task_batches)
        return result

    def _guarded_submit(self, job, func, iterable):
        """multiprocessing.pool.Pool._guarded_task_generation; returns the number of tasks."""
        i = -1
        try:
            for i, x in enumerate(iterable):
                self._submit(job, i, func, (x,), {})
        except Exception as e:
            self._submit(job, i + 1, _helper_reraises_exception, (e,), {})
            i += 1
        return i + 1

    def imap(self, func, iterable, chunksize=1):
        return self._imap(IMapIterator, func, iterable, chunksize)

    def imap_unordered(self, func, iterable, chunksize=1):
        return self._imap(IMapUnorderedIterator, func, iterable, chunksize)

    def _imap(self, cls, func, iterable, chunksize):
        self._check_running()
        if chunksize == 1:
            result = cls(self)
            result._set_length(self._guarded_submit(result._job, func, iterable))
            return result
        if chunksize < 1:
            raise ValueError("Chunksize must be 1+, not {0:n}".format(chunksize))
        task_batches = _StdPool._get_tasks(func, iterable, chunksize)
        result = cls(self)
        result._set_length(self._guarded_submit(result._job, mapstar, task_batches))
        return (item for chunk in result for item in chunk)

    def close(self):
        if self._state == RUN:
            self._state = CLOSE

    def terminate(self):
        self._state = TERMINATE
        self._reap()

    def join(self):
        if self._state == RUN:
            raise ValueError("Pool is still running")
        if self._state == CLOSE:
            self._run_until(lambda: not self._pending and not any(w.running is not None for w in self._workers), None, "join")
            self._reap()

    def __enter__(self):
        self._check_running()
        return self

    def __exit__(self, exc_type, exc_val, exc_tb):
        self.terminate()

    def __reduce__(self):
        raise NotImplementedError("pool objects cannot be passed between processes or pickled")


# --------------------------------------------------------------------------------------
# self-test of the pool's API semantics against the real multiprocessing.Pool


def _sq(x):
    if x == 3:
        raise ValueError("three")
    return x * x


def _pid_state(x, _seen=[]):
    _seen.append(x)
    return list(_seen)


class _Unloadable(Exception):
    def __init__(self, a, b):
        Exception.__init__(self, a)


def _ret_unloadable(x):
    return _Unloadable(1, 2)


def _ret_lambda(x):
    return lambda: x


def _all_runs(body, workers, symmetry=True):
    """Every schedule of body(PoolClass) on `workers` controlled workers -> [(result, completion order)]."""
    out = []

    def once(ch):
        ctl = Controller(ch, workers, task_timeout=30.0, symmetry=symmetry)
        try:
            try:
                r = ("ok", body(ctl.pool_class()))
            except PoolSignal as e:
                r = ("signal", type(e).__name__)
            except Exception as e:
                r = ("exc", type(e).__name__, str(e)[:80])
        finally:
            ctl.shutdown()
        return r, ctl.completion_order()

    for _, res in core.explore(once):
        out.append(res)
    return out


def _b_imap(P):
    with P() as p:
        return [x for x in p.imap(_sq, [1, 2, 4])]


def _b_unordered(P):
    with P() as p:
        return list(p.imap_unordered(_sq, [1, 2, 4]))


def _b_map_err(P):
    with P() as p:
        return p.map(_sq, [1, 3, 4])


def _b_imap_err(P):
    with P() as p:
        it = p.imap(_sq, [1, 3, 4])
        got = []
        while True:
            try:
                got.append(next(it))
            except StopIteration:
                break
            except ValueError as e:
                got.append("E:" + str(e))
        return got


def _b_apply(P):
    with P() as p:
        rs = [p.apply_async(_sq, (i,)) for i in (5, 6)]
        return [r.get() for r in reversed(rs)]


def _b_state(P):
    with P() as p:
        return sorted(map(tuple, p.imap_unordered(_pid_state, [1, 2, 3])))


def _b_unload(P):
    with P() as p:
        return [type(x).__name__ for x in p.imap(_ret_unloadable, [1])]


def _b_unpicklable(P):
    with P() as p:
        try:
            return list(p.imap(_ret_lambda, [1]))
        except MaybeEncodingError:
            return "MaybeEncodingError"


def _b_chunks(P):
    with P() as p:
        return list(p.imap(_sq, [1, 2, 4, 5, 6], chunksize=2)), p.map(_sq, range(3), chunksize=2)


def _b_close_join(P):
    p = P()
    r = p.map_async(_sq, [1, 2])
    p.close()
    p.join()
    return r.ready(), r.get()


def _real(body, k):
    import multiprocessing

    ctx = multiprocessing.get_context("fork")
    try:
        return ("ok", body(lambda: ctx.Pool(k)))
    except Exception as e:
        return ("exc", type(e).__name__, str(e)[:80])


_SAME_AS_REAL = (_b_imap, _b_imap_err, _b_apply, _b_chunks, _b_unpicklable, _b_map_err, _b_close_join)


def _selftest_job(job):
    """-> number of controlled executions; raises HarnessError on a mismatch."""
    name, w = job
    if name == "unordered":
        runs = _all_runs(_b_unordered, w)
        got = set(tuple(r[1]) for r, _ in runs)
        # with 2 workers the third task starts only after one of the first two has completed
        want = {1: {(1, 4, 16)}, 2: {p for p in itertools.permutations((1, 4, 16)) if p[0] != 16}, 3: set(itertools.permutations((1, 4, 16)))}[w]
        if got != want:
            raise core.HarnessError("vpool selftest: imap_unordered delivers %r on %d workers" % (got, w))
        for r, order in runs:
            if tuple(r[1]) != tuple([1, 4, 16][i] for _, i in order):
                raise core.HarnessError("vpool selftest: imap_unordered does not deliver in completion order")
    elif name == "state":
        runs = _all_runs(_b_state, w)
        # per-worker module state: the histories partition [1,2,3] into <= w increasing runs
        for r, _ in runs:
            hist = r[1]
            firsts = [h for h in hist if len(h) == 1]
            if not (1 <= len(firsts) <= w) or sorted(h[-1] for h in hist) != [1, 2, 3]:
                raise core.HarnessError("vpool selftest: worker state isolation broken: %r" % (hist,))
        nparts = len(set(repr(r) for r, _ in runs))
        if nparts != {1: 1, 2: 4, 3: 5}[w]:
            raise core.HarnessError("vpool selftest: %d distinct worker-state partitions on %d workers" % (nparts, w))
        # the symmetry reduction loses no behaviour: same (result, completion order) set without it
        full = _all_runs(_b_state, w, symmetry=False)
        if set((repr(r), o) for r, o in full) != set((repr(r), o) for r, o in runs):
            raise core.HarnessError("vpool selftest: symmetry reduction changes the set of behaviours on %d workers" % w)
        if w > 1 and len(full) <= len(runs):
            raise core.HarnessError("vpool selftest: symmetry reduction did not reduce (%d vs %d schedules)" % (len(full), len(runs)))
        return len(runs) + len(full)
    elif name == "unload":
        runs = _all_runs(_b_unload, w)
        if set(r for r, _ in runs) != {("signal", "PoolHang")}:
            raise core.HarnessError("vpool selftest: unloadable result not reported as a hang: %r" % (runs[:3],))
    else:
        body = [b for b in _SAME_AS_REAL if b.__name__ == name][0]
        runs = _all_runs(body, w)
        outcomes = set(repr(r) for r, _ in runs)
        want = repr(_real(body, w))
        if outcomes != {want}:
            raise core.HarnessError("vpool selftest: %s on %d workers: controlled %r, real %r" % (name, w, outcomes, want))
    return len(runs)


def selftest(mapper=None):
    """Every schedule of small jobs through each API on 1..3 workers; where the real pool is
    deterministic the outcome must be the real pool's.  mapper(fn, items) may distribute the jobs
    over non-daemonic processes (the jobs create real pools).  Returns the number of controlled
    executions; raises HarnessError on a mismatch."""
    jobs = [(n, w) for w in (1, 2, 3) for n in [b.__name__ for b in _SAME_AS_REAL] + ["unordered", "state", "unload"]]
    res = mapper(_selftest_job, jobs) if mapper else [_selftest_job(j) for j in jobs]
    return sum(res)
